#!/bin/bash
# Build the Coq development from clean (full .vo build), offline.
set -e
cd "$(dirname "$0")"
rm -rf build; mkdir -p build evidence
export PYTHONPATH=/repo:/verif/harness PYTHONHASHSEED=0 PYTHONDONTWRITEBYTECODE=1
if [ -f harness/gen_consts.py ]; then /venv/bin/python harness/gen_consts.py; fi
cd coq
find theories \( -name '*.vo' -o -name '*.vok' -o -name '*.vos' -o -name '*.glob' -o -name '.*.aux' \) -delete
rm -f Makefile Makefile.* .vfiles .vfiles.* .Makefile.d .Makefile.*.d
vs=$(find theories -name '*.v' | sort)
coq_makefile -f _CoqProject -o Makefile $vs
echo "$vs" | sed 's/ /\n/g' > .vfiles.tmp; /venv/bin/python - <<'PY'
import os
vs=sorted(l.strip() for l in open('.vfiles.tmp') if l.strip())
open('.vfiles','w').write('\n'.join(vs)); os.remove('.vfiles.tmp')
PY
timeout 3000 make -j16 > ../build/setup_make.log 2>&1 || { tail -50 ../build/setup_make.log; exit 1; }
cd ..
/venv/bin/python - <<'PY'
import sys; sys.path.insert(0,'harness')
import common
bad = common.source_gate()
if bad:
    print('source gate failed:', bad); sys.exit(1)
print('setup ok')
PY
