#!/bin/bash
# Build the Coq development of every integrated property from clean (full .vo build), offline.
set -e
cd "$(dirname "$0")"
rm -rf build; mkdir -p build evidence
export PYTHONPATH=/repo:/verif/harness PYTHONHASHSEED=0 PYTHONDONTWRITEBYTECODE=1
cd coq
find theories \( -name '*.vo' -o -name '*.vok' -o -name '*.vos' -o -name '*.glob' -o -name '.*.aux' \) -delete
rm -f Makefile Makefile.* .vfiles .vfiles.* .Makefile.d .Makefile.*.d
cd ..
/venv/bin/python - <<'PY'
import sys, importlib
sys.path.insert(0, 'harness')
import common
bad = common.source_gate(only_integrated=True)
if bad:
    print('source gate failed:', bad); sys.exit(1)
ids = open('harness/integrated.txt').read().split()
files = []
for pid in ids:
    mod = importlib.import_module(pid.lower())
    prop = [v for v in vars(mod).values() if isinstance(v, type) and issubclass(v, common.Prop) and v is not common.Prop][0]()
    files += [prop.props_file] + [m.replace('.', '/') + '.v' for m in prop.imports]
ok, log = common.coq_build(sorted(set(files)), tag='setup', timeout=3000)
open('build/setup_make.log', 'w').write(log)
if not ok:
    print(log[-3000:]); sys.exit(1)
print('setup ok:', ' '.join(ids))
PY
