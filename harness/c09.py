"""C09 — timers never fire early, fire as often as specified, and bound the idle sleep.

The real Manager loop is driven tick by tick in the checking thread on a virtual clock:
`time` in circuits.core.timers / circuits.core.manager and `Event` in circuits.core.helpers are
module globals that are replaced by doubles while a case runs (no source change).  Time is counted in
units of 2^-10 s so that all float arithmetic in the implementation is exact.
"""
import sys, os, math, threading
sys.path.insert(0, os.path.dirname(os.path.abspath(__file__)))
import common
from common import Prop
from datetime import datetime
from fractions import Fraction

import circuits.core.timers as _T
import circuits.core.manager as _M
import circuits.core.helpers as _H
from circuits import Component, Event, Timer, handler, sleep

UNIT = 1024
T0 = 4 * UNIT               # virtual start time, in units
UNTIMED = 10000             # FallBackGenerator waits 10000 s at a time when nothing bounds the wait


class tev(Event):
    """event fired by timer i"""


class opev(Event):
    """ordinary event: its handler runs a script of operations"""


class taskev(Event):
    """ordinary event whose handler is a generator task"""


class wake(Event):
    """the harness ends an unbounded idle wait with this"""


class HarnessAbort(BaseException):
    pass


class Ctx:
    """one run of the real loop on the virtual clock"""
    cur = None

    def __init__(self, case):
        self.case = case
        self.now = T0                  # units
        self.log = []
        self.timers = []
        self.stims = [list(s) for s in case['stims']]
        self.idle_forever = False
        self.app = None
        self.after_end = False
        self.waits_this_tick = 0
        self.abort = None
        self.tsched = []               # order in which the task set was iterated, tick after tick (task ids)
        self.tids = {}                 # id(event of the task) -> task id (spawn order)
        self.ncopy = 0
        self.holders = {}              # plain components below the app that hold timers
        self.held = {}                 # holder -> timer ids
        self.holders_gone = set()
        self.keep = []                 # keeps task events alive so that id() stays unique

    def time(self):
        return self.now / float(UNIT)


def _vtime():
    return Ctx.cur.time()


def _from_thread(f):
    th = threading.Thread(target=f)
    th.start()
    th.join()


def _deliver(ctx, st):
    ev = opev(st[2]) if st[1] == 0 else taskev(st[2])
    ctx.app.fire(ev)


class VEvent:
    """double of threading.Event for FallBackGenerator._continue: wait() advances the virtual clock (to the
    timeout rounded up to the grid, or to the next external stimulus, which is then fired from another thread)"""

    def __init__(self):
        self._flag = False

    def clear(self):
        self._flag = False

    def set(self):
        self._flag = True

    def is_set(self):
        return self._flag

    def wait(self, timeout=None):
        ctx = Ctx.cur
        ctx.waits_this_tick += 1
        if ctx.waits_this_tick > 3:
            # the fallback generator keeps waiting although the wait was ended: leave its loop (the dispatcher
            # swallows the exception) and report
            ctx.abort = ('the idle wait of one loop iteration was re-entered %d times (the loop does not come back)'
                         % ctx.waits_this_tick)
            raise HarnessAbort(ctx.abort)
        if timeout is None or timeout >= UNTIMED:
            enc, dur = [-1], None
        else:
            u = timeout * UNIT
            dur = int(math.ceil(u))
            if timeout == _M.TIMEOUT:
                enc = [-2]
            elif u == int(u):
                enc = [int(u)]
            else:
                enc = [-3, int(math.floor(u))]
        rec = ctx.log[-1] if ctx.log else None
        if rec is not None and rec[0] == 4 and rec[1] == ctx.now and rec[2] == []:
            rec[2] = enc
            rec[3] = -1 if dur is None else dur
        else:
            ctx.log.append([4, ctx.now, enc, -1 if dur is None else dur])
        if self._flag:
            return True
        if ctx.stims and (dur is None or ctx.stims[0][0] < ctx.now + dur):
            st = ctx.stims.pop(0)
            ctx.now = max(ctx.now, st[0])
            _from_thread(lambda: _deliver(ctx, st))
            return True
        if dur is None:
            ctx.idle_forever = True
            _from_thread(lambda: ctx.app.fire(wake()))
            return True
        ctx.now += dur
        return False


class TaskSet(set):
    """double of Manager._tasks: a set whose copy() (the iteration of one tick) yields the tasks in an order chosen
    by the case (any order is a legitimate set order) and records it"""

    def __init__(self, ctx):
        super().__init__()
        self._ctx = ctx
        self._order = []

    def add(self, g):
        if g not in self:
            self._order.append(g)
        super().add(g)
        self._ctx.tids.setdefault(id(g[0]), len(self._ctx.tids))
        self._ctx.keep.append(g[0])

    def remove(self, g):
        super().remove(g)
        self._order.remove(g)

    def discard(self, g):
        if g in self:
            self.remove(g)

    def copy(self):
        ctx = self._ctx
        items = list(self._order)
        to = ctx.case.get('torder') or [0]
        r = to[ctx.ncopy % len(to)]
        ctx.ncopy += 1
        if items:
            k = r % len(items)
            items = items[k:] + items[:k]
            if (r // 7) % 2:
                items.reverse()
        ctx.tsched.extend(ctx.tids[id(g[0])] for g in items)
        return items


def run_ops(ctx, ops):
    for o in ops:
        k = o[0]
        if k == 'create' or k == 'create_at':
            i = len(ctx.timers)
            if k == 'create':
                t = Timer(o[1] / float(UNIT), tev(i), persist=bool(o[2]))
                dl = -1
            else:
                t = Timer(datetime.fromtimestamp(o[1] / float(UNIT)), tev(i), persist=bool(o[2]))
                dl = o[1]
            t.register(ctx.app)
            ctx.timers.append(t)
            ctx.log.append([1, ctx.now, enc_units(t.interval), 1 if o[2] else 0, dl])
        elif k == 'reset':
            if o[1] < len(ctx.timers):
                ctx.timers[o[1]].reset()
                ctx.log.append([2, o[1], ctx.now, []])
        elif k == 'reset_to':
            if o[1] < len(ctx.timers):
                ctx.timers[o[1]].reset(o[2] / float(UNIT))
                ctx.log.append([2, o[1], ctx.now, [o[2]]])
        elif k == 'unreg':
            if o[1] < len(ctx.timers):
                ctx.timers[o[1]].unregister()
                ctx.log.append([3, o[1], ctx.now])
        elif k == 'rereg':
            if o[1] < len(ctx.timers):
                t = ctx.timers[o[1]]
                if t.parent is t and not t.unregister_pending:
                    t.register(ctx.app)
                    ctx.log.append([6, o[1], ctx.now])
        elif k == 'create_in':
            # a timer below a plain component (holder) of the application
            h = o[1]
            if h not in ctx.holders:
                ctx.holders[h] = Component().register(ctx.app)
                ctx.held[h] = []
            i = len(ctx.timers)
            t = Timer(o[2] / float(UNIT), tev(i), persist=bool(o[3])).register(ctx.holders[h])
            ctx.timers.append(t)
            ctx.held[h].append(i)
            ctx.log.append([1, ctx.now, enc_units(t.interval), 1 if o[3] else 0, -1])
            if h in ctx.holders_gone:      # created below a holder that has already left the tree: never reachable
                ctx.log.append([7, h, ctx.now, [i]])
        elif k == 'unreg_holder':
            if o[1] in ctx.holders:
                ctx.holders[o[1]].unregister()
        elif k == 'work':
            ctx.now += max(0, o[1])
        elif k == 'fire':
            ctx.app.fire(opev(o[1]))
        else:
            raise ValueError(o)


def enc_units(x):
    """seconds (float or None) -> grid units, or a value off the grid marked as such"""
    if x is None:
        return -(10 ** 9)
    u = x * UNIT
    return int(u) if u == int(u) else -(10 ** 9) - 1


def make_app(ctx):
    case = ctx.case

    class App(Component):
        @handler('generate_events', priority=50)
        def _c09_iteration(self, event):
            for h, c in ctx.holders.items():
                if h not in ctx.holders_gone and c.root is not ctx.app:
                    ctx.holders_gone.add(h)
                    ctx.log.append([7, h, ctx.now, list(ctx.held[h])])
            ctx.log.append([4, ctx.now, [], -1])

        def tev(self, i):
            ctx.log.append([5, i, ctx.now])
            if ctx.after_end:
                return
            of = case['onfire']
            run_ops(ctx, of[i] if i < len(of) else [])

        def opev(self, k):
            if ctx.after_end:
                return
            run_ops(ctx, case['ops'][k] if k < len(case['ops']) else [])

        def taskev(self, k):
            if ctx.after_end:
                return
            for st in (case['gs'][k] if k < len(case['gs']) else []):
                if st[0] == 'ops':
                    run_ops(ctx, st[1])
                elif st[0] == 'yield':
                    yield
                elif st[0] == 'sleep':
                    yield sleep(st[1] / float(UNIT))

    return App()


def run_case(case):
    ctx = Ctx(case)
    saved = (_T.time, _M.time, _H.Event, Ctx.cur)
    _T.time = _vtime
    _M.time = _vtime
    _H.Event = VEvent
    Ctx.cur = ctx
    try:
        app = ctx.app = make_app(ctx)
        common.set_tasks(app, TaskSet(ctx))
        app._running = True
        ticks = 0
        for _ in range(case['n']):
            while ctx.stims and ctx.stims[0][0] <= ctx.now:
                _deliver(ctx, ctx.stims.pop(0))
            ctx.waits_this_tick = 0
            app.tick()
            ticks += 1
            if ctx.idle_forever or ctx.abort:
                break
        final = [[1 if (t.parent is not t and not t.unregister_pending) else 0, enc_units(t.expiry)]
                 for t in ctx.timers]
        endnow = ctx.now
        nlog = len(ctx.log)
        # drain (not part of the compared run): lets pending unregistrations finish and shows which timer events
        # were fired by the last iteration
        app._running = False
        ctx.after_end = True
        ctx.stims = []
        for _ in range(12):
            if not len(app):
                break
            app.flush()
        for h, c in ctx.holders.items():
            if h not in ctx.holders_gone and c.root is not app:
                ctx.log.append([7, h, ctx.now, list(ctx.held[h])])
        removed = [1 if (t.root is not app) else 0 for t in ctx.timers]
        log, tail = ctx.log[:nlog], ctx.log[nlog:]
        # attribute every dispatched timer event to the iteration that fired it (the last one before the dispatch)
        fired, last = {}, None
        for idx, r in enumerate(log + [r for r in tail if r[0] == 5]):
            if r[0] == 4:
                last = idx
            elif r[0] == 5:
                fired.setdefault(-1 if last is None else last, []).append(r[1])
        return {'log': log, 'tail': tail, 'final': final, 'now': endnow, 'ticks': ticks,
                'fired': sorted(fired.items()), 'tsched': ctx.tsched,
                'idle': 1 if ctx.idle_forever else 0, 'removed': removed, 'abort': ctx.abort,
                'tmo': list(Fraction(_M.TIMEOUT * UNIT).as_integer_ratio())}
    finally:
        _T.time, _M.time, _H.Event, Ctx.cur = saved


# ----------------------------------------------------------------------------------------------- oracle

def floorsec(u):
    return (u // UNIT) * UNIT


def spec_check(obs):
    """the property read directly on the trace of the real loop.  Per timer the specification state is
    (t0 = when it was last armed: created / reset / fired, iv = interval, persistent, alive = registered and no
    unregistration requested).  Records: 1 create, 2 reset, 3 unregister requested, 4 loop iteration (+ idle wait),
    5 timer event dispatched (it was fired by the iteration before), 6 registered again after removal, 7 the plain
    component holding the listed timers was seen outside the application's tree."""
    if obs.get('abort'):
        return obs['abort']
    log = obs['log'] + [r for r in obs['tail'] if r[0] in (5, 7)]
    T = []
    # each dispatched timer event was fired by the last iteration before its dispatch
    fired_by = dict((k, v) for k, v in obs['fired'])
    if -1 in fired_by:
        return 'timer %d fired before the loop ever iterated' % fired_by[-1][0]
    last_t = None
    fires = {}
    for idx, r in enumerate(log):
        k = r[0]
        t = r[2] if k in (2, 3, 5, 6, 7) else r[1]
        if last_t is not None and t < last_t:
            return 'virtual clock went backwards at record %r' % (r,)
        last_t = t
        if k == 1:
            _, t, iv, p, dl = r
            if dl >= 0:
                exp = floorsec(dl)
                if iv != exp - t:
                    return 'datetime deadline %d at %d: interval %d, expected whole-second deadline %d' % (dl, t, iv, exp)
            elif iv < -(10 ** 8):
                return 'timer interval is not what was asked for: %r' % (r,)
            T.append({'t0': t, 'iv': iv, 'p': p, 'alive': True, 'n': 0})
        elif k == 2:
            tm = T[r[1]]
            tm['t0'] = r[2]
            if r[3]:
                tm['iv'] = r[3][0]
        elif k == 3:
            T[r[1]]['alive'] = False
        elif k == 6:
            T[r[1]]['alive'] = True        # registered again: a new life, with the expiry it had
        elif k == 7:
            for i in r[3]:                 # the component holding these timers has left the tree
                T[i]['alive'] = False
        elif k == 4:
            _, t, w, dur = r
            fired = fired_by.get(idx, [])
            for i in fired:
                if i >= len(T):
                    return 'unknown timer %d fired' % i
                tm = T[i]
                if fired.count(i) > 1:
                    return 'timer %d fired twice in the iteration at %d' % (i, t)
                if not tm['alive']:
                    if tm['p'] or tm['n'] == 0:
                        return 'timer %d fired at %d after it was unregistered' % (i, t)
                    return 'one-shot timer %d fired again at %d' % (i, t)
                if t - tm['t0'] < tm['iv']:
                    return 'timer %d fired early: at %d, armed at %d with interval %d' % (i, t, tm['t0'], tm['iv'])
            for i, tm in enumerate(T):
                if tm['alive'] and tm['t0'] + tm['iv'] <= t and i not in fired:
                    return 'timer %d (expiry %d) was due in the iteration at %d but did not fire' % (i, tm['t0'] + tm['iv'], t)
            if w:
                if fired:
                    return 'the loop slept at %d although it had just fired timers %r' % (t, fired)
                for i, tm in enumerate(T):
                    if tm['alive']:
                        if w[0] == -1:
                            return 'unbounded idle wait at %d while timer %d is pending' % (t, i)
                        if t + dur > tm['t0'] + tm['iv']:
                            return 'idle wait at %d of %d units sleeps past the expiry %d of timer %d' % (
                                t, dur, tm['t0'] + tm['iv'], i)
            for i in fired:
                tm = T[i]
                tm['n'] += 1
                if tm['p']:
                    tm['t0'] = t
                else:
                    tm['alive'] = False
    for i, tm in enumerate(T):
        if (not tm['alive']) and not obs['removed'][i]:
            return 'timer %d fired once / was unregistered but is still in the component tree after the queue drained' % i
        if tm['alive'] and obs['removed'][i]:
            return 'timer %d disappeared from the tree without having fired or been unregistered' % i
    return None


# ----------------------------------------------------------------------------------------------- Coq terms

def z(n):
    return '(%d)' % n


def op_term(o):
    k = o[0]
    b = lambda x: 'true' if x else 'false'
    if k == 'create':
        return 'OCreate %s %s' % (z(o[1]), b(o[2]))
    if k == 'create_at':
        return 'OCreateAt %s %s' % (z(o[1]), b(o[2]))
    if k == 'reset':
        return 'OReset %d%%nat' % o[1]
    if k == 'reset_to':
        return 'OResetTo %d%%nat %s' % (o[1], z(o[2]))
    if k == 'unreg':
        return 'OUnreg %d%%nat' % o[1]
    if k == 'work':
        return 'OWork %s' % z(o[1])
    if k == 'fire':
        return 'OFire %d%%nat' % o[1]
    if k == 'rereg':
        return 'OReReg %d%%nat' % o[1]
    raise ValueError(o)


def ops_term(ops):
    return '[%s]' % '; '.join(op_term(o) for o in ops)


def gstep_term(s):
    if s[0] == 'ops':
        return 'GOps %s' % ops_term(s[1])
    if s[0] == 'yield':
        return 'GYield'
    return 'GSleep %s' % z(s[1])


def tl_term(w):
    if not w:
        return 'None'
    if w[0] == -1:
        return '(Some Inf)'
    if w[0] == -2:
        return '(Some Tmo)'
    if w[0] == -3:
        return '(Some (Fin %s))' % z(w[1])
    return '(Some (Fin %s))' % z(w[0])


def hist_term(obs):
    """the implementation's history as a Coq `list lrec`"""
    fired = dict((k, v) for k, v in obs['fired'])
    out = []
    for idx, r in enumerate(obs['log']):
        k = r[0]
        if k == 1:
            out.append('LCreate %s %s %s %s' % (z(r[1]), z(r[2]), 'true' if r[3] else 'false',
                                                 'None' if r[4] < 0 else '(Some %s)' % z(r[4])))
        elif k == 2:
            out.append('LReset %d%%nat %s %s' % (r[1], z(r[2]), '(Some %s)' % z(r[3][0]) if r[3] else 'None'))
        elif k == 3:
            out.append('LUnreq %d%%nat %s' % (r[1], z(r[2])))
        elif k == 4:
            out.append('LIter %s [%s]%%nat %s' % (z(r[1]), ';'.join(str(i) for i in fired.get(idx, [])), tl_term(r[2])))
        elif k == 5:
            out.append('LDisp %d%%nat %s' % (r[1], z(r[2])))
        elif k == 6:
            out.append('LRereg %d%%nat %s' % (r[1], z(r[2])))
    return '[%s]' % '; '.join(out)


def has_holder(case):
    def ops_of(c):
        for l in c['ops'] + c['onfire']:
            yield from l
        for g in c['gs']:
            for st in g:
                if st[0] == 'ops':
                    yield from st[1]
    return any(o[0] in ('create_in', 'unreg_holder') for o in ops_of(case))


GRID = [0, 0, 1, 2, 3, 64, 128, 256, 512, 512, 768, 1024, 1024, 1536, 2048, 3072]


class C09(Prop):
    id = 'C09'
    props_file = 'Props/C09.v'
    imports = ['Model.Timers', 'Model.TimersObs']
    quick_n = 300
    thorough_n = 4000
    rule = ('programs over the real Manager loop on a virtual clock: 0-5 timers (intervals from a dyadic grid incl. 0 and '
            'equal values, one-shot / persistent, relative or datetime deadline) created, reset, unregistered and registered again by '
            'scripted ordinary events, by handlers of timer events and by up to 4 generator tasks alive at once (yield / sleep; the task set is iterated in a scripted, recorded order), timers below a component that is unregistered later (oracle only), external '
            'events arriving during idle waits (fired from another thread), busy handlers that advance the clock; '
            'non-trivial = at least one timer fired and at least one idle wait was bounded by a timer')
    trusted_base = ['hand-written model Model/Timers.v (Timer, generate_events.reduce_time_left, FallBackGenerator wait, the '
                    'tick / flush skeleton of Manager) tied to /repo by this correspondence run',
                    'virtual clock / virtual wait doubles and the python oracle in harness/c09.py']
    assumptions = ['time values on the 2^-10 s grid (float arithmetic exact); float rounding of time()+interval is outside the model',
                   'mktime(datetime.timetuple()) = whole seconds of the deadline (local-time conversion not modelled)',
                   'order in which due timers fire inside one iteration (set iteration order) is recorded from the run and '
                   'given to the model as a schedule; theorems hold for every schedule',
                   'order in which the task set is iterated is scripted by the case through a double of Manager._tasks, recorded and '
                   'given to the model as a schedule; theorems hold for every schedule',
                   'the correspondence compares exactly what C09 constrains (specification monitor run on the implementation history, '
                   'final alive/expiry) and the loop skeleton tolerantly (history without idle iterations between the model at n/2 and 2n ticks)']

    def __init__(self):
        self.stats = {}
        self._side = {}

    # ---- generator
    def gen_ops(self, rng, nt, nops, lo=0, persist_ok=True):
        # `fire` only targets later scripts (no event storms); handlers of timer events create one-shot timers only
        ops = []
        for _ in range(rng.randint(0, 3)):
            r = rng.random()
            if r < 0.30:
                ops.append(['create', rng.choice(GRID), persist_ok and rng.random() < 0.5])
            elif r < 0.36:
                ops.append(['create_at', T0 + rng.choice([0, 300, 1023, 1024, 1500, 2047, 2048, 2500, 3100]) - rng.choice([0, 0, 2000]),
                            persist_ok and rng.random() < 0.2])
            elif r < 0.50:
                ops.append(['reset', rng.randrange(nt)])
            elif r < 0.58:
                ops.append(['reset_to', rng.randrange(nt), rng.choice(GRID)])
            elif r < 0.70:
                ops.append(['unreg', rng.randrange(nt)])
            elif r < 0.75:
                ops.append(['rereg', rng.randrange(nt)])
            elif r < 0.92:
                ops.append(['work', rng.choice([0, 1, 2, 5, 64, 100, 300, 700, 1100])])
            elif lo < nops:
                ops.append(['fire', rng.randrange(lo, nops)])
        return ops

    def generate(self, rng, n, tier):
        cases = []
        for _ in range(n):
            nt = rng.randint(1, 5)
            nops = rng.randint(1, 5)
            ops = [self.gen_ops(rng, nt, nops, lo=k + 1) for k in range(nops)]
            # script 0 runs at the start: mostly creations
            ops[0] = [['create', rng.choice(GRID), rng.random() < 0.5] for _ in range(rng.randint(1, 3))] + ops[0]
            onfire = [self.gen_ops(rng, nt, nops, persist_ok=False) if rng.random() < 0.4 else [] for _ in range(nt + 2)]
            gs = []
            stims = [[T0, 0, 0]]
            ntasks = rng.choice([0, 0, 0, 1, 1, 2, 3])
            for g in range(ntasks):
                steps = []
                for _ in range(rng.randint(1, 5)):
                    r = rng.random()
                    if r < 0.35:
                        steps.append(['yield'])
                    elif r < 0.60:
                        steps.append(['sleep', rng.choice([0, 50, 102, 103, 205, 500, 1024, 2000])])
                    else:
                        steps.append(['ops', self.gen_ops(rng, nt, nops)])
                gs.append(steps)
            for g in range(ntasks + (1 if ntasks and rng.random() < 0.3 else 0)):   # sometimes one generator twice
                stims.append([T0 + rng.choice([0, 0, 1, 100, 700, 1500]), 1, rng.randrange(ntasks)])
            t = T0
            for _ in range(rng.randint(0, 5)):
                t = T0 + rng.choice([0, 1, 63, 64, 65, 127, 128, 200, 255, 256, 511, 512, 513, 767, 1000, 1023, 1024, 1025,
                                     1535, 1536, 2047, 2048, 2049, 3000, 4000, 6000])
                stims.append([t, 0, rng.randrange(nops)])
            stims.sort(key=lambda s: s[0])
            case = {'n': rng.choice([8, 14, 20, 30]), 'stims': stims, 'ops': ops, 'onfire': onfire, 'gs': gs,
                    'torder': [rng.randrange(0, 28) for _ in range(rng.randint(1, 4))]}
            if rng.random() < 0.10:
                # timers below a plain component that is unregistered later (oracle only, not in the model)
                nh = rng.randint(1, 2)
                ops[0] = ops[0] + [['create_in', rng.randrange(nh), rng.choice(GRID), rng.random() < 0.6]
                                   for _ in range(rng.randint(1, 3))]
                k = rng.randrange(nops)
                ops[k] = ops[k] + [['unreg_holder', rng.randrange(nh)]]
                if rng.random() < 0.5:
                    case['stims'] = sorted(stims + [[T0 + rng.choice([100, 600, 1100, 2100]), 0, k]], key=lambda s: s[0])
            cases.append(case)
        gd = self.stats.setdefault('generated_ops', {})
        for c in cases:
            for o in [o for l in c['ops'] + c['onfire'] for o in l] + [o for g in c['gs'] for st in g if st[0] == 'ops' for o in st[1]]:
                gd[o[0]] = gd.get(o[0], 0) + 1
            for g in c['gs']:
                for st in g:
                    gd['task_' + st[0]] = gd.get('task_' + st[0], 0) + 1
            gd['external_events'] = gd.get('external_events', 0) + len(c['stims'])
        return cases

    # ---- implementation
    def impl(self, case):
        obs = run_case(case)
        self._side[common.canon(case)] = obs      # the model needs the recorded schedule and the TIMEOUT constant
        st = self.stats.setdefault('trace_distribution', {})
        def bump(k, n=1):
            st[k] = st.get(k, 0) + n
        bump('runs')
        bump('timers_created', len(obs['final']))
        prev_fired = False
        for r in obs['log']:
            if r[0] == 5:
                bump('timer_events_dispatched')
            elif r[0] == 4:
                bump('iterations')
                w = r[2]
                bump('wait_none' if not w else 'wait_unbounded' if w[0] == -1 else 'wait_TIMEOUT_tasks' if w[0] == -2
                     else 'wait_until_timer_expiry')
            elif r[0] == 2:
                bump('resets')
            elif r[0] == 3:
                bump('unregister_requests')
        if obs['idle']:
            bump('runs_ending_idle_forever')
        if any(r[0] == 6 for r in obs['log']):
            bump('runs_with_reregistration')
        if any(r[0] == 7 for r in obs['log']):
            bump('runs_with_holder_removed')
        if len(set(obs['tsched'])) > 1:
            bump('runs_with_several_tasks')
        return obs

    def search(self, rng, tier):
        return self.generate(rng, 1500, tier)

    # ---- model
    def model_term(self, case):
        if has_holder(case):
            return None       # timers below a component that is unregistered: oracle only (not in the model)
        obs = self._side.get(common.canon(case))
        if obs is None:
            obs = self.safe_impl(case)
        if isinstance(obs, dict) and '__crash__' in obs:
            return 'Tl [Tn (-999)]'
        sched = [i for _, l in obs['fired'] for i in l]
        stims = '[%s]' % '; '.join('(%s, %s, %d%%nat)' % (z(s[0]), 'true' if s[1] else 'false', s[2]) for s in case['stims'])
        prog = ('(mkProg [%s] [%s] [%s] %s %s)' % (
            '; '.join(ops_term(o) for o in case['ops']),
            '; '.join(ops_term(o) for o in case['onfire']),
            '; '.join('[%s]' % '; '.join(gstep_term(s) for s in g) for g in case['gs']),
            z(obs['tmo'][0]), z(obs['tmo'][1])))
        fin = '[%s]' % '; '.join('(%s, %s)' % ('true' if f[0] else 'false', z(f[1])) for f in obs['final'])
        return 'k_agree %s %s %s [%s]%%nat [%s]%%nat %d%%nat %s %s' % (
            prog, z(T0), stims, ';'.join(str(i) for i in sched), ';'.join(str(i) for i in obs['tsched']),
            case['n'], hist_term(obs), fin)

    def obs_for_model(self, case, obs):
        # the comparison itself happens inside Coq (Model/TimersObs.v k_agree): 1 = agreement
        return 1

    # ---- oracle
    def oracle(self, case, obs):
        if isinstance(obs, dict) and '__crash__' in obs:
            return None
        return spec_check(obs)

    def nontrivial(self, case, obs):
        if isinstance(obs, dict) and '__crash__' in obs:
            return False
        fired = any(r[0] == 5 for r in obs['log'])
        waited = any(r[0] == 4 and r[2] and r[2][0] >= 0 for r in obs['log'])
        return fired and waited


if __name__ == '__main__':
    sys.exit(common.main(C09()))
