"""C09 — timers never fire early, fire as often as specified, and bound the idle sleep.

The real Manager loop is driven tick by tick in the checking thread on a virtual clock:
`time` in circuits.core.timers / circuits.core.manager and `Event` in circuits.core.helpers are
module globals that are replaced by doubles while a case runs (no source change).  Time is counted in
units of 2^-10 s so that all float arithmetic in the implementation is exact.
"""
import sys, os, math, threading
sys.path.insert(0, os.path.dirname(os.path.abspath(__file__)))
import common
from common import Prop
from datetime import datetime
from fractions import Fraction

import circuits.core.timers as _T
import circuits.core.manager as _M
import circuits.core.helpers as _H
from circuits import Component, Event, Timer, handler, sleep

UNIT = 1024
T0 = 4 * UNIT               # virtual start time, in units
UNTIMED = 10000             # FallBackGenerator waits 10000 s at a time when nothing bounds the wait


class tev(Event):
    """event fired by timer i"""


class opev(Event):
    """ordinary event: its handler runs a script of operations"""


class taskev(Event):
    """ordinary event whose handler is a generator task"""


class wake(Event):
    """the harness ends an unbounded idle wait with this"""


class HarnessAbort(BaseException):
    pass


class Ctx:
    """one run of the real loop on the virtual clock"""
    cur = None

    def __init__(self, case):
        self.case = case
        self.now = T0                  # units
        self.log = []
        self.timers = []
        self.stims = [list(s) for s in case['stims']]
        self.idle_forever = False
        self.app = None
        self.after_end = False
        self.waits_this_tick = 0
        self.abort = None

    def time(self):
        return self.now / float(UNIT)


def _vtime():
    return Ctx.cur.time()


def _from_thread(f):
    th = threading.Thread(target=f)
    th.start()
    th.join()


def _deliver(ctx, st):
    ev = opev(st[2]) if st[1] == 0 else taskev(st[2])
    ctx.app.fire(ev)


class VEvent:
    """double of threading.Event for FallBackGenerator._continue: wait() advances the virtual clock (to the
    timeout rounded up to the grid, or to the next external stimulus, which is then fired from another thread)"""

    def __init__(self):
        self._flag = False

    def clear(self):
        self._flag = False

    def set(self):
        self._flag = True

    def is_set(self):
        return self._flag

    def wait(self, timeout=None):
        ctx = Ctx.cur
        ctx.waits_this_tick += 1
        if ctx.waits_this_tick > 3:
            # the fallback generator keeps waiting although the wait was ended: leave its loop (the dispatcher
            # swallows the exception) and report
            ctx.abort = ('the idle wait of one loop iteration was re-entered %d times (the loop does not come back)'
                         % ctx.waits_this_tick)
            raise HarnessAbort(ctx.abort)
        if timeout is None or timeout >= UNTIMED:
            enc, dur = [-1], None
        else:
            u = timeout * UNIT
            dur = int(math.ceil(u))
            if u == int(u):
                enc = [int(u)]
            elif timeout == _M.TIMEOUT:
                enc = [-2]
            else:
                enc = [-3, int(math.floor(u))]
        rec = ctx.log[-1] if ctx.log else None
        if rec is not None and rec[0] == 4 and rec[1] == ctx.now and rec[2] == []:
            rec[2] = enc
            rec[3] = -1 if dur is None else dur
        else:
            ctx.log.append([4, ctx.now, enc, -1 if dur is None else dur])
        if self._flag:
            return True
        if ctx.stims and (dur is None or ctx.stims[0][0] < ctx.now + dur):
            st = ctx.stims.pop(0)
            ctx.now = max(ctx.now, st[0])
            _from_thread(lambda: _deliver(ctx, st))
            return True
        if dur is None:
            ctx.idle_forever = True
            _from_thread(lambda: ctx.app.fire(wake()))
            return True
        ctx.now += dur
        return False


def run_ops(ctx, ops):
    for o in ops:
        k = o[0]
        if k == 'create' or k == 'create_at':
            i = len(ctx.timers)
            if k == 'create':
                t = Timer(o[1] / float(UNIT), tev(i), persist=bool(o[2]))
                dl = -1
            else:
                t = Timer(datetime.fromtimestamp(o[1] / float(UNIT)), tev(i), persist=bool(o[2]))
                dl = o[1]
            t.register(ctx.app)
            ctx.timers.append(t)
            ctx.log.append([1, ctx.now, enc_units(t.interval), 1 if o[2] else 0, dl])
        elif k == 'reset':
            if o[1] < len(ctx.timers):
                ctx.timers[o[1]].reset()
                ctx.log.append([2, o[1], ctx.now, []])
        elif k == 'reset_to':
            if o[1] < len(ctx.timers):
                ctx.timers[o[1]].reset(o[2] / float(UNIT))
                ctx.log.append([2, o[1], ctx.now, [o[2]]])
        elif k == 'unreg':
            if o[1] < len(ctx.timers):
                ctx.timers[o[1]].unregister()
                ctx.log.append([3, o[1], ctx.now])
        elif k == 'work':
            ctx.now += max(0, o[1])
        elif k == 'fire':
            ctx.app.fire(opev(o[1]))
        else:
            raise ValueError(o)


def enc_units(x):
    """seconds (float or None) -> grid units, or a value off the grid marked as such"""
    if x is None:
        return -(10 ** 9)
    u = x * UNIT
    return int(u) if u == int(u) else -(10 ** 9) - 1


def make_app(ctx):
    case = ctx.case

    class App(Component):
        @handler('generate_events', priority=50)
        def _c09_iteration(self, event):
            ctx.log.append([4, ctx.now, [], -1])

        def tev(self, i):
            ctx.log.append([5, i, ctx.now])
            if ctx.after_end:
                return
            of = case['onfire']
            run_ops(ctx, of[i] if i < len(of) else [])

        def opev(self, k):
            if ctx.after_end:
                return
            run_ops(ctx, case['ops'][k] if k < len(case['ops']) else [])

        def taskev(self, k):
            if ctx.after_end:
                return
            for st in (case['gs'][k] if k < len(case['gs']) else []):
                if st[0] == 'ops':
                    run_ops(ctx, st[1])
                elif st[0] == 'yield':
                    yield
                elif st[0] == 'sleep':
                    yield sleep(st[1] / float(UNIT))

    return App()


def run_case(case):
    ctx = Ctx(case)
    saved = (_T.time, _M.time, _H.Event, Ctx.cur)
    _T.time = _vtime
    _M.time = _vtime
    _H.Event = VEvent
    Ctx.cur = ctx
    try:
        app = ctx.app = make_app(ctx)
        app._running = True
        ticks = 0
        for _ in range(case['n']):
            while ctx.stims and ctx.stims[0][0] <= ctx.now:
                _deliver(ctx, ctx.stims.pop(0))
            ctx.waits_this_tick = 0
            app.tick()
            ticks += 1
            if ctx.idle_forever or ctx.abort:
                break
        final = [[1 if (t.parent is not t) else 0, 1 if t.unregister_pending else 0, enc_units(t.expiry)]
                 for t in ctx.timers]
        endnow = ctx.now
        nlog = len(ctx.log)
        # drain (not part of the compared run): lets pending unregistrations finish and shows which timer events
        # were fired by the last iteration
        app._running = False
        ctx.after_end = True
        ctx.stims = []
        for _ in range(12):
            if not len(app):
                break
            app.flush()
        removed = [1 if (t.parent is t and t not in app.components) else 0 for t in ctx.timers]
        return {'log': ctx.log[:nlog], 'tail': ctx.log[nlog:], 'final': final, 'now': endnow, 'ticks': ticks,
                'idle': 1 if ctx.idle_forever else 0, 'removed': removed, 'abort': ctx.abort,
                'tmo': list(Fraction(_M.TIMEOUT * UNIT).as_integer_ratio())}
    finally:
        _T.time, _M.time, _H.Event, Ctx.cur = saved


# ----------------------------------------------------------------------------------------------- oracle

def floorsec(u):
    return (u // UNIT) * UNIT


def spec_check(obs):
    """the property read directly on the trace of the real loop.  Per timer the specification state is
    (t0 = when it was last armed: created / reset / fired, iv = interval, persistent, alive = registered and no
    unregistration requested).  Records: 1 create, 2 reset, 3 unregister requested, 4 loop iteration (+ idle wait),
    5 timer event dispatched (it was fired by the iteration before)."""
    if obs.get('abort'):
        return obs['abort']
    log = obs['log'] + [r for r in obs['tail'] if r[0] == 5]
    T = []
    # attribute each dispatched timer event to the iteration that fired it
    fired_by = {}
    last_iter = None
    for idx, r in enumerate(log):
        if r[0] == 4:
            last_iter = idx
        elif r[0] == 5:
            if last_iter is None:
                return 'timer %d fired before the loop ever iterated' % r[1]
            fired_by.setdefault(last_iter, []).append(r[1])
    last_t = None
    fires = {}
    for idx, r in enumerate(log):
        k = r[0]
        t = r[2] if k in (2, 3, 5) else r[1]
        if last_t is not None and t < last_t:
            return 'virtual clock went backwards at record %r' % (r,)
        last_t = t
        if k == 1:
            _, t, iv, p, dl = r
            if dl >= 0:
                exp = floorsec(dl)
                if iv != exp - t:
                    return 'datetime deadline %d at %d: interval %d, expected whole-second deadline %d' % (dl, t, iv, exp)
            elif iv < -(10 ** 8):
                return 'timer interval is not what was asked for: %r' % (r,)
            T.append({'t0': t, 'iv': iv, 'p': p, 'alive': True, 'n': 0})
        elif k == 2:
            tm = T[r[1]]
            tm['t0'] = r[2]
            if r[3]:
                tm['iv'] = r[3][0]
        elif k == 3:
            T[r[1]]['alive'] = False
        elif k == 4:
            _, t, w, dur = r
            fired = fired_by.get(idx, [])
            cut = idx == max([j for j, x in enumerate(log) if x[0] == 4])
            for i in fired:
                if i >= len(T):
                    return 'unknown timer %d fired' % i
                tm = T[i]
                if fired.count(i) > 1:
                    return 'timer %d fired twice in the iteration at %d' % (i, t)
                if not tm['alive']:
                    if tm['p'] or tm['n'] == 0:
                        return 'timer %d fired at %d after it was unregistered' % (i, t)
                    return 'one-shot timer %d fired again at %d' % (i, t)
                if t - tm['t0'] < tm['iv']:
                    return 'timer %d fired early: at %d, armed at %d with interval %d' % (i, t, tm['t0'], tm['iv'])
            for i, tm in enumerate(T):
                if tm['alive'] and tm['t0'] + tm['iv'] <= t and i not in fired:
                    return 'timer %d (expiry %d) was due in the iteration at %d but did not fire' % (i, tm['t0'] + tm['iv'], t)
            if w:
                if fired:
                    return 'the loop slept at %d although it had just fired timers %r' % (t, fired)
                for i, tm in enumerate(T):
                    if tm['alive']:
                        if w[0] == -1:
                            return 'unbounded idle wait at %d while timer %d is pending' % (t, i)
                        if t + dur > tm['t0'] + tm['iv']:
                            return 'idle wait at %d of %d units sleeps past the expiry %d of timer %d' % (
                                t, dur, tm['t0'] + tm['iv'], i)
            for i in fired:
                tm = T[i]
                tm['n'] += 1
                if tm['p']:
                    tm['t0'] = t
                else:
                    tm['alive'] = False
    for i, tm in enumerate(T):
        if (not tm['alive']) and not obs['removed'][i]:
            return 'timer %d fired once / was unregistered but is still in the component tree after the queue drained' % i
        if tm['alive'] and obs['removed'][i]:
            return 'timer %d disappeared from the tree without having fired or been unregistered' % i
    return None


# ----------------------------------------------------------------------------------------------- Coq terms

def z(n):
    return '(%d)' % n


def op_term(o):
    k = o[0]
    b = lambda x: 'true' if x else 'false'
    if k == 'create':
        return 'OCreate %s %s' % (z(o[1]), b(o[2]))
    if k == 'create_at':
        return 'OCreateAt %s %s' % (z(o[1]), b(o[2]))
    if k == 'reset':
        return 'OReset %d%%nat' % o[1]
    if k == 'reset_to':
        return 'OResetTo %d%%nat %s' % (o[1], z(o[2]))
    if k == 'unreg':
        return 'OUnreg %d%%nat' % o[1]
    if k == 'work':
        return 'OWork %s' % z(o[1])
    if k == 'fire':
        return 'OFire %d%%nat' % o[1]
    raise ValueError(o)


def ops_term(ops):
    return '[%s]' % '; '.join(op_term(o) for o in ops)


def gstep_term(s):
    if s[0] == 'ops':
        return 'GOps %s' % ops_term(s[1])
    if s[0] == 'yield':
        return 'GYield'
    return 'GSleep %s' % z(s[1])


GRID = [0, 0, 1, 2, 3, 64, 128, 256, 512, 512, 768, 1024, 1024, 1536, 2048, 3072]


class C09(Prop):
    id = 'C09'
    props_file = 'Props/C09.v'
    imports = ['Model.Timers', 'Model.TimersObs']
    quick_n = 300
    thorough_n = 4000
    rule = ('programs over the real Manager loop on a virtual clock: 0-5 timers (intervals from a dyadic grid incl. 0 and '
            'equal values, one-shot / persistent, relative or datetime deadline) created, reset and unregistered by '
            'scripted ordinary events, by handlers of timer events and by one generator task (yield / sleep), external '
            'events arriving during idle waits (fired from another thread), busy handlers that advance the clock; '
            'non-trivial = at least one timer fired and at least one idle wait was bounded by a timer')
    trusted_base = ['hand-written model Model/Timers.v (Timer, generate_events.reduce_time_left, FallBackGenerator wait, the '
                    'tick / flush skeleton of Manager) tied to /repo by this correspondence run',
                    'virtual clock / virtual wait doubles and the python oracle in harness/c09.py']
    assumptions = ['time values on the 2^-10 s grid (float arithmetic exact); float rounding of time()+interval is outside the model',
                   'mktime(datetime.timetuple()) = whole seconds of the deadline (local-time conversion not modelled)',
                   'order in which due timers fire inside one iteration (set iteration order) is recorded from the run and '
                   'given to the model as a schedule; theorems hold for every schedule',
                   'at most one generator task alive per generated case (task set order); the model runs tasks in list order']

    def __init__(self):
        self.stats = {}
        self._side = {}

    # ---- generator
    def gen_ops(self, rng, nt, nops, lo=0, persist_ok=True):
        # `fire` only targets later scripts (no event storms); handlers of timer events create one-shot timers only
        ops = []
        for _ in range(rng.randint(0, 3)):
            r = rng.random()
            if r < 0.30:
                ops.append(['create', rng.choice(GRID), persist_ok and rng.random() < 0.5])
            elif r < 0.36:
                ops.append(['create_at', T0 + rng.choice([0, 300, 1023, 1024, 1500, 2047, 2048, 2500, 3100]) - rng.choice([0, 0, 2000]),
                            persist_ok and rng.random() < 0.2])
            elif r < 0.50:
                ops.append(['reset', rng.randrange(nt)])
            elif r < 0.58:
                ops.append(['reset_to', rng.randrange(nt), rng.choice(GRID)])
            elif r < 0.74:
                ops.append(['unreg', rng.randrange(nt)])
            elif r < 0.92:
                ops.append(['work', rng.choice([0, 1, 2, 5, 64, 100, 300, 700, 1100])])
            elif lo < nops:
                ops.append(['fire', rng.randrange(lo, nops)])
        return ops

    def generate(self, rng, n, tier):
        cases = []
        for _ in range(n):
            nt = rng.randint(1, 5)
            nops = rng.randint(1, 5)
            ops = [self.gen_ops(rng, nt, nops, lo=k + 1) for k in range(nops)]
            # script 0 runs at the start: mostly creations
            ops[0] = [['create', rng.choice(GRID), rng.random() < 0.5] for _ in range(rng.randint(1, 3))] + ops[0]
            onfire = [self.gen_ops(rng, nt, nops, persist_ok=False) if rng.random() < 0.4 else [] for _ in range(nt + 2)]
            gs = []
            stims = [[T0, 0, 0]]
            if rng.random() < 0.45:
                steps = []
                for _ in range(rng.randint(1, 5)):
                    r = rng.random()
                    if r < 0.35:
                        steps.append(['yield'])
                    elif r < 0.65:
                        steps.append(['sleep', rng.choice([0, 50, 102, 103, 205, 500, 1024, 2000])])
                    else:
                        steps.append(['ops', self.gen_ops(rng, nt, nops)])
                gs.append(steps)
                stims.append([T0 + rng.choice([0, 1, 100, 700, 1500]), 1, 0])
            t = T0
            for _ in range(rng.randint(0, 5)):
                t = T0 + rng.choice([0, 1, 63, 64, 65, 127, 128, 200, 255, 256, 511, 512, 513, 767, 1000, 1023, 1024, 1025,
                                     1535, 1536, 2047, 2048, 2049, 3000, 4000, 6000])
                stims.append([t, 0, rng.randrange(nops)])
            stims.sort(key=lambda s: s[0])
            cases.append({'n': rng.choice([8, 14, 20, 30]), 'stims': stims, 'ops': ops, 'onfire': onfire, 'gs': gs})
        gd = self.stats.setdefault('generated_ops', {})
        for c in cases:
            for o in [o for l in c['ops'] + c['onfire'] for o in l] + [o for g in c['gs'] for st in g if st[0] == 'ops' for o in st[1]]:
                gd[o[0]] = gd.get(o[0], 0) + 1
            for g in c['gs']:
                for st in g:
                    gd['task_' + st[0]] = gd.get('task_' + st[0], 0) + 1
            gd['external_events'] = gd.get('external_events', 0) + len(c['stims'])
        return cases

    # ---- implementation
    def impl(self, case):
        obs = run_case(case)
        self._side[common.canon(case)] = obs      # the model needs the recorded schedule and the TIMEOUT constant
        st = self.stats.setdefault('trace_distribution', {})
        def bump(k, n=1):
            st[k] = st.get(k, 0) + n
        bump('runs')
        bump('timers_created', len(obs['final']))
        prev_fired = False
        for r in obs['log']:
            if r[0] == 5:
                bump('timer_events_dispatched')
            elif r[0] == 4:
                bump('iterations')
                w = r[2]
                bump('wait_none' if not w else 'wait_unbounded' if w[0] == -1 else 'wait_TIMEOUT_tasks' if w[0] == -2
                     else 'wait_until_timer_expiry')
            elif r[0] == 2:
                bump('resets')
            elif r[0] == 3:
                bump('unregister_requests')
        if obs['idle']:
            bump('runs_ending_idle_forever')
        if any(f[1] for f in obs['final']):
            bump('runs_ending_with_unregistration_pending')
        return obs

    def search(self, rng, tier):
        return self.generate(rng, 1500, tier)

    # ---- model
    def model_term(self, case):
        obs = self._side.get(common.canon(case))
        if obs is None:
            obs = self.safe_impl(case)
        if isinstance(obs, dict) and '__crash__' in obs:
            obs = {'log': [], 'tmo': list(Fraction(_M.TIMEOUT * UNIT).as_integer_ratio())}
        sched = [r[1] for r in obs['log'] if r[0] == 5]
        stims = '[%s]' % '; '.join('(%s, %s, %d%%nat)' % (z(s[0]), 'true' if s[1] else 'false', s[2]) for s in case['stims'])
        prog = ('(mkProg [%s] [%s] [%s] %s %s)' % (
            '; '.join(ops_term(o) for o in case['ops']),
            '; '.join(ops_term(o) for o in case['onfire']),
            '; '.join('[%s]' % '; '.join(gstep_term(s) for s in g) for g in case['gs']),
            z(obs['tmo'][0]), z(obs['tmo'][1])))
        return 'obs_run %s %s %s [%s]%%nat %d%%nat' % (prog, z(T0), stims, ';'.join(str(i) for i in sched), case['n'])

    def obs_for_model(self, case, obs):
        if isinstance(obs, dict) and '__crash__' in obs:
            return [-999]
        return [[r[:3] if r[0] == 4 else r for r in obs['log']], obs['final'], obs['now'], obs['ticks'], obs['idle']]

    # ---- oracle
    def oracle(self, case, obs):
        if isinstance(obs, dict) and '__crash__' in obs:
            return None
        return spec_check(obs)

    def nontrivial(self, case, obs):
        if isinstance(obs, dict) and '__crash__' in obs:
            return False
        fired = any(r[0] == 5 for r in obs['log'])
        waited = any(r[0] == 4 and r[2] and r[2][0] >= 0 for r in obs['log'])
        return fired and waited


if __name__ == '__main__':
    sys.exit(common.main(C09()))
