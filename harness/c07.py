"""C07 - the component tree stays a consistent forest under register/unregister.

Cases are histories over a pool of n <= 6 real BaseComponent objects.  Every op is concrete
(['reg', c, p], ['unreg', c], ['fire', x], ['tick', r, k], ['flush', x]); before executing an op the
driver evaluates the property's preconditions on the real object graph and, when they do not hold,
moves on cyclically to the next candidate for which they do (or skips the op).  A case may give components
scripts: queues of operation lists that the component's handler performs (resolved the same way, at that
moment) while it handles a probe / registered / unregistered / prepare_unregister event.  The history that
was actually executed - with the dispatch order of every flush and what every handler did - is part of the
observable, and it is that history that the Coq model KTree is run on.
"""
import sys, os
sys.path.insert(0, os.path.dirname(os.path.abspath(__file__)))
import common
from common import Prop

from circuits import BaseComponent, Event, handler

NMAX = 6
DRAIN_ROUNDS = 16


class probe(Event):
    """probe Event"""


def make_pool(n, sink):
    """one class per component: its catch-all handler has priority 100 - index, so that the handlers of one
    event run in ascending index order; after logging, the handler runs the component's script for the event"""
    pool = []
    for i in range(n):
        class Node(BaseComponent):
            def __init__(self, idx):
                self.idx = idx
                super().__init__()

            @handler(channel='*', priority=100 - i)
            def _c07_log(self, event, *args, **kwargs):
                sink(self.idx, event)

        pool.append(Node(i))
    return pool


# ---------------------------------------------------------------- reading the real object graph
# only public attributes: parent, root, components, unregister_pending, len()

def _idx(pool, o):
    for i, c in enumerate(pool):
        if c is o:
            return i
    return -1


def structure(pool):
    """[parent, root, sorted children, pending, queued] per component"""
    out = []
    for c in pool:
        out.append([_idx(pool, c.parent), _idx(pool, c.root), sorted(_idx(pool, k) for k in c.components),
                    1 if c.unregister_pending else 0, len(c)])
    return out


def parents(pool):
    return [_idx(pool, c.parent) for c in pool]


def top_of(par, x):
    """top of x's tree by chasing parent links; -1 when there is none within len(par) steps"""
    for _ in range(len(par) + 1):
        if x < 0 or x >= len(par):
            return -1
        if par[x] == x:
            return x
        x = par[x]
    return -1


def subtree(pool, c):
    seen, todo = [], [c]
    while todo:
        x = todo.pop()
        if any(x is y for y in seen):
            continue
        seen.append(x)
        todo.extend(x.components)
    return seen


def evdesc(pool, e):
    nm = e.name
    a = e.args
    try:
        if nm == 'probe':
            return [0, int(a[0]), 0]
        if nm == 'registered':
            return [1, _idx(pool, a[0]), _idx(pool, a[1])]
        if nm == 'unregistered':
            return [2, _idx(pool, a[0]), _idx(pool, a[1])]
        if nm == 'prepare_unregister':
            return [3, _idx(pool, a[0]), 0]
        if nm == 'prepare_unregister_complete':
            return [4, _idx(pool, a[0].args[0]), 0]
    except Exception:
        pass
    return [9, 0, 0]


KINDS = {'probe': 0, 'registered': 1, 'unregistered': 2, 'prepare_unregister': 3}      # events whose handlers may act


class Driver:
    def __init__(self, n, scripts=None):
        self.n = n
        self.cur = None          # entries of the flush round being recorded
        self.last = None
        self.flushing = None     # index of the root whose flush is in progress
        self.pool = make_pool(n, self.sink)
        self.nprobe = 0
        self.unsafe = False      # corpus witness of finding C07-register-flushing-root only
        # scripts[str(component)][str(kind)] = queue of action lists: each time the component's handler sees an
        # event of that kind it takes the next list and performs its register/unregister/fire operations
        self.scripts = {}
        for c, d in (scripts or {}).items():
            for k, q in d.items():
                self.scripts[(int(c), int(k))] = [list(map(list, al)) for al in q]

    def sink(self, idx, event):
        if self.cur is None:
            self.stray.append([idx, evdesc(self.pool, event)])
            return
        if self.last is not event:
            self.last = event
            self.cur.append([evdesc(self.pool, event), [], parents(self.pool), []])
        entry = self.cur[-1]
        entry[1].append(idx)
        q = self.scripts.get((idx, KINDS.get(event.name, -1)))
        if q:
            done = []
            try:
                for a in q.pop(0):
                    c = self.resolve(list(a), handler=True)
                    if c is not None:
                        done.append(c)
                        self.execute(c)
            finally:
                if done:
                    entry[3].append([idx, done])

    # preconditions of the property's quantifier, evaluated on the real object graph
    def reg_ok(self, c, p):
        C, P = self.pool[c], self.pool[p]
        if c == p or C.parent is not C or C.unregister_pending:
            return False
        if any(C in x.components for x in self.pool):
            return False
        return not any(P is y for y in subtree(self.pool, C))

    def resolve(self, op, handler=False):
        n, k = self.n, op[0]
        if k == 'reg':
            c0, p0 = op[1] % n, op[2] % n
            for d in range(n * n):
                j = (c0 * n + p0 + d) % (n * n)
                c, p = divmod(j, n)
                # a handler cannot register the root whose flush is in progress (registerChild asserts that the
                # queue it drains is not being flushed)
                if self.reg_ok(c, p) and not (handler and c == self.flushing and not self.unsafe):
                    return ['reg', c, p]
            return None
        if k == 'unreg':
            for d in range(n):
                c = (op[1] + d) % n
                if self.pool[c].parent is not self.pool[c]:
                    return ['unreg', c]
            return None
        if k == 'tick':
            # any current root; roots that have something queued are preferred so that histories make progress
            for busy in (True, False):
                for d in range(n):
                    r = (op[1] + d) % n
                    if self.pool[r].parent is self.pool[r] and (len(self.pool[r]) > 0 or not busy):
                        return ['tick', r, max(1, min(3, op[2]))]
            return None
        if k == 'fire':
            return ['fire', op[1] % n]
        if k == 'flush':
            return ['flush', op[1] % n]
        raise ValueError(k)

    def rounds(self, f, k, root):
        out = []
        for _ in range(k):
            self.cur, self.last = [], None
            self.flushing = _idx(self.pool, root.root)
            try:
                f()
            finally:
                out.append(self.cur)
                self.cur = None
                self.flushing = None
        return out

    def execute(self, op):
        k = op[0]
        P = self.pool
        if k == 'reg':
            P[op[1]].register(P[op[2]])
            return []
        if k == 'unreg':
            P[op[1]].unregister()
            return []
        if k == 'fire':
            self.nprobe += 1
            op.append(self.nprobe)
            P[op[1]].fire(probe(self.nprobe))
            return []
        if k == 'tick':
            return self.rounds(P[op[1]].tick, op[2], P[op[1]])
        if k == 'flush':
            return self.rounds(P[op[1]].flush, 1, P[op[1]])

    def run(self, ops, drain=True):
        self.stray = []
        hist, snaps, logs = [], [], []
        init = structure(self.pool)

        def do(op):
            lg = self.execute(op)
            hist.append(op)
            logs.append(lg)
            snaps.append(structure(self.pool))
        for op in ops:
            c = self.resolve(list(op))
            if c is not None:
                do(c)
        drained = None
        if drain:
            for _ in range(DRAIN_ROUNDS):
                busy = [i for i, c in enumerate(self.pool) if c.parent is c and len(c)]
                if not busy:
                    break
                for r in busy:
                    if self.pool[r].parent is self.pool[r] and len(self.pool[r]):
                        do(['tick', r, 1])
            drained = 1 if not any(len(c) for c in self.pool) else 0
        return {'n': self.n, 'init': init, 'hist': hist, 'snaps': snaps, 'logs': logs, 'drained': drained,
                'stray': self.stray}


# ---------------------------------------------------------------- Coq literals

def ev_lit(d):
    k, a, b = d
    if k == 0:
        return 'Probe %d' % a
    if k == 1 and a >= 0 and b >= 0:
        return 'Registered %d %d' % (a, b)
    if k == 2 and a >= 0 and b >= 0:
        return 'Unregistered %d %d' % (a, b)
    if k == 3 and a >= 0:
        return 'PrepUnreg %d' % a
    if k == 4 and a >= 0:
        return 'PrepDone %d' % a
    return 'Other'


def act_lit(a):
    if a[0] == 'reg':
        return 'AReg %d %d' % (a[1], a[2])
    if a[0] == 'unreg':
        return 'AUnreg %d' % a[1]
    return 'AFire %d %d' % (a[1], a[2])


def item_lit(e):
    hs = '; '.join('(%d, [%s])' % (x, '; '.join(act_lit(a) for a in acts)) for x, acts in e[3])
    return '(%s, [%s])' % (ev_lit(e[0]), hs)


def sched_lit(rnd):
    return '[%s]' % '; '.join(item_lit(e) for e in rnd)


def op_lit(op, lg):
    k = op[0]
    if k == 'reg':
        return 'OReg %d %d' % (op[1], op[2])
    if k == 'unreg':
        return 'OUnreg %d' % op[1]
    if k == 'fire':
        return 'OFire %d %d' % (op[1], op[2])
    if k == 'tick':
        return 'OTick %d [%s]' % (op[1], '; '.join(sched_lit(r) for r in lg))
    if k == 'flush':
        return 'OFlush %d %s' % (op[1], sched_lit(lg[0]))


# ---------------------------------------------------------------- the check

class C07(Prop):
    id = 'C07'
    props_file = 'Props/C07.v'
    imports = ['Model.KTree', 'Model.KTreeObs']
    quick_n = 240
    thorough_n = 3000
    rule = ('histories of 4..40 ops over a pool of 2..6 real BaseComponent objects (55% with handlers that act while handling '
            'probe / registered / unregistered / prepare_unregister events): register(c, p) with c detached, not '
            'pending and p outside c\'s subtree, unregister of attached components (also already pending ones, nested '
            'subtrees, several before any tick), fire on any component, 1..3 ticks of any current root, flush() on any '
            'component, then ticks of all busy roots until every queue is empty; three styles: random, settled (ticks after '
            'most register/unregister), reroot (a root that has dispatched becomes a subtree, changes, is unregistered and '
            'probed again).  non-trivial = the history completes '
            'at least one unregistration or moves a component with queued events or a subtree')
    trusted_base = ['hand-written model Model/KTree.v tied to /repo by this correspondence run (structure of the object '
                    'graph after every op, receivers of every dispatched event)',
                    'python oracle in harness/c07.py (reads parent, root, components, unregister_pending, len() only)']
    assumptions = ['single thread, no component is running; handlers log and may register / unregister / fire (never the '
                   'root whose flush is in progress: open finding C07-register-flushing-root); no handler raises, '
                   'cancels or stops events, none is a generator',
                   'order in which one flush dispatches its batch and what the handlers of each dispatched event did are '
                   'taken from the implementation run as the schedule; theorems hold for every permutation of the batch '
                   'and every choice of handler operations that satisfy the preconditions',
                   'Event.cause / Event.effects counters are modelled by closure membership counts (same zero crossings); '
                   'tied by the correspondence only']

    def __init__(self):
        self._obs = {}
        self.stats = {}

    # ---- generator
    def generate(self, rng, n, tier):
        cases = []
        kinds = {}
        styles = {}

        def rnd_op(size):
            r = rng.random()
            if r < 0.22:
                return [['reg', rng.randrange(size), rng.randrange(size)]]
            if r < 0.44:
                o = [['unreg', rng.randrange(size)]]
                if rng.random() < 0.4:      # several before any tick (nested, or the same one again)
                    o.append(['unreg', rng.randrange(size)])
                return o
            if r < 0.62:
                return [['fire', rng.randrange(size)]]
            if r < 0.92:
                return [['tick', rng.randrange(size), rng.choice([1, 1, 2, 3])]]
            return [['flush', rng.randrange(size)]]

        for i in range(n):
            size = rng.choice([2, 3, 3, 4, 4, 5, 6, 6])
            style = rng.random()
            L = rng.randint(4, 40 if tier == 'thorough' else 28)
            ops = []
            if style < 0.2 and size >= 3:
                # a component that has been a root (and has dispatched) becomes a subtree, changes, and becomes
                # a root again; then its old and new members are probed
                st = 'reroot'
                ids = list(range(size))
                rng.shuffle(ids)
                X, R, rest = ids[0], ids[1], ids[2:]
                sub = [X]
                for c in rest[:rng.randint(1, len(rest))]:
                    ops.append(['reg', c, rng.choice(sub)])
                    sub.append(c)
                ops += [['fire', rng.choice(sub)], ['tick', X, rng.choice([1, 2])], ['reg', X, R]]
                for _ in range(rng.randint(1, 3)):
                    r = rng.random()
                    if r < 0.5 and len(sub) > 1:
                        ops += [['unreg', rng.choice(sub[1:])], ['tick', R, 3]]
                    elif r < 0.8:
                        ops += [['reg', rng.randrange(size), rng.choice(sub)], ['tick', R, rng.choice([1, 3])]]
                    else:
                        ops += rnd_op(size)
                ops += [['unreg', X], ['tick', R, 3], ['fire', rng.choice(sub)], ['tick', X, 2]]
                for _ in range(rng.randint(0, 6)):
                    ops += rnd_op(size)
            else:
                st = 'settled' if style < 0.5 else 'random'
                # mostly start by building some tree
                if rng.random() < 0.8:
                    for _ in range(rng.randint(1, size)):
                        ops.append(['reg', rng.randrange(size), rng.randrange(size)])
                while len(ops) < L:
                    o = rnd_op(size)
                    ops += o
                    if st == 'settled' and o[0][0] in ('reg', 'unreg') and rng.random() < 0.6:
                        ops.append(['tick', rng.randrange(size), 3])
            styles[st] = styles.get(st, 0) + 1
            for o in ops:
                kinds[o[0]] = kinds.get(o[0], 0) + 1
            case = {'n': size, 'ops': ops}
            if rng.random() < 0.55:
                # handlers that act: some components register / unregister / fire while they handle a probe,
                # registered or unregistered event (each listed reaction is used once, in order)
                scripts = {}
                for c in rng.sample(range(size), rng.randint(1, min(3, size))):
                    d = {}
                    for k in rng.sample([0, 1, 2, 3, 3], rng.randint(1, 4)):
                        q = []
                        for _ in range(rng.randint(1, 3)):
                            al = []
                            for _ in range(rng.randint(1, 2)):
                                r = rng.random()
                                if r < 0.4:
                                    al.append(['reg', rng.randrange(size), rng.randrange(size)])
                                elif r < 0.75:
                                    al.append(['unreg', rng.randrange(size)])
                                else:
                                    al.append(['fire', rng.randrange(size)])
                            q.append(al)
                        d[str(k)] = q
                    scripts[str(c)] = d
                case['scripts'] = scripts
                styles['with_acting_handlers'] = styles.get('with_acting_handlers', 0) + 1
            cases.append(case)
        self.stats = {'op_kinds_generated': kinds, 'history_styles': styles}
        return cases

    # ---- implementation driver
    def impl(self, case):
        d = Driver(int(case['n']), case.get('scripts'))
        if case.get('unsafe_flushing_root'):
            import contextlib, io
            d.unsafe = True
            with contextlib.redirect_stderr(io.StringIO()):      # the fallback exception handler prints a traceback
                obs = d.run(case['ops'], drain=case.get('drain', True))
        else:
            obs = d.run(case['ops'], drain=case.get('drain', True))
        self._obs[common.canon(case)] = obs
        return obs

    # ---- model
    def model_term(self, case):
        if case.get('unsafe_flushing_root'):
            return None          # outside the model's preconditions (C07_ex_flushing_root)
        obs = self._obs.get(common.canon(case))
        if obs is None:
            obs = self.safe_impl(case)
        if isinstance(obs, dict) and '__crash__' in obs:
            return '(obs_run 0 [])%nat'
        ops = '[%s]' % '; '.join(op_lit(o, lg) for o, lg in zip(obs['hist'], obs['logs']))
        return '(obs_run %d %s)%%nat' % (obs['n'], ops)

    def obs_for_model(self, case, obs):
        if isinstance(obs, dict) and '__crash__' in obs:
            return [-999]
        steps = []
        for s, lg in zip(obs['snaps'], obs['logs']):
            steps.append([s, [[[e[0], sorted(e[1])] for e in rnd] for rnd in lg]])
        return [1, steps]

    # ---- oracle: a direct reading of the statement on what the real objects did
    def oracle(self, case, obs):
        if isinstance(obs, dict) and '__crash__' in obs:
            return None
        n = obs['n']
        if obs['stray']:
            return 'events were dispatched outside tick/flush: %r' % obs['stray'][:3]

        def check_structure(s, where):
            par = [x[0] for x in s]
            for c in range(n):
                if not (0 <= par[c] < n) or not (0 <= s[c][1] < n) or any(not (0 <= k < n) for k in s[c][2]):
                    return '%s: component %d links to an object outside the pool: %r' % (where, c, s[c])
            for p in range(n):
                for c in range(n):
                    if (c in s[p][2]) != (par[c] == p and c != p):
                        return '%s: parent/child links disagree: parent[%d]=%d but children[%d]=%r' % (
                            where, c, par[c], p, s[p][2])
            for c in range(n):
                t = top_of(par, c)
                if t < 0:
                    return '%s: parent links from %d never reach a top (cycle): parents %r' % (where, c, par)
                if s[c][1] != t:
                    return '%s: root of %d is %d but the top of its tree is %d' % (where, c, s[c][1], t)
            return None

        w = check_structure(obs['init'], 'initially')
        if w:
            return w
        par = [x[0] for x in obs['init']]      # parent links at the latest observation
        pend = [x[3] for x in obs['init']]
        regs, comps, ann_r, ann_u = {}, {}, {}, {}
        former = [set() for _ in range(n)]     # members of the trees c left by a completed unregistration
        requested = [False] * n                # unregister() called on an attached component since the last snapshot
        loc, done = {}, {}                     # probe id -> root whose queue holds it ; -> times dispatched

        def observe(newpar, newpend, regop, where):
            """parent links may change only by the register op being executed or by a pending component detaching"""
            nonlocal par, pend
            for c in range(n):
                if newpar[c] != par[c]:
                    if regop is not None and c == regop[0] and par[c] == c and newpar[c] == regop[1]:
                        continue
                    if par[c] != c and newpar[c] == c and (pend[c] or requested[c]):
                        requested[c] = False
                        # completed unregistration of c from the tree it was in
                        t = top_of(par, c)
                        sub = set(x for x in range(n) if c in chain(par, x))
                        former[c] |= set(x for x in range(n) if top_of(par, x) == t) - sub
                        comps[(c, par[c])] = comps.get((c, par[c]), 0) + 1
                        for x in sub:
                            if x != c and newpar[x] != par[x]:
                                return '%s: detaching %d broke the link of %d inside its subtree' % (where, c, x)
                        continue
                    return '%s: parent of %d changed from %d to %d without a register or a completed unregister' % (
                        where, c, par[c], newpar[c])
            par = list(newpar)
            if newpend is not None:
                pend = list(newpend)
                requested[:] = [False] * n
            return None

        def chain(par_, x):
            out = [x]
            for _ in range(n):
                if par_[x] == x or not (0 <= par_[x] < n):
                    break
                x = par_[x]
                out.append(x)
            return out

        for i, (op, s, lg) in enumerate(zip(obs['hist'], obs['snaps'], obs['logs'])):
            where = 'after step %d %r' % (i, op)
            k = op[0]
            regop = None
            if k == 'reg':
                c, p = op[1], op[2]
                regop = (c, p)
                regs[(c, p)] = regs.get((c, p), 0) + 1
                newtop = top_of(par, p)
                sub = [x for x in range(n) if c in chain(par, x)]
                for e in loc:
                    if loc[e] == c and not done.get(e):
                        loc[e] = newtop
            elif k == 'fire':
                loc[op[2]] = top_of(par, op[1])
            elif k == 'unreg' and par[op[1]] != op[1]:
                requested[op[1]] = True
            disp = top_of(par, op[1]) if k in ('tick', 'flush') else None
            for rnd in lg:
                for (d, recv, parnow, hacts) in rnd:
                    w = observe(parnow, None, None, where + ' (during the flush)')
                    if w:
                        return w
                    # pending flags may have been cleared by completions inside the flush; refresh lazily below
                    if d[0] == 0:
                        e = d[1]
                        done[e] = done.get(e, 0) + 1
                        if done[e] > 1:
                            return '%s: probe event %d dispatched %d times' % (where, e, done[e])
                        if e not in loc:
                            return '%s: probe event %d dispatched but never fired' % (where, e)
                        if loc[e] != disp:
                            return ('%s: probe event %d was queued for root %d (after the registrations of its tree) but '
                                    'was dispatched by %d' % (where, e, loc[e], disp))
                    elif d[0] == 1:
                        ann_r[(d[1], d[2])] = ann_r.get((d[1], d[2]), 0) + 1
                        if ann_r[(d[1], d[2])] > regs.get((d[1], d[2]), 0):
                            return '%s: more registered(%d,%d) events than registrations' % (where, d[1], d[2])
                    elif d[0] == 2:
                        ann_u[(d[1], d[2])] = ann_u.get((d[1], d[2]), 0) + 1
                        if ann_u[(d[1], d[2])] > comps.get((d[1], d[2]), 0):
                            return '%s: more unregistered(%d,%d) events than completed unregistrations' % (where, d[1], d[2])
                    elif d[0] == 9:
                        return '%s: an unexpected event (exception?) was dispatched' % where
                    for x in recv:
                        if top_of(par, x) != disp and disp in former[x]:
                            return ('%s: component %d, whose unregistration has completed, received event %r dispatched '
                                    'by %d, the root of a tree it has left' % (where, x, d, disp))
                    # operations performed by the handlers of this event, in the order they were performed
                    for (hx, acts) in hacts:
                        if hx not in recv or d[0] not in (0, 1, 2, 3):
                            return '%s: harness error: %d acted on %r without receiving it' % (where, hx, d)
                        for a in acts:
                            if a[0] == 'reg':
                                c, p = a[1], a[2]
                                if par[c] != c or c == p or c in chain(par, p) or (c == disp and not case.get('unsafe_flushing_root')):
                                    return '%s: harness error: handler register(%d,%d) violates the preconditions' % (where, c, p)
                                regs[(c, p)] = regs.get((c, p), 0) + 1
                                nt = top_of(par, p)
                                for e in loc:
                                    if loc[e] == c and not done.get(e):
                                        loc[e] = nt
                                par[c] = p
                            elif a[0] == 'unreg':
                                if par[a[1]] != a[1]:
                                    requested[a[1]] = True
                            elif a[0] == 'fire':
                                loc[a[2]] = top_of(par, a[1])
            w = observe([x[0] for x in s], [x[3] for x in s], regop, where)
            if w:
                return w
            w = check_structure(s, where)
            if w:
                return w
            if k == 'reg':
                # moved as a whole: every member of c's subtree is now under the new top
                for x in sub:
                    if top_of(par, x) != newtop or s[x][1] != newtop:
                        return '%s: %d, member of the moved subtree of %d, is not connected to the new root %d' % (
                            where, x, op[1], newtop)
        if obs['drained'] == 0:
            return 'queues do not drain: events stay queued (on a component that is not a root, or for ever): %r' % (
                [x[4] for x in obs['snaps'][-1]],)
        if obs['drained'] == 1:
            # every unregistration that was requested has completed by now: every current root has been ticked
            # until all queues were empty, so nothing can complete it later
            last = obs['snaps'][-1] if obs['snaps'] else obs['init']
            for c in range(n):
                if last[c][3]:
                    return ('unregistration of %d was requested but never completes: %d is still attached to %d and '
                            'pending although every root has been ticked until all queues were empty' % (c, c, last[c][0]))
            for e in loc:
                if done.get(e, 0) != 1:
                    return 'probe event %d was fired but dispatched %d times (lost)' % (e, done.get(e, 0))
            for key in set(regs) | set(ann_r):
                if regs.get(key, 0) != ann_r.get(key, 0):
                    return '%d registrations of %d under %d but %d registered events' % (
                        regs.get(key, 0), key[0], key[1], ann_r.get(key, 0))
            for key in set(comps) | set(ann_u):
                if comps.get(key, 0) != ann_u.get(key, 0):
                    return '%d completed unregistrations of %d from %d but %d unregistered events' % (
                        comps.get(key, 0), key[0], key[1], ann_u.get(key, 0))
        return None

    def finding_class(self, case, obs, what):
        # open finding C07-register-flushing-root: only the dedicated witness (a handler registers, elsewhere, the
        # root whose flush is in progress while that batch still holds events) and only if that is what happened
        if not case.get('unsafe_flushing_root') or not isinstance(obs, dict) or 'logs' not in obs:
            return None
        for op, lg in zip(obs['hist'], obs['logs']):
            if op[0] not in ('tick', 'flush'):
                continue
            for rnd in lg:
                for k, e in enumerate(rnd):
                    for (_, acts) in e[3]:
                        for a in acts:
                            if a[0] == 'reg' and e[2][a[1]] == a[1] and a[1] in e[1]:
                                # registered component was a root that received (= dispatched) this event
                                if top_of(e[2], e[1][0]) == a[1]:
                                    return 'C07-register-flushing-root'
        return None

    def nontrivial(self, case, obs):
        if isinstance(obs, dict) and '__crash__' in obs:
            return False
        prev = obs['init']
        for op, s in zip(obs['hist'], obs['snaps']):
            if any(prev[c][0] != c and s[c][0] == c for c in range(obs['n'])):
                return True
            if op[0] == 'reg' and (prev[op[1]][4] > 0 or prev[op[1]][2]):
                return True
            prev = s
        return False

    def search(self, rng, tier):
        return self.generate(rng, 3000, 'thorough')


if __name__ == '__main__':
    sys.exit(common.main(C07()))
