#!/bin/bash
# integrate.sh Cxx : after its fixes are committed in /repo and ./check Cxx passes: claim it
set -e
cd "$(dirname "$0")/.."
id="$1"
./check "$id" > build/integrate_$id.log 2>&1 || { tail -5 build/integrate_$id.log; echo "check fails - not integrated"; exit 1; }
tail -1 build/integrate_$id.log
grep -q "^$id\$" <(tr ' ' '\n' < harness/integrated.txt) || echo "$(cat harness/integrated.txt) $id" | tr ' ' '\n' | sort | tr '\n' ' ' > harness/integrated.tmp && [ -f harness/integrated.tmp ] && mv harness/integrated.tmp harness/integrated.txt
/venv/bin/python harness/merge_findings.py
/venv/bin/python harness/mkmanifest.py
python3-vt - <<PY
import json,jsonschema
jsonschema.validate(json.load(open('MANIFEST.json')), json.load(open('/root/.vp/MANIFEST.schema.json')))
jsonschema.validate(json.load(open('evidence/$id.json')), json.load(open('/root/.vp/EVIDENCE.schema.json')))
print('schemas ok')
PY
# stage only this property's files (other builders may be mid-edit in the same tree)
files=$(/venv/bin/python - "$id" <<'PY'
import sys, importlib, os, glob
sys.path.insert(0, 'harness')
import common
pid = sys.argv[1]
mod = importlib.import_module(pid.lower())
prop = [v for v in vars(mod).values() if isinstance(v, type) and issubclass(v, common.Prop) and v is not common.Prop][0]()
vs = common._closure([prop.props_file] + [m.replace('.', '/') + '.v' for m in prop.imports])
out = ['coq/theories/' + v for v in vs]
out += ['harness/%s.py' % pid.lower(), 'harness/claims/%s.json' % pid, 'findings.d/%s.json' % pid, 'notes/%s.md' % pid,
        'evidence/%s.json' % pid, 'MANIFEST.json', 'known_findings.json', 'harness/integrated.txt']
out += glob.glob('corpus/%s/*' % pid) + glob.glob('fixes/%s_*' % pid)
print(' '.join(f for f in out if os.path.exists(f)))
PY
)
git add $files >/dev/null 2>&1
git commit -qm "Integrate $id" -- $files >/dev/null 2>&1 && echo "integrated $id" || echo "nothing new to commit for $id"
