#!/bin/bash
# integrate.sh Cxx : after its fixes are committed in /repo and ./check Cxx passes: claim it
set -e
cd "$(dirname "$0")/.."
id="$1"
./check "$id" > build/integrate_$id.log 2>&1 || { tail -5 build/integrate_$id.log; echo "check fails - not integrated"; exit 1; }
tail -1 build/integrate_$id.log
grep -q "^$id\$" <(tr ' ' '\n' < harness/integrated.txt) || echo "$(cat harness/integrated.txt) $id" | tr ' ' '\n' | sort | tr '\n' ' ' > harness/integrated.tmp && [ -f harness/integrated.tmp ] && mv harness/integrated.tmp harness/integrated.txt
/venv/bin/python harness/merge_findings.py
/venv/bin/python harness/mkmanifest.py
python3-vt - <<PY
import json,jsonschema
jsonschema.validate(json.load(open('MANIFEST.json')), json.load(open('/root/.vp/MANIFEST.schema.json')))
jsonschema.validate(json.load(open('evidence/$id.json')), json.load(open('/root/.vp/EVIDENCE.schema.json')))
print('schemas ok')
PY
git add -A . >/dev/null 2>&1
git commit -qm "Integrate $id" && echo "integrated $id"
