"""Fold notes/Cxx.md (what was actually built per property) into DESIGN.md between the AS-BUILT markers."""
import os, re
V = os.path.dirname(os.path.dirname(os.path.abspath(__file__)))
p = os.path.join(V, 'DESIGN.md')
s = open(p).read()
B, E = '<!-- AS-BUILT BEGIN -->', '<!-- AS-BUILT END -->'
body = []
for f in sorted(os.listdir(os.path.join(V, 'notes'))):
    if f.endswith('.md'):
        body.append(open(os.path.join(V, 'notes', f)).read().strip())
block = B + '\n\n' + '\n\n---\n\n'.join(body) + '\n\n' + E
if B in s:
    s = s[:s.index(B)] + block + s[s.index(E) + len(E):]
else:
    s = s.rstrip() + '\n\n' + '-' * 99 + '\n\n## 11. As built: per-property notes (written by the builders of each check)\n\n' + block + '\n'
open(p, 'w').write(s)
print('folded', len(body), 'notes')
