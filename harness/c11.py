"""C11 — stream writes arrive in order, each byte once, and close waits for the buffer.

Real TCPServer / UNIXServer / TCPClient / UNIXClient / File components are driven in-process.  The OS side is
a double: a socket subclass (or an `fd_write` double for File) whose send() follows the case's outcome
script, and a poller that keeps the real BasePoller bookkeeping (addWriter / removeWriter / isWriting /
discard) but never calls select(): the driver fires `_write(sock)` exactly when the real poller would
(the endpoint has writer interest), once per `tick` op.
"""
import errno
import os
import re
import socket
import sys

sys.path.insert(0, os.path.dirname(os.path.abspath(__file__)))
import common
from common import Prop

from circuits import Component, Manager, handler
from circuits.core.pollers import BasePoller, _write as poll_write, _read as poll_read
from circuits.net import sockets as net_sockets
from circuits.net.events import write as net_write, close as net_close
from circuits.io import file as io_file
from circuits.io.events import write as io_write, close as io_close

TRANSIENT = {errno.EAGAIN, errno.EWOULDBLOCK, errno.EINTR, errno.ENOBUFS}
FATAL = [errno.EPIPE, errno.ECONNRESET, errno.ENOTCONN, errno.ETIMEDOUT, errno.EIO, errno.ENOSPC]
# the model (Model/StreamWrite.v) carries the Linux numbers
assert (errno.EINTR, errno.EAGAIN, errno.EWOULDBLOCK, errno.ENOBUFS, errno.EPIPE, errno.ENOTCONN) == (4, 11, 11, 105, 32, 107)
BIG = 10 ** 9
KINDS = ['tcpserver', 'unixserver', 'tcpclient', 'unixclient', 'file']
MIB = 1 << 20
# payloads above this size are run oracle-only (exact bytes are compared on the python side; the Coq model works on
# explicit byte lists and is compared up to ~2 MB): see notes/C11.md
MODEL_MAX_PAYLOAD = 2200000
LARGE_SIZES = [1, 4 * MIB - 1, 4 * MIB, 4 * MIB + 1, 5 * MIB + 12345, 9 * MIB]
LARGE_SCRIPTS = ['all', 'k:%d' % (MIB + 3), 'k:%d' % (4 * MIB), 'k:%d' % (4 * MIB + 1), 'eagain']
MODEL_KIND = {'tcpserver': 'Server', 'unixserver': 'Server', 'tcpclient': 'Client', 'unixclient': 'Client', 'file': 'File'}


# ----------------------------------------------------------------------------- doubles

class FakeSock(socket.socket):
    """scripted connection socket; no file descriptor behind it"""

    def __init__(self, log, name):   # noqa: deliberately no super().__init__ (would allocate a descriptor)
        self.log = log
        self.name = name
        self.outcome = None
        self.is_closed = False
        self.pending = []            # connections a listening double hands out

    def __repr__(self):
        return '<FakeSock %s>' % self.name

    def __hash__(self):
        return id(self)

    def __eq__(self, other):
        return self is other

    def __ne__(self, other):
        return self is not other

    def _do_send(self, data):
        data = bytes(data)
        if self.is_closed:
            self.log.append((self.name, 'send', data, -errno.EBADF, True))
            raise OSError(errno.EBADF, 'Bad file descriptor')
        o = self.outcome if self.outcome is not None else ['a', BIG]
        if o[0] == 'a':
            n = min(int(o[1]), len(data))
            self.log.append((self.name, 'send', data, n, False))
            return n
        self.log.append((self.name, 'send', data, -int(o[1]), False))
        raise OSError(int(o[1]), os.strerror(int(o[1])))

    def send(self, data, flags=0):
        return self._do_send(data)

    def sendall(self, data, flags=0):
        raise AssertionError('sendall on a non-blocking endpoint')

    def recv(self, n, flags=0):
        raise OSError(errno.EWOULDBLOCK, 'would block')

    def accept(self):
        if not self.pending:
            raise OSError(errno.EWOULDBLOCK, 'would block')
        s = self.pending.pop(0)
        return s, ('127.0.0.1', 40000)

    def shutdown(self, how):
        self.log.append((self.name, 'shutdown'))

    def close(self):
        if not self.is_closed:
            self.log.append((self.name, 'close'))
        self.is_closed = True

    def detach(self):
        return -1

    def fileno(self):
        # like a real socket: a descriptor number while open, -1 once closed (code under test may ask, e.g. the
        # Client's guard against writes that arrive after the disconnect)
        return -1 if self.is_closed else devnull_fd()

    def getsockname(self):
        return ('127.0.0.1', 8000)

    def getpeername(self):
        return ('127.0.0.1', 40000)

    def setblocking(self, flag):
        pass

    def settimeout(self, t):
        pass

    def setsockopt(self, *a):
        pass

    def getsockopt(self, *a):
        return 0

    def __del__(self):
        pass


_DEVNULL = None


def devnull_fd():
    global _DEVNULL
    if _DEVNULL is None:
        _DEVNULL = os.open(os.devnull, os.O_WRONLY)
    return _DEVNULL


class FakeFile:
    """file object double: a real descriptor number (of /dev/null, never written to: fd_write is a double)"""
    mode = 'wb'
    name = '<c11-double>'
    encoding = 'utf-8'

    def __init__(self, log, name):
        self.log = log
        self.tag = name
        self.closed = False
        self.outcome = None

    def fileno(self):
        if self.closed:
            raise ValueError('I/O operation on closed file')
        return devnull_fd()

    def close(self):
        if not self.closed:
            self.log.append((self.tag, 'close'))
        self.closed = True

    @property
    def is_closed(self):
        return self.closed

    def seek(self, *a):
        pass


class ScriptPoller(BasePoller):
    """the real BasePoller bookkeeping; readiness is decided by the driver, not by select()"""
    channel = 'c11poller'

    def _generate_events(self, event):
        return None


class Probe(Component):
    channel = '*'

    def init(self, log):
        self.log = log

    @handler('error', 'disconnect', 'disconnected', 'closed', 'exception', channel='*', priority=100)
    def _on_any(self, event, *args, **kwargs):
        self.log.append(('event', event.name, args))



def _attr(obj, name, default=None):
    return getattr(obj, name, default)


class Rig:
    """one endpoint (for servers: with 1 or 2 accepted connections) ready to be driven"""

    def __init__(self, kind, nconn):
        self.kind = kind
        self.log = []
        self.m = Manager()
        self.poller = ScriptPoller().register(self.m)
        self.probe = Probe(self.log).register(self.m)
        self.conns = []
        self._patched = None
        if kind in ('tcpserver', 'unixserver'):
            self.listen = FakeSock(self.log, 'listen')
            cls = net_sockets.TCPServer if kind == 'tcpserver' else net_sockets.UNIXServer
            self.ep = cls(self.listen, channel='ep').register(self.m)
            self.drain()
            for i in range(nconn):
                s = FakeSock(self.log, i)
                self.listen.pending.append(s)
                self.m.fire(poll_read(self.listen), 'ep')
                self.drain()
                if s not in _attr(self.ep, '_clients', [s]):
                    raise RuntimeError('rig: connection was not accepted')
                self.conns.append(s)
        elif kind in ('tcpclient', 'unixclient'):
            s = FakeSock(self.log, 0)
            cls = net_sockets.TCPClient if kind == 'tcpclient' else net_sockets.UNIXClient
            self.ep = cls(s, channel='ep')
            self.ep._connected = True          # what Pipe() does for a connected socket pair
            self.ep.register(self.m)
            self.drain()
            self.conns.append(s)
        elif kind == 'file':
            f = FakeFile(self.log, 0)
            self._patched = io_file.fd_write
            rig = self

            def fd_write(fd, data):
                data = bytes(data)
                f = rig.conns[0]          # the file object currently behind the File component (see op 'o')
                o = f.outcome if f.outcome is not None else ['a', BIG]
                if f.closed:
                    rig.log.append((0, 'send', data, -errno.EBADF, True))
                    raise OSError(errno.EBADF, 'Bad file descriptor')
                if o[0] == 'a':
                    n = min(int(o[1]), len(data))
                    rig.log.append((0, 'send', data, n, False))
                    return n
                rig.log.append((0, 'send', data, -int(o[1]), False))
                raise OSError(int(o[1]), os.strerror(int(o[1])))
            io_file.fd_write = fd_write
            self.ep = io_file.File(f, channel='ep').register(self.m)
            self.drain()
            self.conns.append(f)
        else:
            raise ValueError(kind)
        del self.log[:]

    def drain(self):
        for _ in range(200):
            self.m.tick(0)
            if not len(self.m) and not common.get_tasks(self.m, None):
                return
        raise RuntimeError('rig: event queue does not drain')

    def target(self, s):
        return self.poller.getTarget(s)

    def op(self, o, conn):
        s = self.conns[conn]
        k = o[0]
        server = self.kind.endswith('server')
        if k in ('w', 's'):
            data = op_object(o)
            if k == 's' and self.kind != 'file':
                raise ValueError('text payloads exist for File only')
            if server:
                self.m.fire(net_write(s, data), 'ep')
            elif self.kind == 'file':
                self.m.fire(io_write(data), 'ep')
            else:
                self.m.fire(net_write(data), 'ep')
        elif k == 'c':
            if server:
                self.m.fire(net_close(s), 'ep')
            elif self.kind == 'file':
                self.m.fire(io_close(), 'ep')
            else:
                self.m.fire(net_close(), 'ep')
        elif k == 'C':      # server: close() without argument = listening socket and every connection
            self.m.fire(net_close(), 'ep')
        elif k == 't':
            if self.poller.isWriting(s):
                s.outcome = o[1]
                self.m.fire(poll_write(s), self.target(s))
        elif k == 'o':      # File only: open another file object on the same component (File._on_open takes one)
            if self.kind != 'file':
                raise ValueError('re-open exists for File only')
            self.generation = getattr(self, 'generation', 0) + 1
            self.conns[0] = FakeFile(self.log, 0)
            self.m.fire(io_file._open(self.conns[0]), 'ep')
        else:
            raise ValueError(k)
        self.drain()
        s.outcome = None

    # ---- the adapter to the internal tables the property anchors name (degrades to None on a rename)
    def internals(self, conn):
        s = self.conns[conn]
        try:
            if self.kind.endswith('server'):
                bufs = self.ep._buffers
                buf = list(bufs[s]) if s in bufs else []
                return [b''.join(bytes(x) for x in buf), s in self.ep._closeq]
            enc = getattr(self.ep, '_encoding', None) or 'utf-8'
            return [b''.join(x.encode(enc) if isinstance(x, str) else bytes(x) for x in self.ep._buffer),
                    bool(self.ep._closeflag)]
        except Exception:
            return None

    def teardown(self):
        if self._patched is not None:
            io_file.fd_write = self._patched
        for fd in (_attr(self.poller, '_ctrl_recv'), _attr(self.poller, '_ctrl_send')):
            if isinstance(fd, int):
                try:
                    os.close(fd)
                except OSError:
                    pass
            elif fd is not None:
                try:
                    fd.close()
                except Exception:
                    pass


# ----------------------------------------------------------------------------- payloads

def payload_bytes(p):
    """payload spec: list of [byte, count] runs"""
    return b''.join(bytes([b]) * n for b, n in p)


def payload_len(p):
    return sum(n for _, n in p)


# write ops:  ['w', runs, conn]            bytes payload
#             ['w', runs, conn, typ]       typ in bytearray / memoryview: the same bytes in another bytes-like object
#             ['s', text, conn]            File only: a str payload; what has to reach the OS is its encoding
#                                          (File._encoding; the double's file object says utf-8)
def is_write(o):
    return o[0] in ('w', 's')


def op_bytes(o):
    """the bytes a write op asks the endpoint to hand to the OS"""
    return o[1].encode('utf-8') if o[0] == 's' else payload_bytes(o[1])


def op_type(o):
    return 'str' if o[0] == 's' else (o[3] if len(o) > 3 and o[3] else 'bytes')


def op_object(o):
    """the python object passed in the write event"""
    if o[0] == 's':
        return o[1]
    b = payload_bytes(o[1])
    t = op_type(o)
    return bytearray(b) if t == 'bytearray' else memoryview(b) if t == 'memoryview' else b


_RUN = re.compile(rb'(.)\1*', re.S)


_NOT = {}


def _not_byte(b):
    r = _NOT.get(b)
    if r is None:
        r = _NOT[b] = re.compile(b'[^' + re.escape(bytes([b])) + b']', re.S)
    return r


def rle_fast(data):
    """run-length encoding; long inputs (few long runs by construction) are cut run by run at C speed"""
    data = bytes(data)
    if len(data) < 2048:
        return [[m.group(1)[0], m.end() - m.start()] for m in _RUN.finditer(data)]
    out, pos, n = [], 0, len(data)
    while pos < n:
        b = data[pos]
        m = _not_byte(b).search(data, pos)      # first position holding another byte: a scan, no copy
        end = m.start() if m else n
        out.append([b, end - pos])
        pos = end
    return out


DISC_EVENT = {'tcpserver': 'disconnect', 'unixserver': 'disconnect', 'tcpclient': 'disconnected',
              'unixclient': 'disconnected', 'file': 'closed'}


def op_conns(o, nconn, server):
    """connections an op addresses"""
    if o[0] == 'C':
        return list(range(nconn))
    if o[0] == 'o':
        return [0]
    return [o[2] if (server and len(o) > 2 and o[2] is not None) else 0]


def run_case(c):
    """-> observation: per op and addressed connection, what happened at the OS boundary, which events were
    delivered, and the endpoint's state afterwards"""
    kind = c['kind']
    server = kind.endswith('server')
    nconn = c.get('nconn', 1) if server else 1
    rig = Rig(kind, nconn)
    try:
        recs = []
        for idx, o in enumerate(c['ops']):
            conns = op_conns(o, nconn, server)
            was_closed = {i: bool(rig.conns[i].is_closed) for i in range(nconn)}
            start = len(rig.log)
            rig.op(o, conns[0])
            entries = rig.log[start:]
            for conn in conns:
                s = rig.conns[conn]
                rec = {'op': idx, 'conn': conn, 'sends': [], 'sockclose': False, 'shutdown': False, 'error': False,
                       'disc': False, 'exc': False, 'other': [], 'was_closed': was_closed[conn]}
                for e in entries:
                    if e[0] == 'event':
                        name, args = e[1], e[2]
                        if name == 'exception':
                            rec['exc'] = True
                        elif server:
                            if name == 'closed':
                                continue
                            who = args[0] if args else None
                            if who is s:
                                rec['error' if name == 'error' else 'disc'] = True
                            elif who is rig.listen or any(who is rig.conns[j] for j in conns):
                                pass
                            else:
                                rec['other'].append('event %s for another connection' % name)
                        elif name == 'error':
                            rec['error'] = True
                        elif name == DISC_EVENT[kind]:
                            rec['disc'] = True
                    elif e[0] == conn:
                        if e[1] == 'send':
                            rec['sends'].append([rle_fast(e[2]), e[3], e[4]])
                        elif e[1] == 'close':
                            rec['sockclose'] = True
                        elif e[1] == 'shutdown':
                            rec['shutdown'] = True
                    elif e[0] == 'listen' or e[0] in conns:
                        pass
                    else:
                        rec['other'].append('%s on connection %r' % (e[1], e[0]))
                rec['closed'] = bool(s.is_closed)
                rec['writing'] = bool(rig.poller.isWriting(s))
                it = rig.internals(conn)
                if it is None:
                    rec['int'] = None
                elif len(it[0]) > MODEL_MAX_PAYLOAD:      # only its length is looked at: keep a one-run summary
                    rec['int'] = [[[it[0][0], len(it[0])]], bool(it[1])]
                else:
                    rec['int'] = [rle_fast(it[0]), bool(it[1])]
                recs.append(rec)
        return {'recs': recs}
    finally:
        rig.teardown()


# ----------------------------------------------------------------------------- the check

def coq_runs(p):
    return '(pl [%s]%%N)' % ';'.join('%d' % (256 * n + b) for b, n in p)


def pack(runs):
    return [256 * n + b for b, n in runs]


def coq_op(o):
    if is_write(o):      # a File str payload is, for the model, its encoded byte string
        return 'Write %s' % coq_runs(o[1] if o[0] == 'w' else rle_fast(op_bytes(o)))
    if o[0] in ('c', 'C'):
        return 'Close'
    oc = o[1]
    if oc[0] == 'a':
        return 'full' if oc[1] == BIG else 'Tick (Accept %d%%N)' % oc[1]
    return 'Tick (Refuse %d%%N)' % oc[1]


def is_full_tick(o):
    return o[0] == 't' and o[1][0] == 'a' and o[1][1] >= BIG


class C11(Prop):
    id = 'C11'
    props_file = 'Props/C11.v'
    imports = ['Model.StreamWrite', 'Model.StreamWriteObs']
    quick_n = 450
    thorough_n = 5000
    rule = ('[payloads > 2.2 MB (4 MiB-1 .. 9 MiB; accept-all / k bytes per call / EAGAIN-then-all) are run oracle-only with exact byte '
            'comparison; everything else is also compared with the Coq model] '
            'real TCPServer/UNIXServer (1 or 2 accepted connections, interleaved), TCPClient/UNIXClient and File '
            'components driven in-process with a scripted send()/fd_write double and the real BasePoller bookkeeping; '
            'ops = write payload (empty ... multi-megabyte, distinct bytes) / close (also server-wide close) / writability '
            'tick with outcome accept-k | EAGAIN,EINTR,ENOBUFS | EPIPE,ECONNRESET,ENOTCONN,ETIMEDOUT,EIO,ENOSPC, close at a '
            'random position (also none, also twice), writes and ticks after the close. non-trivial = at least one write and '
            'a refusal, a partial accept, or a close requested while data is buffered')
    trusted_base = ['hand-written model Model/StreamWrite.v (policy `fixed`) tied to the code by this correspondence run',
                    'doubles in harness/c11.py: FakeSock.send / fd_write follow the script and refuse with EBADF once the '
                    'descriptor was closed; ScriptPoller = real BasePoller bookkeeping, readiness decided by the driver '
                    '(`_write` fired iff isWriting), one `_write` per tick',
                    'python oracle in harness/c11.py']
    assumptions = ['errno numbers are the Linux ones (EINTR 4, EAGAIN=EWOULDBLOCK 11, EPIPE 32, ENOBUFS 105, ENOTCONN 107); asserted at import',
                   'the poller delivers `_write(sock)` only for descriptors with writer interest (C10) and the kernel refuses writes to a closed descriptor',
                   'TLS write path (SSLWantWriteError/SSLWantReadError instead of EAGAIN), UDP endpoints, File encodings other than UTF-8 are not modelled',
                   'accept() never hands out the same socket object twice (NoDup hypothesis of the server theorems)',
                   're-opening a File on another file object is outside the model (judged by the oracle only); '
                   'open finding C11-file-late-write until fixes/C11_file_late_write.patch is applied']

    def __init__(self):
        self.stats = {'kinds': {}, 'ops': {}, 'outcomes': {}, 'payload_sizes': {}, 'payload_types': {}, 'close_positions': {},
                      'fatal_cases': 0, 'two_conn_cases': 0, 'max_payload': 0, 'reopen_cases': 0,
                      'observed': {}}

    # ---- generator
    def _payload(self, rng, ctr, big=False):
        r = rng.random()
        if big:
            n1 = rng.randint(300000, 1100000)
            n2 = rng.randint(1, 400000)
            ctr[0] += 2
            return [[(ctr[0]) % 251, n1], [(ctr[0] + 1) % 251, n2]]
        if r < 0.12:
            return []
        if r < 0.75:
            n = rng.randint(1, 6)
            out = []
            for _ in range(n):
                ctr[0] += 1
                out.append([ctr[0] % 251, 1])
            return out
        if r < 0.97 or not self._large:
            out = []
            for _ in range(rng.randint(1, 3)):
                ctr[0] += 1
                out.append([ctr[0] % 251, rng.choice([1, 2, 7, 100, 1000, 4095, 4096, 4097])])
            return out
        ctr[0] += 1
        return [[ctr[0] % 251, rng.choice([8192, 65536, 100000])]]

    TEXT = ['a', 'b', 'z', '0', '\u00e9', '\u00df', '\u0416', '\u20ac', '\u4e2d', '\u2603', '\U0001f600', '\U0001d11e']

    def _text(self, rng):
        r = rng.random()
        if r < 0.08:
            return ''
        if r < 0.2:      # ASCII only
            return ''.join(rng.choice('abcxyz019 ') for _ in range(rng.randint(1, 8)))
        if r < 0.9:
            return ''.join(rng.choice(self.TEXT) for _ in range(rng.randint(1, 7)))
        unit = ''.join(rng.choice(self.TEXT[4:]) for _ in range(rng.randint(1, 3)))
        return unit * rng.choice([50, 700, 1366, 2000])

    def _write_op(self, rng, ctr, conn, kind, big=False):
        if kind == 'file' and not big and rng.random() < self._text_share:
            return ['s', self._text(rng), conn]
        o = ['w', self._payload(rng, ctr, big), conn]
        if not big and rng.random() < 0.08:
            o.append(rng.choice(['bytearray', 'memoryview']))
        return o

    def _stream(self, rng, ctr, conn, big=False, kind=None):
        """ops of one connection"""
        nw = rng.choice([0, 1, 1, 2, 2, 3, 3, 4, 5, 6]) if not big else rng.randint(1, 2)
        self._text_share = rng.choice([0.0, 0.5, 1.0])
        wops = [self._write_op(rng, ctr, conn, kind, big and i == 0) for i in range(nw)]
        lens = [len(op_bytes(o)) for o in wops] or [1]
        cuts = []      # byte offsets just before / inside / just after the multi-byte characters of text payloads
        for o in wops:
            if o[0] == 's':
                off = 0
                for ch in o[1][:40]:
                    n = len(ch.encode('utf-8'))
                    if n > 1:
                        cuts += [off, off + 1, off + n - 1, off + n]
                    off += n
        faulty = rng.random() < 0.75
        fatal = rng.random() < 0.5

        def outcome():
            r = rng.random()
            if not faulty or r < 0.35:
                return ['a', BIG]
            if cuts and r < 0.6:
                return ['a', rng.choice(cuts)]
            if r < 0.75:
                L = rng.choice(lens)
                return ['a', max(0, rng.choice([0, 1, L - 1, L, L + 1, L // 2, rng.randint(0, L + 1)]))]
            if fatal and r > 0.84:
                return ['e', rng.choice(FATAL)]
            return ['e', rng.choice([errno.EAGAIN, errno.EWOULDBLOCK, errno.EINTR, errno.ENOBUFS])]

        def hard_outcome():      # for the ticks that follow a close requested while data is buffered
            r = rng.random()
            if r < 0.45:
                return ['e', rng.choice([errno.EAGAIN, errno.EWOULDBLOCK, errno.EINTR, errno.ENOBUFS])]
            if r < 0.75:
                L = rng.choice(lens)
                return ['a', rng.choice(cuts) if cuts and rng.random() < 0.5 else
                        max(0, rng.choice([0, 1, L - 1, L // 2, rng.randint(0, L)]))]
            if fatal and r < 0.87:
                return ['e', rng.choice(FATAL)]
            return ['a', BIG]

        if wops and not big and rng.random() < 0.3:
            # combination stream: writes back to back, close requested while they are buffered, then refusals,
            # partial accepts (and possibly a fatal error) while the close is pending, possibly one more write
            ops = []
            for o in wops:
                if rng.random() < 0.2:
                    ops.append(['t', hard_outcome(), conn])
                ops.append(o)
            ops.append(['c', None, conn])
            for _ in range(rng.randint(2, 5)):
                ops.append(['t', hard_outcome(), conn])
            if rng.random() < 0.35:
                ops.insert(rng.randint(len(wops) + 1, len(ops)), self._write_op(rng, ctr, conn, kind))
            if rng.random() < 0.3:
                ops.insert(rng.randint(len(wops) + 1, len(ops)), ['c', None, conn])
            if rng.random() < 0.8:
                nwr = len([o for o in ops if is_write(o)])
                ops += [['t', ['a', BIG], conn] for _ in range(nwr + 1)]
            return ops

        ops = []
        for o in wops:
            for _ in range(rng.choice([0, 0, 0, 1, 1, 2, 3] if not big else [0, 1, 2])):
                ops.append(['t', outcome(), conn])
            ops.append(o)
        for _ in range(rng.choice([0, 1, 2, 3, 5] if not big else [1, 2, 3])):
            ops.append(['t', outcome(), conn])
        # close request(s) at random positions
        r = rng.random()
        ncl = 0 if r < 0.25 else (1 if r < 0.9 else 2)
        for _ in range(ncl):
            ops.insert(rng.randint(0, len(ops)), ['c', None, conn])
        # late writes / ticks
        if rng.random() < 0.3:
            ops.append(self._write_op(rng, ctr, conn, kind))
            ops.append(['t', outcome(), conn])
        if rng.random() < 0.8:
            nwr = len([o for o in ops if is_write(o)])
            ops += [['t', ['a', BIG], conn] for _ in range(nwr + 1)]
        return ops

    def generate(self, rng, n, tier):
        cases = []
        nbig = 1 if tier == 'quick' else 12
        self._large = True
        for i in range(n):
            kind = KINDS[i % len(KINDS)] if i < 10 else rng.choice(KINDS)
            ctr = [rng.randint(0, 250)]
            server = kind.endswith('server')
            big = i < nbig
            if big:
                kind = ['tcpclient', 'file', 'tcpserver', 'unixclient'][i % 4]
                server = kind.endswith('server')
            if server and not big and rng.random() < 0.4:
                a, b = self._stream(rng, ctr, 0, False, kind), self._stream(rng, ctr, 1, False, kind)
                ops = []
                while a or b:
                    src = a if (a and (not b or rng.random() < 0.5)) else b
                    ops.append(src.pop(0))
                nconn = 2
            else:
                ops = self._stream(rng, ctr, 0, big, kind)
                nconn = 1
            if server and rng.random() < 0.15:
                cl = [j for j, o in enumerate(ops) if o[0] == 'c']
                if cl:
                    ops[rng.choice(cl)] = ['C', None, None]
            if kind == 'file' and not big and rng.random() < 0.08:
                # close for sure (drain, then close), operations on the closed File, another file object, a new stream
                nwr = len([o for o in ops if is_write(o)])
                ops += [['t', ['a', BIG], 0] for _ in range(nwr + 1)] + [['c', None, 0]]
                for _ in range(rng.randint(1, 3)):
                    ops.append(rng.choice([self._write_op(rng, ctr, 0, kind), ['c', None, 0], ['t', ['a', BIG], 0]]))
                ops.append(['o', None, 0])
                ops += self._stream(rng, ctr, 0, False, kind)
            cases.append({'kind': kind, 'nconn': nconn, 'ops': ops})
        for i in range(6 if tier == 'quick' else 40):
            cases.append(self._large_case(rng, KINDS[i % len(KINDS)] if i < 5 else rng.choice(KINDS),
                                          rng.choice(LARGE_SIZES[1:]), rng.choice(LARGE_SCRIPTS)))
        for c in cases:
            self._count(c)
        return cases

    @staticmethod
    def large_case(kind, size, script, cutpoints, before, close_at, fills=(201, 202, 203)):
        """one multi-megabyte payload (described by fill runs, never by content) between two small marker payloads, under
        an acceptance script: 'all' (the OS takes whatever it is offered), 'k:<n>' (n bytes per send call), 'eagain'
        (one refusal, then everything)"""
        cuts = sorted(set(min(max(1, x), size) for x in cutpoints)) if size > 1 else []
        runs, prev = [], 0
        for j, x in enumerate(cuts + [size]):
            if x > prev:
                runs.append([fills[j % len(fills)], x - prev])
                prev = x
        ops = []
        if before:
            ops.append(['w', [[11, 3]], 0])
        ops.append(['w', runs, 0])
        ops.append(['w', [[12, 2], [13, 1]], 0])
        total = size + 3 + (3 if before else 0)
        nw = len(ops)
        if script == 'all':
            ticks = []
        elif script == 'eagain':
            ticks = [['t', ['e', errno.EAGAIN], 0]]
        else:
            k = int(script[2:])
            ticks = [['t', ['a', k], 0] for _ in range(total // k + nw + 1)]
        if close_at is not None:
            ticks.insert(min(close_at, len(ticks)), ['c', None, 0])
        ops += ticks
        ops += [['t', ['a', BIG], 0] for _ in range(nw + 1)]
        return {'kind': kind, 'nconn': 1, 'ops': ops}

    def _large_case(self, rng, kind, size, script):
        return self.large_case(kind, size, script, [rng.randint(1, size), rng.randint(1, size)], rng.random() < 0.5,
                               rng.choice([None, 0, 1, 3]), [rng.randint(100, 250) for _ in range(3)])

    def _count(self, c):
        st = self.stats
        st['kinds'][c['kind']] = st['kinds'].get(c['kind'], 0) + 1
        if c.get('nconn', 1) > 1:
            st['two_conn_cases'] += 1
        if any(o[0] == 'o' for o in c['ops']):
            st['reopen_cases'] += 1
        fatal = False
        nops = len(c['ops'])
        for j, o in enumerate(c['ops']):
            st['ops'][o[0]] = st['ops'].get(o[0], 0) + 1
            if o[0] == 't':
                oc = o[1]
                if oc[0] == 'a':
                    key = 'accept-all' if oc[1] >= BIG else ('accept-0' if oc[1] == 0 else 'accept-k')
                else:
                    key = errno.errorcode.get(oc[1], str(oc[1]))
                    fatal = fatal or oc[1] not in TRANSIENT
                st['outcomes'][key] = st['outcomes'].get(key, 0) + 1
            elif is_write(o):
                L = len(op_bytes(o)) if o[0] == 's' else payload_len(o[1])
                t = op_type(o)
                if t == 'str':
                    bs = op_bytes(o)
                    t = 'str-ascii' if len(bs) == len(o[1]) else 'str-multibyte'
                st['payload_types'][t] = st['payload_types'].get(t, 0) + 1
                b = '0' if L == 0 else '1-8' if L <= 8 else '9-4096' if L <= 4096 else '4097-65535' if L < 65536 else '64K-1M' if L < (1 << 20) else '1M-4M' if L < 4 * MIB else '>=4M'
                st['payload_sizes'][b] = st['payload_sizes'].get(b, 0) + 1
                st['max_payload'] = max(st['max_payload'], L)
            else:
                b = 'first' if j == 0 else 'last' if j == nops - 1 else 'middle'
                st['close_positions'][b] = st['close_positions'].get(b, 0) + 1
        if fatal:
            st['fatal_cases'] += 1

    # ---- implementation
    def impl(self, c):
        obs = run_case(c)
        # the model term has to know whether the internal tables (_buffer/_buffers, _closeflag/_closeq) could be
        # read: after a rename the observable degrades instead of raising an alarm
        if any(r['int'] is None for r in obs['recs']):
            c['_noint'] = True
        self._observe(c, obs)
        # open finding C11-file-bytes-like: while File raises on bytearray/memoryview payloads the model (which treats
        # every bytes-like payload as its bytes) is not compared on those cases
        if self._bytes_like_defect(c, obs):
            c['_nomodel'] = True
        # open finding C11-file-late-write: while a closed File keeps late payloads / close requests / writer interest
        # the model (which has the repaired behaviour: no state after the close) is not compared on those cases
        if self._late_state_defect(c, obs):
            c['_nomodel'] = True
        return obs

    @staticmethod
    def _late_state_defect(c, obs):
        if c['kind'] != 'file' or not isinstance(obs, dict) or 'recs' not in obs:
            return False
        return any(r['was_closed'] and c['ops'][r['op']][0] != 'o' and
                   (r['writing'] or r['exc'] or (r['int'] and (r['int'][0] or r['int'][1])))
                   for r in obs['recs'])

    def _observe(self, c, obs):
        """measured on the implementation's run: how often the interesting combinations really happened"""
        seen = set()
        pending = {}
        for r in obs['recs']:
            was_pending = pending.get(r['conn'], False)
            for runs, res, after in r['sends']:
                if res >= 0:
                    full = res >= sum(n for _, n in runs)
                    seen.add('send-full' if full else 'send-partial')
                    if was_pending:
                        seen.add('close-pending+' + ('full-send' if full else 'partial-send'))
                elif -res in TRANSIENT:
                    seen.add('transient-refusal')
                    if was_pending:
                        seen.add('close-pending+transient-refusal')
                else:
                    seen.add('fatal-error')
                    if was_pending:
                        seen.add('close-pending+fatal-error')
            if r['was_closed']:
                seen.add('op-after-close:' + c['ops'][r['op']][0])
            if r['sockclose'] and was_pending:
                seen.add('deferred-close-took-effect')
            pending[r['conn']] = bool(r['int'] and r['int'][1])
        ob = self.stats['observed']
        for k in seen:
            ob[k] = ob.get(k, 0) + 1

    @staticmethod
    def _bytes_like_defect(c, obs):
        if c['kind'] != 'file' or not isinstance(obs, dict) or 'recs' not in obs:
            return False
        if not any(o[0] == 'w' and op_type(o) in ('bytearray', 'memoryview') for o in c['ops']):
            return False
        return any(r['exc'] and not r['was_closed'] for r in obs['recs'])

    # ---- model
    def _conns(self, c):
        server = c['kind'].endswith('server')
        return (c.get('nconn', 1) if server else 1), server

    def model_term(self, c):
        if c.get('_nomodel'):
            return None
        if any(o[0] == 'w' and payload_len(o[1]) > MODEL_MAX_PAYLOAD for o in c['ops']):
            return None          # multi-MiB payloads: oracle only (exact bytes, python side)
        nconn, server = self._conns(c)
        parts = []
        if any(o[0] == 'o' for o in c['ops']):
            return None          # re-opening a File is outside the model; the oracle judges those cases
        withint = 'false' if c.get('_noint') else 'true'
        if server:
            # the Server with its tables (_clients, _buffers, _closeq, poller writers): all connections in one run
            mops = []
            for o in c['ops']:
                if o[0] == 'C':
                    mops.append('CloseAll')
                else:
                    mops.append('On %d%%nat (%s)' % (op_conns(o, nconn, server)[0], coq_op(o)))
            return 'obs_mrun %s [%s]%%nat [%s]' % (withint, ';'.join(str(i) for i in range(nconn)), '; '.join(mops))
        return 'Tl [obs_run %s %s [%s]]' % (MODEL_KIND[c['kind']], withint, '; '.join(coq_op(o) for o in c['ops']))

    def obs_for_model(self, c, obs):
        if isinstance(obs, dict) and '__crash__' in obs:
            return [-999]
        nconn, server = self._conns(c)
        withint = all(r['int'] is not None for r in obs['recs'])
        out = []
        for conn in range(nconn):
            rs = []
            for r in obs['recs']:
                if r['conn'] != conn:
                    continue
                # also after the close every send call (refused ones too), event, writer interest and table entry counts
                sends = [[pack(s[0]), s[1]] for s in r['sends']]
                flags = (16 * r['sockclose'] + 8 * r['error'] + 4 * r['disc'] + 2 * r['closed'] + 1 * r['writing']
                         + (32 * r['int'][1] if withint else 0))
                rs.append([sends, flags, sum(n for _, n in r['int'][0]) if withint else 0])
            out.append(rs)
        return out

    # ---- oracle: a direct reading of the property statement on what the doubles saw
    def oracle(self, c, obs):
        if isinstance(obs, dict) and '__crash__' in obs:
            return None
        nconn, server = self._conns(c)
        for conn in range(nconn):
            w = self._oracle_conn(c, obs, conn, nconn, server)
            if w:
                return ('connection %d: ' % conn if nconn > 1 else '') + w
        return None

    def _oracle_conn(self, c, obs, conn, nconn, server):
        ops = c['ops']
        mine = [j for j, o in enumerate(ops) if conn in op_conns(o, nconn, server)]
        recs = {r['op']: r for r in obs['recs'] if r['conn'] == conn}
        for r in obs['recs']:
            if r['other']:
                return 'an operation on one connection touched another one: %s' % r['other'][0]
        # a File may be given another file object ('o'): each file object is a stream endpoint of its own, and what
        # was written while the previous one was closed must never reach the next one
        segs = [[]]
        for j in mine:
            if ops[j][0] == 'o':
                segs.append([])
            else:
                segs[-1].append(j)
        for k, seg in enumerate(segs):
            w = self._oracle_segment(ops, recs, seg)
            if w:
                return ('after re-open: ' if k else '') + w
        return None

    def _oracle_segment(self, ops, recs, mine):
        w_all = b''.join(op_bytes(ops[j]) for j in mine if is_write(ops[j]))
        acc = 0                 # number of bytes the OS accepted so far
        w_open = 0              # number of bytes written while the descriptor was open
        closed = fatal = requested = False
        for j in mine:
            o, r = ops[j], recs.get(j)
            if r is None:
                return 'no record for op %d' % j
            if r['exc'] and not closed:
                return 'op %d %s: a handler of the endpoint raised' % (j, o[0])
            if is_write(o) and not closed:
                w_open += len(op_bytes(o))
            if o[0] in ('c', 'C') and not closed:
                requested = True
            this_fatal = False
            for (runs, res, after_close) in r['sends']:
                if res >= 0:
                    if closed or after_close:
                        return 'op %d: %d bytes were written after the endpoint had closed' % (j, res)
                    data = payload_bytes(runs)[:res]
                    if w_all[acc:acc + res] != data:
                        return ('op %d: the OS was handed %r... at stream offset %d where the written data has %r... '
                                '(lost, repeated or reordered bytes)' % (j, data[:12], acc, w_all[acc:acc + 12]))
                    acc += res
                elif -res not in TRANSIENT and not (closed or after_close):
                    this_fatal = True
            if this_fatal:
                fatal = True
                if not (r['error'] or r['disc']):
                    return 'op %d: fatal send error %s was not signalled by an error or disconnect event' % (
                        j, errno.errorcode.get(-r['sends'][-1][1]))
            if r['sockclose'] and not closed:
                closed = True
                if not fatal:
                    if not requested:
                        return 'op %d: the endpoint closed although no close was requested and no fatal error occurred' % j
                    if acc != w_open:
                        return 'op %d: close took effect with %d of %d written bytes handed to the OS' % (j, acc, w_open)
        # liveness: the case ends with enough all-accepting writability events to drain any buffer
        nw = len([j for j in mine if is_write(ops[j])])
        t = 0
        for j in reversed(mine):
            if is_full_tick(ops[j]):
                t += 1
            else:
                break
        if t >= nw + 1 and not fatal:
            if acc != w_open:
                return ('%d of the %d bytes written were handed to the OS although it ended up accepting everything '
                        '(bytes lost or left in the buffer)' % (acc, w_open))
            if requested and not closed:
                return 'a requested close never took effect although the buffer drained'
        return None

    def finding_class(self, c, obs, what):
        # C11-file-bytes-like: File, a bytearray/memoryview payload, and a handler of the endpoint raised before the close
        if self._bytes_like_defect(c, obs) and 'a handler of the endpoint raised' in (what or ''):
            return 'C11-file-bytes-like'
        # C11-file-late-write: File, something was kept for the closed file, and the complaint is about what the next
        # file object was handed / did
        if self._late_state_defect(c, obs) and (what or '').startswith('after re-open: '):
            return 'C11-file-late-write'
        return None

    def nontrivial(self, c, obs):
        ops = c['ops']
        if not any(is_write(o) for o in ops):
            return False
        if any(o[0] == 't' and (o[1][0] == 'e' or o[1][1] < BIG) for o in ops):
            return True
        if isinstance(obs, dict) and 'recs' in obs:
            return any(r['int'] and r['int'][1] for r in obs['recs'])
        return False

    def search(self, rng, tier):
        return self.generate(rng, 4000, 'thorough')


if __name__ == '__main__':
    sys.exit(common.main(C11()))
