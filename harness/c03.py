"""C03 — fire() from other threads: nothing lost or duplicated, the loop always wakes.

A case = (waiter kind, plain generate_events handler yes/no, events per firing thread, a schedule).
The REAL Manager.run() runs in a real thread, N real threads call fire(); every thread is stopped
just before each access to the shared state of the wake-up protocol (data descriptors / wrappers installed
from here on Manager._currently_handling, generate_events._time_left / handler / reduce_time_left, the
root's event queue object and its deque) and before each operation on the RLock / threading.Event /
select / control pipe (scheduler-aware doubles installed as module globals), and a scheduler in the
checking thread decides which thread performs its next step.  Nothing depends on source lines.  The sequence of visible steps is replayed by Model/Wake.v (`accepts`), the oracle
looks for a lost wake-up (loop parked in its idle wait, a returned fire()'s event still queued, no
thread enabled) and checks exactly-once / per-thread order on the handler log.
"""
import sys, os
sys.path.insert(0, os.path.dirname(os.path.abspath(__file__)))
import inspect
import re
import threading
import types
import select as real_select
import os as real_os

import common
from common import Prop

import circuits.core.manager as cmanager
import circuits.core.helpers as chelpers
import circuits.core.pollers as cpollers
import circuits.core.events as cevents
from circuits import BaseComponent, Event, handler

REAL_RLOCK = threading.RLock
REAL_EVENT = threading.Event
MAX_STEPS = 6000

CUR = None      # the scheduler of the case being run (None: everything behaves like the real primitives)


class AnchorMissing(Exception):
    pass


# ------------------------------------------------------------------------------------------- scheduler

class Ctl:
    def __init__(self, idx):
        self.idx = idx
        self.sem = threading.Semaphore(0)
        self.enabled = None
        self.kind = 'line'
        self.done = False
        self.forced = False
        self.fire_returned = 0     # number of fire() calls that have returned (firing threads)
        self.vis = 0               # visible actions emitted so far
        self.in_reduce, self.red_tl, self.red_hd = False, 0, 0
        self.in_disp = self.in_qlen = self.locks = 0
        self.len_quiet = False
        self.in_qapp, self.qapp_last, self.qapp_counted = False, None, False
        self.in_maint = False


class Sched:
    def __init__(self):
        self.ctl = {}               # thread ident -> Ctl
        self.byidx = {}
        self.main = threading.Semaphore(0)
        self.free = False
        self.trace = []
        self.tsteps = []            # scheduler step count at each visible action
        self.log = []               # handler log: [t, k] in invocation order
        self.nsteps = 0
        self.gcount = 0
        self.errors = []
        self.degraded = []          # observables the harness could not obtain (never a violation)
        self.gens = []

    def me(self):
        if self.free:
            return None
        return self.ctl.get(threading.get_ident())

    def park(self, kind='line', enabled=None):
        """called by a controlled thread before its next step; returns False in free mode"""
        c = self.me()
        if c is None:
            return False
        c.kind, c.enabled = kind, enabled
        self.main.release()
        c.sem.acquire()
        c.enabled = None
        if self.free:
            return False
        return True

    def emit(self, lab):
        c = self.ctl.get(threading.get_ident())
        if c is not None and not self.free:
            c.vis += 1
            self.trace.append([c.idx, lab])
            self.tsteps.append(self.nsteps)

    def release_all(self):
        self.free = True
        for c in self.ctl.values():
            c.sem.release()


# ------------------------------------------------------------------------------------------- doubles

class SLock:
    """stands in for threading.RLock (module global circuits.core.manager.RLock)"""

    def __init__(self):
        self._mx = threading.Condition(threading.Lock())
        self.owner = None
        self.depth = 0

    def _free_for(self, ident):
        return self.owner is None or self.owner == ident

    def acquire(self, blocking=True, timeout=-1):
        ident = threading.get_ident()
        s = CUR
        if s is not None and s.park('acq', lambda: self._free_for(ident)):
            s.emit(['Acq'])
        with self._mx:
            while not self._free_for(ident):
                self._mx.wait(0.05)
            self.owner = ident
            self.depth += 1
        c = s.ctl.get(ident) if s is not None else None
        if c is not None:
            c.locks += 1
        return True

    def release(self):
        s = CUR
        if s is not None and s.park('rel'):
            s.emit(['Rel'])
        with self._mx:
            if self.owner != threading.get_ident():
                raise RuntimeError('cannot release un-acquired lock')
            self.depth -= 1
            if self.depth == 0:
                self.owner = None
                self._mx.notify_all()
        c = s.ctl.get(threading.get_ident()) if s is not None else None
        if c is not None:
            c.locks -= 1

    __enter__ = acquire

    def __exit__(self, *a):
        self.release()


class SEvent:
    """stands in for threading.Event (module global circuits.core.helpers.Event)"""

    def __init__(self):
        self._cv = threading.Condition(threading.Lock())
        self._flag = False
        s = CUR
        if s is not None:
            s.flags.append(self)

    def is_set(self):
        return self._flag

    def set(self):
        s = CUR
        if s is not None and s.park('set'):
            s.emit(['Sig'])
        with self._cv:
            self._flag = True
            self._cv.notify_all()

    def clear(self):
        s = CUR
        if s is not None and s.park('clear'):
            s.emit(['Clear'])
        with self._cv:
            self._flag = False

    def wait(self, timeout=None):
        s = CUR
        if s is not None:
            c = s.me()
            if c is not None:
                c.wait_timeout = timeout
            if s.park('wait', lambda: self._flag or timeout == 0):
                # scheduled although not signalled = the scheduler lets the timeout expire
                w = self._flag
                s.emit(['Wait', 1 if w else 0])
                return w
        # free mode: never really sleep long, the case is over
        with self._cv:
            n = 0
            while not self._flag and n < 200 and (CUR is None or not CUR.abort):
                self._cv.wait(0.01)
                n += 1
            return self._flag


class FakeOS:
    """circuits.core.pollers.os: reports reads/writes of the control pipe to the scheduler"""

    def __getattr__(self, name):
        return getattr(real_os, name)

    def pipe(self):
        pr = real_os.pipe()
        PIPES.append(pr)
        return pr

    def write(self, fd, data):
        s = CUR
        if s is not None and s.park('pipewrite'):
            s.emit(['Sig'])
        return real_os.write(fd, data)

    def read(self, fd, n):
        s = CUR
        if s is not None and s.park('piperead'):
            s.emit(['PipeRd'])
        return real_os.read(fd, n)


def _timeout_kind(t):
    return 'none' if t is None or t < 0 else ('zero' if t == 0 else 'pos')


def _ctrl_fd():
    """read end of the control pipe of the poller of the running case (created through the os double)"""
    return PIPES[-1][0] if PIPES else None


def _fileno(x):
    try:
        return x if isinstance(x, int) else x.fileno()
    except Exception:
        return None


def _safe(pred):
    """an enabledness predicate evaluated by the scheduler must not raise: a call that would fail returns at once"""
    def p():
        try:
            return pred()
        except Exception:
            return True
    return p


class FakePollObj:
    def __init__(self, real, is_epoll):
        self._real = real
        self._is_epoll = is_epoll
        self._registered = set()

    def __getattr__(self, name):
        return getattr(self._real, name)

    def register(self, fd, *a):
        self._registered.add(_fileno(fd))
        return self._real.register(fd, *a)

    def unregister(self, fd):
        self._registered.discard(_fileno(fd))
        return self._real.unregister(fd)

    def poll(self, timeout=None):
        s = CUR
        if s is not None:
            c = s.me()
            if c is not None:
                c.wait_timeout = timeout
            if s.park('select', _safe(lambda: bool(self._real.poll(0)) or _timeout_kind(timeout) == 'zero')):
                r = self._real.poll(0)
                ctrl = _ctrl_fd()
                s.emit(['Select', 1 if ctrl in self._registered else 0, 1 if any(f == ctrl for f, _ in r) else 0])
                return r
            if s.abort:
                return self._real.poll(0)
            return self._real.poll(50)
        if timeout is None:
            return self._real.poll()
        return self._real.poll(timeout)


class FakeSelect:
    """circuits.core.pollers.select (the module): select/poll/epoll report to the scheduler"""

    def __getattr__(self, name):
        return getattr(real_select, name)

    def select(self, r, w, x, timeout=None):
        s = CUR
        if s is not None:
            c = s.me()
            if c is not None and c.in_maint:
                return real_select.select(r, w, x, 0)      # probes of the descriptor maintenance: not a wait
            if c is not None:
                c.wait_timeout = timeout

            def ready():
                a, b, _ = real_select.select(r, w, x, 0)
                return bool(a or b) or _timeout_kind(timeout) == 'zero'
            if s.park('select', _safe(ready)):
                ctrl = _ctrl_fd()
                try:
                    res = real_select.select(r, w, x, 0)
                except Exception:
                    # a registered descriptor went stale: the caller weeds out its lists (until it is done handling)
                    s.emit(['Preen'])
                    c.in_maint = True
                    raise
                s.emit(['Select', 1 if any(_fileno(f) == ctrl for f in r) else 0,
                        1 if any(_fileno(f) == ctrl for f in res[0]) else 0])
                return res
            return real_select.select(r, w, x, 0 if s.abort else 0.05)
        if timeout is None:
            return real_select.select(r, w, x)
        return real_select.select(r, w, x, timeout)

    def poll(self):
        return FakePollObj(real_select.poll(), False)

    def epoll(self, *a, **kw):
        return FakePollObj(real_select.epoll(*a, **kw), True)


# ------------------------------------------------------------------------------------------- access hooks
#
# Visible actions are derived from the shared-state ACCESSES themselves, not from source lines:
#   Manager._currently_handling                 data descriptor on the class        -> SetH / Clr / FReadH
#   generate_events._time_left, .handler        data descriptors on the class       -> RdTl / RWrite / SetHd / RHd / RGet
#   generate_events.reduce_time_left            wrapper (dynamic extent, per thread)
#   the root's event queue object (Manager()._queue): its append / __len__ / dispatchEvents are wrapped and its
#   deque is replaced by a reporting deque subclass                                  -> Count / App* / Snap / Move /
#                                                                                       ArmTest / Call
#   RLock / threading.Event / select module / os (control pipe): the doubles above   -> Acq / Rel / Sig / Clear / Wait /
#                                                                                       Select / PipeRd
# Every reporting hook parks the thread just before the access: these are the pre-emption points.
# Relied upon names: _currently_handling, _queue (of the manager), append / __len__ / dispatchEvents of the queue
# object, generate_events._time_left / handler / reduce_time_left, resume.  Not relied upon: helper functions, local
# names, line positions, the attribute holding the fallback generator's Event, the queue's private attributes.

import collections

MISSING = []
_INSTALLED = False
CALIB = None            # counting mode used once by install(): number of reads of .handler on the resume path
HD_READS = [0]


def _sign(t):
    return 'Neg' if t < 0 else ('Zero' if t == 0 else 'Pos')


def _ev_id(s, e):
    if isinstance(e, cevents.generate_events):
        g = getattr(e, 'c03_g', None)
        if g is None:
            g = e.c03_g = s.gcount
            s.gcount += 1
            s.gens.append(e)
        return ['G', g]
    if hasattr(e, 'c03'):
        return ['F', e.c03[0], e.c03[1]]
    o = getattr(e, 'c03_o', None)
    if o is None:
        o = e.c03_o = s.ocount
        s.ocount += 1
    return ['O', o]


def _ctl():
    """(scheduler, control block) of the calling thread if it is a controlled thread of the running case"""
    s = CUR
    if s is None or s.free:
        return None, None
    c = s.ctl.get(threading.get_ident())
    if c is None:
        return None, None
    return s, c


def _visible(lab, kind='access'):
    """park just before a shared access, then record it"""
    s, c = _ctl()
    if c is None:
        return
    if s.park(kind) and lab is not None:
        s.emit(lab)


_NOVAL = object()


class Tracked:
    """data descriptor standing in for a plain attribute; the value lives in the instance (dict or the slot it wraps)"""

    def __init__(self, name, on_read, on_write, inner=None):
        self.name, self.on_read, self.on_write, self.inner = name, on_read, on_write, inner
        self.key = '_c03_' + name

    def _get(self, obj):
        if self.inner is not None:
            try:
                return self.inner.__get__(obj, type(obj))
            except AttributeError:
                return _NOVAL
        return obj.__dict__.get(self.key, _NOVAL)

    def _value(self, obj):
        v = self._get(obj)
        if v is _NOVAL:
            if self.default is _NOVAL:
                raise AttributeError(self.name)
            v = self.default
        return v

    def __get__(self, obj, typ=None):
        if obj is None:
            return self
        self.on_read(obj, self)          # may park: the value is fetched afterwards, when the thread runs again
        return self._value(obj)

    def __set__(self, obj, value):
        self.on_write(obj, self._get(obj), value)
        if self.inner is not None:
            self.inner.__set__(obj, value)
        else:
            obj.__dict__[self.key] = value

    default = _NOVAL


# ---- Manager._currently_handling
def _handling_read(obj, d):
    s, c = _ctl()
    if c is not None and c.idx != 0:
        _visible(['FReadH'])           # the loop thread's reads of its own variable are not shared accesses


def _handling_write(obj, old, v):
    s, c = _ctl()
    if c is not None:
        c.in_maint = False
    _visible(['Clr'] if v is None else ['SetH'])


# ---- generate_events._time_left / .handler, inside and outside reduce_time_left
def _tl_read(obj, d):
    global CALIB
    s, c = _ctl()
    if c is None:
        return
    if c.in_reduce:
        c.red_tl += 1
        if c.red_tl > 1:
            return                      # further reads by the lock holder cannot see another value
    _visible(['RdTl'])


def _tl_write(obj, old, v):
    if old is _NOVAL:
        return                          # construction
    _visible(['RWrite'])


def _hd_read(obj, d):
    if CALIB is not None:
        CALIB[0] += 1
        return
    s, c = _ctl()
    if c is None or not c.in_reduce:
        return
    c.red_hd += 1
    n = HD_READS[0]
    if c.red_hd == 1:
        _visible(['RHd'])
        if n == 1 and d._value(obj) is not None:
            s.emit(['RGet'])            # one read serves both tests
    elif c.red_hd == n:
        _visible(['RGet'])              # the read whose value is used to look up resume()
    else:
        _visible(None)


def _hd_write(obj, old, v):
    if v is None or not isinstance(obj, cevents.generate_events):
        return
    m = getattr(getattr(v, '__self__', None), 'resume', None)
    _visible(['SetHd', 'HWake' if inspect.ismethod(m) else 'HPlain'])


def _wrap_reduce(orig):
    def reduce_time_left(self, time_left):
        s, c = _ctl()
        if c is None:
            return orig(self, time_left)
        saved = (c.in_reduce, c.red_tl, c.red_hd)
        c.in_reduce, c.red_tl, c.red_hd = True, 0, 0
        try:
            return orig(self, time_left)
        finally:
            c.in_reduce, c.red_tl, c.red_hd = saved
    reduce_time_left.__wrapped__ = orig
    return reduce_time_left


# ---- the event queue object
def _tracking(base):
    """a subclass of deque / list standing in for the queue's container of not yet snapshotted entries: reports
    append / removal from the front / length reads; every other way of looking into it is a pre-emption point"""

    class T(base):
        def append(self, item):
            s, c = _ctl()
            if c is not None:
                try:
                    e = item[-1][0]
                    i = _ev_id(s, e)
                    if i[0] == 'G':
                        lab = ['AppG', _sign(e.__dict__['_c03_' + NAMES['tl']])]
                    else:
                        lab = ['AppF'] if i[0] == 'F' else ['AppO']
                except Exception as ex:      # entry of an unexpected shape: observation degraded, never an error
                    lab = ['AppO']
                    s.degraded.append('queue entry not understood: %s' % type(ex).__name__)
                if c.in_qapp and COUNTER[0]:
                    # same step as the preceding access of the counter; the model counts one increment per
                    # entry, before the entry appears, wherever the code stores the counter
                    if not c.qapp_counted:
                        s.emit(['Count'])
                        c.qapp_counted = True
                    s.emit(lab)
                    c.qapp_last = 'a'
                else:
                    _visible(lab)
            base.append(self, item)

        def _moved(self, k):
            """k entries leave the front for the heap: k Move actions (only the loop thread removes, the other
            threads only append at the end, so k single moves and one move of k entries are the same)"""
            s, c = _ctl()
            if c is None:
                return
            if s.park('access'):
                for _ in range(k):
                    s.emit(['Move'])

        def popleft(self):
            self._moved(1)
            return base.popleft(self)

        def pop(self, *a):
            if a and a[0] == 0:
                self._moved(1)
            else:
                _visible(None)
            return base.pop(self, *a)

        def __delitem__(self, ix):
            n = base.__len__(self)
            if isinstance(ix, slice) and ix.indices(n)[0] == 0 and ix.indices(n)[2] == 1:
                self._moved(max(0, min(n, ix.indices(n)[1])))
            elif ix == 0:
                self._moved(1)
            else:
                _visible(None)
            return base.__delitem__(self, ix)

        def __getitem__(self, ix):
            _visible(None)
            return base.__getitem__(self, ix)

        def __len__(self):
            s, c = _ctl()
            if c is not None and c.idx == 0 and not c.len_quiet:
                if c.in_qlen:
                    # total length of the queue read by the loop: the arming test reads it under the lock
                    _visible(['ArmTest'] if c.locks > 0 else None)
                elif c.in_disp:
                    _visible(['Snap'])
            return base.__len__(self)

        # other ways of taking entries out of / looking into the shared container: pre-emption points without label
        def __iter__(self):
            # iterating (list.extend(x), list(x)) is one atomic C-level operation in reality: pre-emption point
            # before it, then a snapshot, so that parks inside nested hooks (length hint) cannot tear it
            _visible(None)
            return iter(list(base.__iter__(self)))

        def clear(self):
            _visible(None)
            return base.clear(self)

    T.__name__ = 'T' + base.__name__.capitalize()
    return T


TDeque = _tracking(collections.deque)
TList = _tracking(list)


COUNTER = [None]        # name of the queue object's counter attribute, found by install()


SPLIT_RMW = [False]     # demonstration only: also pre-empt between the read and the write of `counter += 1`


def _ctr_read(obj, d):
    s, c = _ctl()
    if c is not None and c.in_qapp:
        _visible(None)                  # before every read of the shared counter: pre-emption point
        c.qapp_last = 'r'


def _ctr_write(obj, old, v):
    s, c = _ctl()
    if c is not None and c.in_qapp and old is not _NOVAL:
        # a write that directly follows a read of the counter is the store of `counter += 1` / `x = counter + 1;
        # counter = x`: one step with that read.  A write-back after something else was accessed in between
        # (e.g. after the entry has been appended) is a separate step: pre-emption point before it.
        if c.qapp_last != 'r' or SPLIT_RMW[0]:
            _visible(None)
        if not c.qapp_counted:
            s.emit(['Count'])
            c.qapp_counted = True
        c.qapp_last = 'w'


def _wrap_qappend(orig):
    def append(self, *a, **k):
        s, c = _ctl()
        if c is None:
            return orig(self, *a, **k)
        if not COUNTER[0]:
            _visible(['Count'])         # counter attribute not identified: count + append form one step
        saved = (c.in_qapp, c.qapp_last, c.qapp_counted)
        c.in_qapp, c.qapp_last, c.qapp_counted = True, None, False
        try:
            return orig(self, *a, **k)
        finally:
            c.in_qapp, c.qapp_last, c.qapp_counted = saved
    append.__wrapped__ = orig
    return append


def _wrap_qlen(orig):
    def __len__(self):
        s, c = _ctl()
        if c is None:
            return orig(self)
        c.in_qlen += 1
        try:
            return orig(self)
        finally:
            c.in_qlen -= 1
    __len__.__wrapped__ = orig
    return __len__


def _wrap_dispatch(orig):
    def dispatchEvents(self, dispatcher):
        s, c = _ctl()
        if c is None:
            return orig(self, dispatcher)

        def handed(event, *a, **k):
            c.in_disp -= 1
            try:
                _visible(['Call', _ev_id(s, event)])
                return dispatcher(event, *a, **k)
            finally:
                c.in_disp += 1
        c.in_disp += 1
        try:
            return orig(self, handed)
        finally:
            c.in_disp -= 1
    dispatchEvents.__wrapped__ = orig
    return dispatchEvents


NAMES = {'handling': '_currently_handling', 'tl': '_time_left', 'pending': None}


def _containers(q):
    return [n for n in _attr_names(q) if isinstance(getattr(q, n, None), (collections.deque, list))]


def probe_pending(Q):
    """name of the container (deque or list) of the queue class that receives a freshly appended entry"""
    q2 = Q()
    before = {n: len(getattr(q2, n)) for n in _containers(q2)}
    q2.append(Event(), ('*',), 0)
    grown = [n for n in before if len(getattr(q2, n)) == before[n] + 1]
    return grown[0] if len(grown) == 1 else None


def probe_handling(M):
    """name of the manager attribute that holds the event while its handlers run (and None afterwards)"""
    found = []
    m = M()

    class _Probe(BaseComponent):
        channel = 'c03probe'

        @handler('c03probe')
        def _on(self, event, *a):
            found.extend(k for k, v in vars(m).items() if v is event)
    _Probe().register(m)
    m.fire(Event.create('c03probe'), 'c03probe')
    for _ in range(6):
        m.flush()
    names = sorted(set(found))
    if len(names) == 1 and getattr(m, names[0], 0) is None:
        return names[0]
    return None


def probe_time_left(G):
    """name of the attribute of generate_events that stores what the public property time_left returns"""
    g = G(SLock(), 12345.5)
    names = [k for k, v in vars(g).items() if type(v) is float and v == 12345.5]
    if len(names) == 1 and g.time_left == 12345.5:
        return names[0]
    return None


def find_queue(m):
    """the event queue object of a manager: the attribute value that can append and dispatchEvents (probe by
    behaviour; the attribute name `_queue`, which the property's anchors mention, is only the fallback)"""
    cands = [v for v in list(vars(m).values())
             if callable(getattr(type(v), 'dispatchEvents', None)) and callable(getattr(type(v), 'append', None))]
    if len(cands) == 1:
        return cands[0]
    return getattr(m, '_queue', None)


def _attr_names(o):
    names = []
    for k in type(o).__mro__:
        sl = k.__dict__.get('__slots__', ())
        names += [sl] if isinstance(sl, str) else list(sl)
    return names + list(getattr(o, '__dict__', {}))


def _is_entry(x):
    return (isinstance(x, tuple) and len(x) >= 2 and isinstance(x[-1], tuple) and len(x[-1]) == 2
            and isinstance(x[-1][0], Event))


def queued_entries(q):
    """every queue entry (…, (event, channels)) held by any list / deque attribute of the queue object: heap-like
    lists first (sorted by their leading key), then deques in order"""
    lists, deques = [], []
    for n in _attr_names(q):
        v = getattr(q, n, None)
        if isinstance(v, collections.deque):
            deques += [x for x in collections.deque.__iter__(v) if _is_entry(x)]
        elif isinstance(v, list) and n == NAMES['pending']:
            deques += [x for x in list.__iter__(v) if _is_entry(x)]
        elif isinstance(v, list):
            lists += [x for x in list.__iter__(v) if _is_entry(x)]
    lists.sort(key=lambda x: tuple(x[:-1]))
    return lists + deques


PIPES = []              # control pipes created (through the os double) for the pollers of the running case


def install():
    """install the access hooks and the doubles (class attributes / module globals only; no source change)"""
    global _INSTALLED, CALIB
    if _INSTALLED:
        return
    _INSTALLED = True
    M, G = cmanager.Manager, cevents.generate_events
    # doubles
    cmanager.RLock = SLock
    chelpers.Event = SEvent
    cpollers.select = FakeSelect()
    cpollers.os = FakeOS()

    class _NoAtexit:
        @staticmethod
        def register(*a, **k):
            return None
    cmanager.atexit = _NoAtexit
    # the manager attribute publishing the event being handled (behavioural probe; the anchors' name is the fallback)
    try:
        hn = probe_handling(M)
    except Exception:
        hn = None
    if hn is None:
        hn = '_currently_handling'
        if hn not in M.__dict__:
            MISSING.append('Manager: no attribute holds the event being handled')
    NAMES['handling'] = hn
    t = Tracked(hn, _handling_read, _handling_write)
    t.default = M.__dict__.get(hn, None)
    setattr(M, hn, t)
    # generate_events: the storage behind time_left (probe), and the public attribute handler
    try:
        tn = probe_time_left(G)
    except Exception:
        tn = None
    if tn is None:
        tn = '_time_left'
        MISSING.append('generate_events: the attribute behind time_left was not identified')
    NAMES['tl'] = tn
    for name, rd, wr in ((tn, _tl_read, _tl_write), ('handler', _hd_read, _hd_write)):
        inner = G.__dict__.get(name)
        inner = inner if hasattr(inner, '__set__') and not isinstance(inner, property) else None
        setattr(G, name, Tracked(name, rd, wr, inner))
    if not callable(G.__dict__.get('reduce_time_left')):
        MISSING.append('generate_events.reduce_time_left')
    else:
        G.reduce_time_left = _wrap_reduce(G.__dict__['reduce_time_left'])
    if not isinstance(G.__dict__.get('time_left'), property):
        MISSING.append('generate_events.time_left')
    # the queue class of the root manager
    q = find_queue(M())
    if q is None:
        MISSING.append('no event queue object found on Manager()')
        return
    Q = type(q)
    for name, wrap in (('append', _wrap_qappend), ('__len__', _wrap_qlen), ('dispatchEvents', _wrap_dispatch)):
        if not callable(Q.__dict__.get(name)):
            MISSING.append('%s.%s' % (Q.__name__, name))
        else:
            setattr(Q, name, wrap(Q.__dict__[name]))
    try:
        NAMES['pending'] = probe_pending(Q)
    except Exception:
        NAMES['pending'] = None
    if NAMES['pending'] is None:
        MISSING.append('%s: the container that receives appended entries was not identified' % Q.__name__)
    else:
        # the counter that numbers the entries: the int attribute that advances by one per append
        try:
            q2 = Q()
            names = [n for n in _attr_names(q2) if type(getattr(q2, n, None)) is int]
            q2.append(Event(), ('*',), 0)
            v1 = {n: getattr(q2, n) for n in names}
            q2.append(Event(), ('*',), 0)
            cands = [n for n in names if getattr(q2, n) - v1[n] == 1]
            if len(cands) == 1:
                inner = Q.__dict__.get(cands[0])
                setattr(Q, cands[0], Tracked(cands[0], _ctr_read, _ctr_write,
                                             inner if hasattr(inner, '__set__') else None))
                COUNTER[0] = cands[0]
        except Exception:
            COUNTER[0] = None
    # calibration: how many times does reduce_time_left(0) read .handler on its way to resume()?
    class _Waiter:
        resumed = 0

        def resume(self):
            _Waiter.resumed += 1

        def on(self):
            pass
    try:
        g = G(SLock(), -1)
        g.handler = _Waiter().on
        CALIB = [0]
        g.reduce_time_left(0)
        HD_READS[0] = CALIB[0]
        CALIB = None
        if _Waiter.resumed != 1 or HD_READS[0] < 1:
            MISSING.append('reduce_time_left(0) does not reach resume() through .handler (reads=%d, resumed=%d)'
                           % (HD_READS[0], _Waiter.resumed))
    except Exception as e:
        CALIB = None
        MISSING.append('calibration of reduce_time_left failed: %r' % (e,))


def instrument_manager(m):
    """replace the deque of this manager's queue object by the reporting deque"""
    q = find_queue(m)
    n = NAMES['pending']
    if q is not None and n is not None:
        cur = getattr(q, n)
        setattr(q, n, (TDeque if isinstance(cur, collections.deque) else TList)(cur))
    if not any(isinstance(v, SLock) for v in vars(m).values()):
        if 'Manager(): no attribute holds the RLock double' not in MISSING:
            MISSING.append('Manager(): no attribute holds the RLock double')
    return q


# ------------------------------------------------------------------------------------------- one run

class ev(Event):
    """the event fired by the firing threads"""


class Sink(BaseComponent):
    channel = 'c03'

    @handler('ev')
    def _on_ev(self, event, t, k):
        s = CUR
        if s is not None and s.park('handler'):
            s.emit(['Disp', ['F', t, k]])
        if s is not None:
            s.log.append([t, k])


class Ticker(BaseComponent):
    """a generate_events handler without resume(): asks to be called again within 0.05 s (like a Timer)"""
    channel = 'c03'

    @handler('generate_events', priority=0)
    def _on_generate_events(self, event):
        event.reduce_time_left(0.05)


POLLERS = {'select': 'Select', 'poll': 'Poll', 'epoll': 'EPoll'}


def run_case(case):
    global CUR
    install()
    mode = case['mode']
    nev = case['threads']
    sch = case['sched']
    s = Sched()
    s.flags = []
    s.ocount = 0
    s.abort = False
    del PIPES[:]
    m = cmanager.Manager()
    mq = instrument_manager(m)
    Sink().register(m)
    if case.get('timer'):
        Ticker().register(m)
    poller = None
    if mode != 'fallback':
        poller = getattr(cpollers, POLLERS[mode])().register(m)
    socks = []
    hist = case.get('hist') or []
    if poller is not None and hist:
        import socket as _socket
        sink = [c for c in m.components if isinstance(c, Sink)][0]
        a, b = _socket.socketpair()          # never readable: stays registered, keeps the wait blocking
        poller.addReader(sink, a)
        socks += [a, b]
        if 'discard' in hist:                # registered and discarded properly (control)
            c1, d1 = _socket.socketpair()
            poller.addReader(sink, c1)
            poller.discard(c1)
            socks += [c1, d1]
        if 'stale' in hist:                  # closed behind the poller's back while still registered
            e1, f1 = _socket.socketpair()
            poller.addReader(sink, e1)
            e1.close()
            socks += [f1]
    for _ in range(6):
        m.flush()
    # a fresh queue object state the model starts from: nothing queued
    if mq is not None and len(mq) != 0:
        s.degraded.append('queue not empty before the run')

    def loop_body():
        c = s.ctl[threading.get_ident()]
        s.park('start')
        try:
            m.run()
        except BaseException as e:   # pragma: no cover
            s.errors.append('loop thread raised %s: %s' % (type(e).__name__, e))
        c.done = True
        s.main.release()

    def fire_body(t, n):
        c = s.ctl[threading.get_ident()]
        s.park('start')
        try:
            for k in range(n):
                e = ev(t, k)
                e.c03 = (t, k)
                m.fire(e, 'c03')
                c.fire_returned = k + 1
                if s.park('ret'):
                    s.emit(['Ret'])
        except BaseException as e:
            s.errors.append('firing thread %d raised %s: %s' % (t, type(e).__name__, e))
        c.done = True
        s.main.release()

    threads = []
    CUR = s
    started = threading.Semaphore(0)

    def boot(idx, target, args):
        def body():
            s.ctl[threading.get_ident()] = s.byidx[idx]
            started.release()
            target(*args)
        th = threading.Thread(target=body, daemon=True)
        s.byidx[idx] = Ctl(idx)
        th.start()
        started.acquire()
        s.main.acquire()       # parked at 'start'
        threads.append(th)

    boot(0, loop_body, ())
    for t, n in enumerate(nev):
        boot(t + 1, fire_body, (t, n))

    verdict = schedule(s, m, sch, case)

    # ---- tear down (not part of the observation): free mode, stop the manager, join
    teardown = []
    s.abort = True
    s.release_all()
    try:
        try:
            m.stop()
        except BaseException as e:
            teardown.append('stop() raised %s' % type(e).__name__)
            try:
                setattr(m, '_running', False)
            except Exception:
                pass
        for g in list(s.gens):          # every generate_events seen: nothing may keep waiting
            try:
                g.reduce_time_left(0)
            except Exception:
                pass
        for f in s.flags:
            f.set()
        for r, w in PIPES:
            try:
                real_os.write(w, b'\0')
            except OSError:
                pass
    except Exception as e:      # pragma: no cover
        teardown.append('teardown: %r' % (e,))
    for th in threads:
        th.join(20)
    if any(th.is_alive() for th in threads):
        teardown.append('threads did not terminate')
    CUR = None
    for pair in PIPES:
        for fd in pair:
            try:
                real_os.close(fd)
            except OSError:
                pass
    for sk in socks:
        try:
            sk.close()
        except Exception:
            pass
    del PIPES[:]
    obs = {'verdict': verdict, 'log': s.log, 'trace': s.trace, 'steps': s.nsteps,
           'errors': list(s.errors), 'teardown': teardown, 'tsteps': s.tsteps,
           'returned': [s.byidx[t + 1].fire_returned for t in range(len(nev))],
           'missing_anchors': list(MISSING), 'degraded': list(s.degraded)}
    return obs


def schedule(s, m, sch, case):
    """drive the threads; returns a verdict dict (with the final queue content and whether the loop is parked)"""
    v = _schedule(s, m, sch, case)
    loop = s.byidx[0]
    v['blocked'] = bool(not loop.done and loop.kind in ('wait', 'select') and loop.enabled is not None
                        and not loop.enabled())
    try:
        ents = queued_entries(find_queue(m))
        v['pending'] = [list(e[-1][0].c03) for e in ents if hasattr(e[-1][0], 'c03')]
    except Exception as e:
        v['pending'] = None              # not observable: this component of the comparison is dropped
        s.degraded.append('queue content not observable: %s' % type(e).__name__)
    v['gcount'] = s.gcount
    return v


def _schedule(s, m, sch, case):
    import random
    ctls = [s.byidx[i] for i in sorted(s.byidx)]
    loop = ctls[0]
    kind = sch['kind']
    rng = random.Random(sch.get('seed', 0))
    order = sch.get('order') or list(range(len(ctls)))
    sw = {int(a): int(b) for a, b in sch.get('sw', [])}
    stick = sch.get('stick', 0.7)
    tmo_left = int(case.get('tmo', 0))
    segs = [[int(x[0]), int(x[1]), (x[2] if len(x) > 2 else ''), None, False] for x in sch.get('segs', [])]
    cur = order[0]
    while True:
        if s.nsteps >= MAX_STEPS:
            return {'end': 'step-limit'}
        if s.errors:
            return {'end': 'error'}
        live = [c for c in ctls if not c.done]
        en = [c for c in live if c.enabled is None or c.enabled()]
        if loop.done:
            return {'end': 'loop-terminated'}
        if not en:
            # nobody can move.  Which events has a returned fire() handed over that were not dispatched?
            done = set(map(tuple, s.log))
            pend = [[t, k] for t in range(len(ctls) - 1) for k in range(ctls[t + 1].fire_returned)
                    if (t, k) not in done]
            others = [c.idx for c in live if c is not loop]
            if loop.kind in ('wait', 'select'):
                if pend:
                    return {'end': 'lost-wakeup', 'queued': pend, 'wait': loop.kind,
                            'timeout': _timeout_kind(getattr(loop, 'wait_timeout', None))}
                if others:
                    return {'end': 'deadlock', 'blocked': others}
                if tmo_left > 0 and _timeout_kind(getattr(loop, 'wait_timeout', None)) == 'pos' and loop.kind == 'wait':
                    tmo_left -= 1
                    pick = loop           # let the (finite) timeout expire: nothing is queued
                else:
                    return {'end': 'quiescent'}
            else:
                return {'end': 'deadlock', 'blocked': [c.idx for c in live]}
        else:
            idxs = [c.idx for c in en]
            if kind == 'seg':
                # segments [thread, n(, 'v')]: n >= 0 steps (or visible actions with 'v'); -1 = until it cannot
                # move; -2 = until its fire() has returned
                pick = None
                while segs and pick is None:
                    sg = segs[0]
                    t, n = sg[0], sg[1]
                    c = s.byidx.get(t)
                    if c is not None and sg[3] is None:
                        sg[3] = c.vis + n if sg[2] == 'v' else -1
                    stop = (c is None or t not in idxs
                            or (sg[2] == 'v' and c.vis >= sg[3])
                            or (sg[2] != 'v' and n == 0)
                            or (n == -2 and c.kind in ('ret', 'start') and sg[4]))
                    if stop:
                        segs.pop(0)
                        continue
                    if sg[2] != 'v' and n > 0:
                        sg[1] = n - 1
                    sg[4] = True
                    pick = c
                if pick is None:
                    if cur not in idxs:
                        cur = next(i for i in order if i in idxs)
                    pick = s.byidx[cur]
            elif kind == 'rnd':
                if cur in idxs and rng.random() < stick:
                    pick = s.byidx[cur]
                else:
                    pick = s.byidx[rng.choice(idxs)]
            else:
                want = sw.get(s.nsteps)
                if want is not None and want in idxs:
                    cur = want
                if cur not in idxs:
                    cur = next(i for i in order if i in idxs)
                pick = s.byidx[cur]
        cur = pick.idx
        s.nsteps += 1
        pick.sem.release()
        s.main.acquire()



# ------------------------------------------------------------------------------------------- the check

def coq_ev(e):
    if e[0] == 'F':
        return '(EvF %d %d)' % (e[1], e[2])
    if e[0] == 'G':
        return '(EvG %d)' % e[1]
    return '(EvO %d)' % e[1]


SIMPLE = {'Count': 'ACount', 'AppO': 'AAppO', 'AppF': 'AAppF', 'Snap': 'ASnap', 'Move': 'AMove', 'SetH': 'ASetH',
          'Clr': 'AClr', 'Acq': 'AAcq', 'Rel': 'ARel', 'ArmTest': 'AArmTest', 'RdTl': 'ARdTl', 'RWrite': 'ARWrite',
          'RHd': 'ARHd', 'RGet': 'ARGet', 'Sig': 'ASig', 'Clear': 'AClear', 
          'PipeRd': 'APipeRd', 'FReadH': 'AFReadH',
          'Ret': 'ARet'}


def coq_lbl(l):
    k = l[0]
    if k in SIMPLE:
        return SIMPLE[k]
    if k == 'AppG':
        return '(AAppG %s)' % l[1]
    if k in ('Call', 'Disp'):
        return '(A%s %s)' % (k, coq_ev(l[1]))
    if k == 'SetHd':
        return '(ASetHd %s)' % l[1]
    if k == 'Wait':
        return '(AWait %s)' % ('true' if l[1] else 'false')
    if k == 'Select':
        return '(ASelect %s %s)' % ('true' if l[1] else 'false', 'true' if l[2] else 'false')
    if k == 'Preen':
        return 'APreen' 
    raise ValueError(l)


CONFIGS = [('fallback', False), ('fallback', True), ('select', False), ('poll', False), ('epoll', False),
           ('select', True), ('fallback', False), ('fallback', True)]
THREADS = [[1], [2], [1, 1], [2, 1], [3], [2, 2], [1, 1, 1]]


class C03(Prop):
    id = 'C03'
    props_file = 'Props/C03.v'
    imports = ['Model.Wake', 'Model.WakeObs']
    quick_n = 900
    thorough_n = 4000
    rule = ('real Manager.run() thread + 1-3 real firing threads (1-3 events each), every thread parked just before '
            'each shared access (hooks on _currently_handling, generate_events._time_left/handler, the queue object, '
            'RLock/Event/select/pipe doubles) under a scheduler: fallback generator / Select / Poll / EPoll waiter, each '
            'without and with a timer-like generate_events handler (untimed and timed wait/select); schedules: systematic '
            'sweeps for all 8 configurations (a whole fire() before every access of the loop thread in start-up + first '
            'tick and in the tick processing the first wake-up; a fire() cut before each of its own accesses x every '
            'loop position of the generate_events handling), sampled windows, sticky runs with 0-3 pre-emptions in all '
            'thread orders, random walks with stickiness 0.5-0.95. non-trivial = a firing-thread step is directly '
            'followed by a loop step that is not the return of its idle wait')
    trusted_base = ['hand-written protocol model Model/Wake.v tied to /repo by replaying every observed trace (accepts)',
                    'scheduler, access hooks (data descriptors / wrappers installed on the classes) and the '
                    'lock/Event/select/pipe doubles in harness/c03.py',
                    'code between two hooked accesses is thread-local (a shared access through an un-hooked variable is '
                    'neither a pre-emption point nor an action)']
    assumptions = ['pre-emption exactly before each hooked shared access and every lock/Event/select/pipe operation; '
                   'the read and write of `counter += 1` form one step',
                   'select/poll/epoll are consulted with timeout 0 by the double; a blocking call is a parked thread',
                   'all events have equal priority']

    def __init__(self):
        self.stats = {}
        self._obs = {}

    # ---- cases
    def measure(self, mode, timer, hist=None):
        """sizes of the sweep ranges for one configuration, from the undisturbed run: visible loop actions up to the
        first park (n1) and while processing the first wake-up (n2); position of the dispatcher call for
        generate_events in that second phase (jg) and the number of scheduler steps from there to the park (rg);
        scheduler steps of the whole phases (r1, r2)"""
        o = run_case({'mode': mode, 'timer': timer, 'threads': [2], 'tmo': 0, 'hist': hist, 'sched': {
            'kind': 'seg', 'order': [0, 1], 'segs': [[0, -1], [1, -2], [0, -1], [1, -1], [0, -1]]}})
        tr, ts = o['trace'], o['tsteps']
        try:
            k1 = next(i for i, x in enumerate(tr) if x[0] == 1)                       # first fire starts
            k2 = next(i for i in range(k1, len(tr)) if tr[i][0] == 0)                  # loop woken
            k3 = next(i for i in range(k2, len(tr)) if tr[i][0] == 1)                  # second fire starts
            kg = next(i for i in range(k2, k3) if tr[i][1][0] == 'Call' and tr[i][1][1][0] == 'G')
            return {'n1': k1, 'n2': k3 - k2, 'jg': kg - k2 + 1, 'rg': ts[k3] - ts[kg], 'r1': ts[k1],
                    'r2': ts[k3] - ts[k2] + 1}
        except (StopIteration, IndexError):
            # the undisturbed run itself does not behave (e.g. the loop is never woken): default ranges; the
            # undisturbed schedule is one of the sweep positions, so the oracle reports it
            return {'n1': 30, 'n2': 34, 'jg': 14, 'rg': 18, 'r1': 32, 'r2': 36}

    def generate(self, rng, n, tier, with_sweep=True):
        cases = []
        cfgs = [(m, t) for m in ('fallback', 'select', 'poll', 'epoll') for t in (False, True)] if with_sweep else []
        # systematic sweeps: one whole fire() placed at every position of the loop thread, for every waiter,
        # without and WITH the timer-like handler (time_left > 0: the timed wait / timed select branches)
        sweep = []
        sizes = {}

        def sw(mode, timer, segs):
            sweep.append({'mode': mode, 'timer': timer, 'threads': [2], 'tmo': 0,
                          'sched': {'kind': 'seg', 'order': [0, 1], 'segs': segs}})
        for mode, timer in cfgs:
            z = self.measure(mode, timer)
            sizes['%s%s' % (mode, '+timer' if timer else '')] = z
            # a whole fire() placed before every shared access / synchronisation step of the loop thread:
            for r in range(0, z['r1'] + 2):        # start-up, first tick, first park
                sw(mode, timer, [[0, r], [1, -2], [0, -1], [1, -1], [0, -1]])
            for r in range(0, z['r2'] + 2):        # the tick that processes the first wake-up
                sw(mode, timer, [[0, -1], [1, -2], [0, r], [1, -2], [0, -1], [1, -1], [0, -1]])
            # a fire() cut in two before each of its own accesses, while the loop handles generate_events; the loop
            # then runs until it parks, then the fire() completes
            if tier == 'thorough' or (mode, timer) in (('fallback', False), ('fallback', True), ('select', False)):
                for r in range(0, z['rg'] + 2):
                    for i in range(1, 14):
                        sw(mode, timer, [[0, -1], [1, -2], [0, z['jg'], 'v'], [0, r], [1, i], [0, -1], [1, -1], [0, -1]])
            # the LOOP thread stopped at every position (in particular between the accesses of its own unlocked append)
            # while another thread completes three whole fire() calls; the loop then moves on by 1-2 steps and the same
            # thread fires three more before the batch is taken: per-thread order inside one batch
            if tier == 'thorough' or (mode, timer) in (('fallback', False), ('select', False)):
                for y in (1, 2):
                    for r in range(0, z['r1'] + 2):
                        sweep.append({'mode': mode, 'timer': timer, 'threads': [6], 'tmo': 0, 'sched': {
                            'kind': 'seg', 'order': [0, 1],
                            'segs': [[0, r], [1, -2], [1, -2], [1, -2], [0, y], [1, -1], [0, -1]]}})
                    for r in range(0, z['r2'] + 2):
                        sweep.append({'mode': mode, 'timer': timer, 'threads': [7], 'tmo': 0, 'sched': {
                            'kind': 'seg', 'order': [0, 1],
                            'segs': [[0, -1], [1, -2], [0, r], [1, -2], [1, -2], [1, -2], [0, y], [1, -1], [0, -1]]}})
            # the first accesses of a fire() (its reads before it appends) cut off at EVERY position of that tick
            if tier != 'thorough' and (mode, timer) in (('fallback', False), ('select', False)):
                for r in range(0, z['r2'] + 2):
                    for i in range(1, 5):
                        sw(mode, timer, [[0, -1], [1, -2], [0, r], [1, i], [0, -1], [1, -1], [0, -1]])
            if tier == 'thorough':
                for r in range(0, z['r2'] + 2):    # the same cut at every position of the second tick, loop continues freely
                    for i in range(1, 15):
                        sw(mode, timer, [[0, -1], [1, -2], [0, r], [1, i], [0, rng.randint(0, 12)], [1, -1], [0, -1]])
        # poller histories: an idle descriptor stays registered, one is discarded properly, and (Select) one is closed
        # behind the poller's back so that the first select() fails and the descriptor lists are weeded out once; then
        # a whole fire() before every access of the loop thread in the ticks before and after the first wake-up
        hcfgs = [('select', False, ['discard', 'stale']), ('select', True, ['discard', 'stale']),
                 ('poll', False, ['discard']), ('epoll', False, ['discard'])] if with_sweep else []
        for mode, timer, hist in hcfgs:
            z = self.measure(mode, timer, hist)
            sizes['%s%s+%s' % (mode, '+timer' if timer else '', '+'.join(hist))] = z
            for r in range(0, z['r1'] + 2):
                sweep.append({'mode': mode, 'timer': timer, 'threads': [2], 'tmo': 0, 'hist': hist, 'sched': {
                    'kind': 'seg', 'order': [0, 1], 'segs': [[0, r], [1, -2], [0, -1], [1, -1], [0, -1]]}})
            for r in range(0, z['r2'] + 2):
                sweep.append({'mode': mode, 'timer': timer, 'threads': [2], 'tmo': 0, 'hist': hist, 'sched': {
                    'kind': 'seg', 'order': [0, 1],
                    'segs': [[0, -1], [1, -2], [0, r], [1, -2], [0, -1], [1, -1], [0, -1]]}})
        if with_sweep:
            self.stats['sweep_sizes'] = sizes
            self.stats['sweep_cases'] = len(sweep)
        cases += sweep
        for i in range(max(100, n - len(sweep)) if tier == 'quick' else n):
            mode, timer = CONFIGS[i % len(CONFIGS)]
            threads = list(rng.choice(THREADS if tier == 'thorough' else THREADS[:5]))
            nt = len(threads) + 1
            r = rng.random()
            if r < 0.45:
                # windows: the loop is somewhere inside a tick when (part of) a fire() runs
                second = 1 if threads[0] >= 2 or nt == 2 else 2
                b = rng.choice([[-2], [rng.randint(1, 13), 'v'], [rng.randint(1, 30)]])
                c = rng.choice([[-1], [-1], [rng.randint(0, 20), 'v']])
                if rng.random() < 0.7:
                    segs = [[0, -1], [1, -2], [0, rng.randint(0, 33), 'v'], [second] + b, [0] + c, [second, -1],
                            [0, -1]]
                else:
                    segs = [[0, rng.randint(0, 28), 'v'], [1] + b, [0] + c, [1, -1], [0, -1]]
                sch = {'kind': 'seg', 'segs': segs, 'order': list(range(nt))}
            elif r < 0.7:
                order = list(range(nt))
                rng.shuffle(order)
                k = rng.choice([0, 1, 1, 2, 2, 3])
                sw = sorted([rng.randint(0, 420), rng.randint(0, nt - 1)] for _ in range(k))
                sch = {'kind': 'pre', 'order': order, 'sw': sw}
            else:
                sch = {'kind': 'rnd', 'seed': rng.randint(0, 10 ** 9), 'stick': rng.choice([0.5, 0.8, 0.9, 0.95])}
            hist = None
            if mode != 'fallback' and rng.random() < 0.4:
                hist = ['discard', 'stale'] if mode == 'select' else ['discard']
            cases.append({'mode': mode, 'timer': timer, 'threads': threads, 'sched': sch,
                          'tmo': rng.choice([0, 0, 1, 2]), 'hist': hist})
        return cases

    def search(self, rng, tier):
        return self.generate(rng, 300 if tier == 'quick' else 3000, 'quick', with_sweep=False)

    # ---- implementation
    def impl(self, case):
        global CUR
        try:
            obs = run_case(case)
        except Exception as e:
            # run_case executes in the checking thread: the implementation runs in the other threads and its
            # exceptions are collected in obs['errors'].  Whatever is raised HERE is harness code.
            CUR = None
            import traceback
            obs = {'harness_error': '%s: %s' % (type(e).__name__, e), 'tb': traceback.format_exc()[-800:]}
            self._obs[common.canon(case)] = obs
            self.stats['harness_errors'] = self.stats.get('harness_errors', 0) + 1
            self.stats.setdefault('harness_error_kinds', {}).setdefault(obs['harness_error'][:80], 0)
            self.stats['harness_error_kinds'][obs['harness_error'][:80]] += 1
            return obs
        if obs.get('degraded'):
            self.stats['degraded_runs'] = self.stats.get('degraded_runs', 0) + 1
            d = self.stats.setdefault('degraded', {})
            for x in set(obs['degraded']):
                d[x] = d.get(x, 0) + 1
        self._obs[common.canon(case)] = obs
        st = self.stats
        st['runs'] = st.get('runs', 0) + 1
        st['controlled_steps'] = st.get('controlled_steps', 0) + obs['steps']
        st['visible_actions'] = st.get('visible_actions', 0) + len(obs['trace'])
        if obs.get('teardown'):
            st['teardown_problems'] = st.get('teardown_problems', 0) + 1
        e = 'end_' + obs['verdict']['end']
        st[e] = st.get(e, 0) + 1
        mk = 'mode_' + case['mode'] + ('+timer' if case.get('timer') else '') + ('+hist' if case.get('hist') else '')
        st[mk] = st.get(mk, 0) + 1
        sk = 'sched_' + case['sched']['kind']
        st[sk] = st.get(sk, 0) + 1
        # where in the loop's cycle the foreign appends landed (last visible loop action before the append)
        hist = st.setdefault('foreign_append_after_loop_action', {})
        last = 'start'
        for t, l in obs['trace']:
            if t == 0:
                last = l[0]
            elif l[0] == 'AppF':
                hist[last] = hist.get(last, 0) + 1
        return obs

    # ---- model
    def model_term(self, case):
        obs = self._obs.get(common.canon(case))
        if isinstance(obs, dict) and 'harness_error' in obs:
            # skipped, unless most runs are like that: then nothing ties the model to the code (fail closed)
            bad = self.stats.get('harness_errors', 0) * 2 > max(1, self.stats.get('runs', 0) + self.stats.get('harness_errors', 0))
            return 'Tl [Tn (%d)]' % (-9 if bad else -8)
        if obs is None or not isinstance(obs, dict) or 'trace' not in obs:
            return None
        return self.case_term(case, obs)

    def case_term(self, case, obs):
        tr = '; '.join('(%d, %s)' % (t, coq_lbl(l)) for t, l in obs['trace'])
        fn = 'obs_trace' if obs['verdict'].get('pending') is not None else 'obs_trace_np'
        return fn + ' %s [%s]%%nat' % ('Fallback' if case['mode'] == 'fallback' else 'Poller', tr)

    def obs_for_model(self, case, obs):
        if isinstance(obs, dict) and '__crash__' in obs:
            return [-999]
        if 'harness_error' in obs:
            return [-8]
        if obs['missing_anchors']:
            return [-5]
        v = obs['verdict']
        return [-1, [list(x) for x in obs['log']], v['pending'] or [], v['gcount'], bool(v['blocked'])]

    # ---- oracle: the property read on the real run
    def oracle(self, case, obs):
        if isinstance(obs, dict) and ('__crash__' in obs or 'harness_error' in obs):
            return None
        v = obs['verdict']
        if obs['errors']:
            return 'run failed: %s' % '; '.join(obs['errors'])
        if v['end'] == 'lost-wakeup':
            return ('lost wake-up: loop parked in %s (timeout %s), events %s of returned fire() calls are queued and no '
                    'thread can move' % (v['wait'], v['timeout'], v['queued']))
        if v['end'] in ('deadlock', 'loop-terminated', 'step-limit'):
            return 'run ended with %s: %s' % (v['end'], v)
        log = [tuple(x) for x in obs['log']]
        if len(set(log)) != len(log):
            return 'an event was dispatched twice: %s' % log
        for t, n in enumerate(case['threads']):
            got = [k for (tt, k) in log if tt == t]
            if got != list(range(n)):
                return 'thread %d fired 0..%d, dispatched %s' % (t, n - 1, got)
        return None

    def nontrivial(self, case, obs):
        """some firing-thread step is directly followed by a loop step that is not the return of the idle wait:
        the loop was really interleaved with a fire()"""
        if not isinstance(obs, dict) or 'trace' not in obs:
            return False
        tr = obs['trace']
        return any(tr[i][0] != 0 and tr[i + 1][0] == 0 and tr[i + 1][1][0] not in ('Wait', 'Select')
                   and tr[i][1][0] != 'Ret' for i in range(len(tr) - 1))


if __name__ == '__main__':
    sys.exit(common.main(C03()))
