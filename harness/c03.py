"""C03 — fire() from other threads: nothing lost or duplicated, the loop always wakes.

A case = (waiter kind, plain generate_events handler yes/no, events per firing thread, a schedule).
The REAL Manager.run() runs in a real thread, N real threads call fire(); every thread is stopped
before each source line of the functions of the wake-up protocol (sys.monitoring LINE events) and
before each operation on the RLock / threading.Event / select / control pipe (scheduler-aware doubles
installed as module globals), and a scheduler in the checking thread decides which thread performs
its next step.  The sequence of visible steps is replayed by Model/Wake.v (`accepts`), the oracle
looks for a lost wake-up (loop parked in its idle wait, a returned fire()'s event still queued, no
thread enabled) and checks exactly-once / per-thread order on the handler log.
"""
import sys, os
sys.path.insert(0, os.path.dirname(os.path.abspath(__file__)))
import inspect
import re
import threading
import types
import select as real_select
import os as real_os

import common
from common import Prop

import circuits.core.manager as cmanager
import circuits.core.helpers as chelpers
import circuits.core.pollers as cpollers
import circuits.core.events as cevents
from circuits import BaseComponent, Event, handler

REAL_RLOCK = threading.RLock
REAL_EVENT = threading.Event
MON = sys.monitoring
TOOL = 3
MAX_STEPS = 6000

CUR = None      # the scheduler of the case being run (None: everything behaves like the real primitives)


class AnchorMissing(Exception):
    pass


# ------------------------------------------------------------------------------------------- scheduler

class Ctl:
    def __init__(self, idx):
        self.idx = idx
        self.sem = threading.Semaphore(0)
        self.enabled = None
        self.kind = 'line'
        self.done = False
        self.forced = False
        self.fire_returned = 0     # number of fire() calls that have returned (firing threads)
        self.vis = 0               # visible actions emitted so far


class Sched:
    def __init__(self):
        self.ctl = {}               # thread ident -> Ctl
        self.byidx = {}
        self.main = threading.Semaphore(0)
        self.free = False
        self.trace = []
        self.tsteps = []            # scheduler step count at each visible action
        self.log = []               # handler log: [t, k] in invocation order
        self.nsteps = 0
        self.gcount = 0
        self.errors = []

    def me(self):
        if self.free:
            return None
        return self.ctl.get(threading.get_ident())

    def park(self, kind='line', enabled=None):
        """called by a controlled thread before its next step; returns False in free mode"""
        c = self.me()
        if c is None:
            return False
        c.kind, c.enabled = kind, enabled
        self.main.release()
        c.sem.acquire()
        c.enabled = None
        if self.free:
            return False
        return True

    def emit(self, lab):
        c = self.ctl.get(threading.get_ident())
        if c is not None and not self.free:
            c.vis += 1
            self.trace.append([c.idx, lab])
            self.tsteps.append(self.nsteps)

    def release_all(self):
        self.free = True
        for c in self.ctl.values():
            c.sem.release()


# ------------------------------------------------------------------------------------------- doubles

class SLock:
    """stands in for threading.RLock (module global circuits.core.manager.RLock)"""

    def __init__(self):
        self._mx = threading.Condition(threading.Lock())
        self.owner = None
        self.depth = 0

    def _free_for(self, ident):
        return self.owner is None or self.owner == ident

    def acquire(self, blocking=True, timeout=-1):
        ident = threading.get_ident()
        s = CUR
        if s is not None and s.park('acq', lambda: self._free_for(ident)):
            s.emit(['Acq'])
        with self._mx:
            while not self._free_for(ident):
                self._mx.wait(0.05)
            self.owner = ident
            self.depth += 1
        return True

    def release(self):
        s = CUR
        if s is not None and s.park('rel'):
            s.emit(['Rel'])
        with self._mx:
            if self.owner != threading.get_ident():
                raise RuntimeError('cannot release un-acquired lock')
            self.depth -= 1
            if self.depth == 0:
                self.owner = None
                self._mx.notify_all()

    __enter__ = acquire

    def __exit__(self, *a):
        self.release()


class SEvent:
    """stands in for threading.Event (module global circuits.core.helpers.Event)"""

    def __init__(self):
        self._cv = threading.Condition(threading.Lock())
        self._flag = False
        s = CUR
        if s is not None:
            s.flags.append(self)

    def is_set(self):
        return self._flag

    def set(self):
        s = CUR
        if s is not None and s.park('set'):
            s.emit(['Sig'])
        with self._cv:
            self._flag = True
            self._cv.notify_all()

    def clear(self):
        s = CUR
        if s is not None and s.park('clear'):
            s.emit(['Clear'])
        with self._cv:
            self._flag = False

    def wait(self, timeout=None):
        s = CUR
        if s is not None:
            c = s.me()
            if c is not None:
                c.wait_timeout = timeout
            if s.park('wait', lambda: self._flag or timeout == 0):
                # scheduled although not signalled = the scheduler lets the timeout expire
                w = self._flag
                s.emit(['Wait', 1 if w else 0])
                return w
        # free mode: never really sleep long, the case is over
        with self._cv:
            n = 0
            while not self._flag and n < 200 and (CUR is None or not CUR.abort):
                self._cv.wait(0.01)
                n += 1
            return self._flag


class FakeOS:
    """circuits.core.pollers.os: reports reads/writes of the control pipe to the scheduler"""

    def __getattr__(self, name):
        return getattr(real_os, name)

    def write(self, fd, data):
        s = CUR
        if s is not None and s.park('pipewrite'):
            s.emit(['Sig'])
        return real_os.write(fd, data)

    def read(self, fd, n):
        s = CUR
        if s is not None and s.park('piperead'):
            s.emit(['PipeRd'])
        return real_os.read(fd, n)


def _timeout_kind(t):
    return 'none' if t is None or t < 0 else ('zero' if t == 0 else 'pos')


class FakePollObj:
    def __init__(self, real, is_epoll):
        self._real = real
        self._is_epoll = is_epoll

    def __getattr__(self, name):
        return getattr(self._real, name)

    def poll(self, timeout=None):
        s = CUR
        if s is not None:
            c = s.me()
            if c is not None:
                c.wait_timeout = timeout
            if s.park('select', lambda: bool(self._real.poll(0)) or _timeout_kind(timeout) == 'zero'):
                r = self._real.poll(0)
                s.emit(['Select', 1 if r else 0])
                return r
            if s.abort:
                return self._real.poll(0)
            return self._real.poll(50)
        if timeout is None:
            return self._real.poll()
        return self._real.poll(timeout)


class FakeSelect:
    """circuits.core.pollers.select (the module): select/poll/epoll report to the scheduler"""

    def __getattr__(self, name):
        return getattr(real_select, name)

    def select(self, r, w, x, timeout=None):
        s = CUR
        if s is not None:
            c = s.me()
            if c is not None:
                c.wait_timeout = timeout

            def ready():
                a, b, _ = real_select.select(r, w, x, 0)
                return bool(a or b) or _timeout_kind(timeout) == 'zero'
            if s.park('select', ready):
                res = real_select.select(r, w, x, 0)
                s.emit(['Select', 1 if (res[0] or res[1]) else 0])
                return res
            return real_select.select(r, w, x, 0 if s.abort else 0.05)
        if timeout is None:
            return real_select.select(r, w, x)
        return real_select.select(r, w, x, timeout)

    def poll(self):
        return FakePollObj(real_select.poll(), False)

    def epoll(self, *a, **kw):
        return FakePollObj(real_select.epoll(*a, **kw), True)


# ------------------------------------------------------------------------------------------- anchors

def _sign(t):
    return 'Neg' if t < 0 else ('Zero' if t == 0 else 'Pos')


def _ev_id(s, e):
    if isinstance(e, cevents.generate_events):
        g = getattr(e, 'c03_g', None)
        if g is None:
            g = e.c03_g = s.gcount
            s.gcount += 1
        return ['G', g]
    if hasattr(e, 'c03'):
        return ['F', e.c03[0], e.c03[1]]
    o = getattr(e, 'c03_o', None)
    if o is None:
        o = e.c03_o = s.ocount
        s.ocount += 1
    return ['O', o]


def lab_append(s, f):
    e = f.f_locals.get('event')
    i = _ev_id(s, e)
    if i[0] == 'G':
        return ['AppG', _sign(e._time_left)]
    return ['AppF'] if i[0] == 'F' else ['AppO']


def lab_call(s, f):
    return ['Call', _ev_id(s, f.f_locals.get('event'))]


def lab_sethd(s, f):
    e = f.f_locals.get('event')
    if not isinstance(e, cevents.generate_events):
        return None
    h = f.f_locals.get('event_handler')
    m = getattr(getattr(h, '__self__', None), 'resume', None)
    return ['SetHd', 'HWake' if inspect.ismethod(m) else 'HPlain']


def lab_rhd(s, f):
    return ['RHd'] if f.f_locals.get('time_left') == 0 else None


def const(l):
    return lambda s, f: l


# per function: list of (regex on the stripped source line, label function, required?)
ANCHORS = {
    'append': [
        (r'^self\._counter\s*(\+= 1|= self\._counter \+ 1)$', const(['Count']), True),
        (r'^self\._queue\.append\(\(', lab_append, True),
    ],
    'dispatchEvents': [
        (r'=\s*len\(self\._queue\)$', const(['Snap']), True),
        (r'self\._queue\.popleft\(\)', const(['Move']), True),
        (r'^dispatcher\(', lab_call, True),
    ],
    '_fire': [
        (r'= self\._currently_handling$', const(['FReadH']), True),
    ],
    '_dispatcher': [
        (r'^self\._currently_handling = event$', const(['SetH']), True),
        (r'^self\._currently_handling = None$', const(['Clr']), True),
        (r'^if remaining > 0\b', const(['ArmTest']), True),
        (r'^event\.handler = event_handler$', lab_sethd, True),
    ],
    'reduce_time_left': [
        (r'^if time_left >= 0', const(['RTest']), True),
        (r'^self\._time_left = time_left$', const(['RWrite']), True),
        (r'^if self\._time_left == 0 and self\.handler', lab_rhd, True),
        (r'^self\.handler\.__self__,$', const(['RGet']), True),
    ],
    'fallback': [
        (r'^if event\.time_left == 0:$', const(['WTest']), True),
        (r'^if event\.time_left > 0:$', const(['WTestPos']), True),
        (r'^self\._continue\.wait\(event\.time_left\)$', const(['WRdTl']), True),
        (r'^while event\.time_left < 0:$', const(['WTestNeg']), True),
    ],
    'poller_generate': [
        (r'^timeout = event\.time_left$', const(['PRead']), True),
    ],
}


def _code_of(fn):
    fn = getattr(fn, '__func__', fn)
    fn = getattr(fn, '__wrapped__', fn)
    return fn.__code__


def instrumented():
    """[(anchor table name, code object)] of the functions whose lines are scheduling points"""
    out = [
        ('append', _code_of(cmanager._EventQueue.append)),
        ('dispatchEvents', _code_of(cmanager._EventQueue.dispatchEvents)),
        ('_fire', _code_of(cmanager.Manager._fire)),
        ('_dispatcher', _code_of(cmanager.Manager._dispatcher)),
        ('reduce_time_left', _code_of(cevents.generate_events.reduce_time_left)),
        ('fallback', _code_of(chelpers.FallBackGenerator._on_generate_events)),
        (None, _code_of(chelpers.FallBackGenerator.resume)),
        (None, _code_of(cpollers.BasePoller._on_generate_events)),
        (None, _code_of(cpollers.BasePoller.resume)),
        (None, _code_of(cpollers.BasePoller._read_ctrl)),
        ('poller_generate', _code_of(cpollers.Select._generate_events)),
        ('poller_generate', _code_of(cpollers.Poll._generate_events)),
        ('poller_generate', _code_of(cpollers.EPoll._generate_events)),
        (None, _code_of(cpollers.Poll._process)),
        (None, _code_of(cpollers.EPoll._process)),
    ]
    return out


LINEMAP = {}        # (code, lineno) -> label function
MISSING = []
_INSTALLED = False


def install():
    """instrument the protocol functions and install the doubles (module globals only; no source change)"""
    global _INSTALLED
    if _INSTALLED:
        return
    _INSTALLED = True
    for name, code in instrumented():
        if name is not None:
            try:
                lines, start = inspect.getsourcelines(code)
            except OSError:
                MISSING.append('%s: no source' % name)
                lines, start = [], 0
            for pat, fn, req in ANCHORS[name]:
                hits = [start + i for i, l in enumerate(lines) if re.search(pat, l.strip())]
                if not hits and req:
                    MISSING.append('%s: %s' % (code.co_qualname, pat))
                for h in hits:
                    LINEMAP[(code, h)] = fn
    cmanager.RLock = SLock
    chelpers.Event = SEvent
    cpollers.select = FakeSelect()
    cpollers.os = FakeOS()

    class _NoAtexit:
        @staticmethod
        def register(*a, **k):
            return None
    cmanager.atexit = _NoAtexit
    MON.use_tool_id(TOOL, 'c03')
    MON.register_callback(TOOL, MON.events.LINE, on_line)
    for _, code in instrumented():
        MON.set_local_events(TOOL, code, MON.events.LINE)


def on_line(code, lineno):
    s = CUR
    if s is None or s.free:
        return
    c = s.ctl.get(threading.get_ident())
    if c is None:
        return
    fn = LINEMAP.get((code, lineno))
    lab = None
    if fn is not None:
        lab = fn(s, sys._getframe(1))
        if lab is not None and lab[0] == 'RGet':
            # a multi-line statement may report its line twice: one read per call
            f = sys._getframe(1)
            if getattr(c, 'rget_frame', None) is f:
                lab = None
            else:
                c.rget_frame = f
    if s.park('line'):
        if lab is not None:
            s.emit(lab)


# ------------------------------------------------------------------------------------------- one run

class ev(Event):
    """the event fired by the firing threads"""


class Sink(BaseComponent):
    channel = 'c03'

    @handler('ev')
    def _on_ev(self, event, t, k):
        s = CUR
        if s is not None and s.park('handler'):
            s.emit(['Disp', ['F', t, k]])
        if s is not None:
            s.log.append([t, k])


class Ticker(BaseComponent):
    """a generate_events handler without resume(): asks to be called again within 0.05 s (like a Timer)"""
    channel = 'c03'

    @handler('generate_events', priority=0)
    def _on_generate_events(self, event):
        event.reduce_time_left(0.05)


POLLERS = {'select': 'Select', 'poll': 'Poll', 'epoll': 'EPoll'}


def run_case(case):
    global CUR
    install()
    mode = case['mode']
    nev = case['threads']
    sch = case['sched']
    s = Sched()
    s.flags = []
    s.ocount = 0
    s.abort = False
    m = cmanager.Manager()
    Sink().register(m)
    if case.get('timer'):
        Ticker().register(m)
    poller = None
    if mode != 'fallback':
        poller = getattr(cpollers, POLLERS[mode])().register(m)
    for _ in range(6):
        m.flush()
    # a fresh queue object state the model starts from: nothing queued
    assert len(m._queue) == 0

    def loop_body():
        c = s.ctl[threading.get_ident()]
        s.park('start')
        try:
            m.run()
        except BaseException as e:   # pragma: no cover
            s.errors.append('loop thread raised %s: %s' % (type(e).__name__, e))
        c.done = True
        s.main.release()

    def fire_body(t, n):
        c = s.ctl[threading.get_ident()]
        s.park('start')
        try:
            for k in range(n):
                e = ev(t, k)
                e.c03 = (t, k)
                m.fire(e, 'c03')
                c.fire_returned = k + 1
                if s.park('ret'):
                    s.emit(['Ret'])
        except BaseException as e:
            s.errors.append('firing thread %d raised %s: %s' % (t, type(e).__name__, e))
        c.done = True
        s.main.release()

    threads = []
    CUR = s
    started = threading.Semaphore(0)

    def boot(idx, target, args):
        def body():
            s.ctl[threading.get_ident()] = s.byidx[idx]
            started.release()
            target(*args)
        th = threading.Thread(target=body, daemon=True)
        s.byidx[idx] = Ctl(idx)
        th.start()
        started.acquire()
        s.main.acquire()       # parked at 'start'
        threads.append(th)

    boot(0, loop_body, ())
    for t, n in enumerate(nev):
        boot(t + 1, fire_body, (t, n))

    verdict = schedule(s, m, sch, case)

    # ---- tear down (not part of the observation): free mode, stop the manager, join
    teardown = []
    s.abort = True
    s.release_all()
    try:
        try:
            m.stop()
        except BaseException as e:
            teardown.append('stop() raised %s' % type(e).__name__)
        m._running = False
        h = m._currently_handling
        if isinstance(h, cevents.generate_events):
            h._time_left = 0
        for f in s.flags:
            f.set()
        if poller is not None:
            try:
                real_os.write(poller._ctrl_send, b'\0')
            except OSError:
                pass
    except Exception as e:      # pragma: no cover
        teardown.append('teardown: %r' % (e,))
    for th in threads:
        th.join(20)
    if any(th.is_alive() for th in threads):
        teardown.append('threads did not terminate')
    CUR = None
    if poller is not None:
        for fd in (poller._ctrl_recv, poller._ctrl_send):
            try:
                real_os.close(fd)
            except OSError:
                pass
    obs = {'verdict': verdict, 'log': s.log, 'trace': s.trace, 'steps': s.nsteps,
           'errors': list(s.errors), 'teardown': teardown, 'tsteps': s.tsteps,
           'returned': [s.byidx[t + 1].fire_returned for t in range(len(nev))],
           'missing_anchors': list(MISSING)}
    return obs


def schedule(s, m, sch, case):
    """drive the threads; returns a verdict dict (with the final queue content and whether the loop is parked)"""
    v = _schedule(s, m, sch, case)
    loop = s.byidx[0]
    v['blocked'] = bool(not loop.done and loop.kind in ('wait', 'select') and loop.enabled is not None
                        and not loop.enabled())
    q = m._queue
    ents = sorted(q._priority_queue, key=lambda x: (x[0], x[1])) + list(q._queue)
    v['pending'] = [list(e[2][0].c03) for e in ents if hasattr(e[2][0], 'c03')]
    v['gcount'] = s.gcount
    return v


def _schedule(s, m, sch, case):
    import random
    ctls = [s.byidx[i] for i in sorted(s.byidx)]
    loop = ctls[0]
    kind = sch['kind']
    rng = random.Random(sch.get('seed', 0))
    order = sch.get('order') or list(range(len(ctls)))
    sw = {int(a): int(b) for a, b in sch.get('sw', [])}
    stick = sch.get('stick', 0.7)
    tmo_left = int(case.get('tmo', 0))
    segs = [[int(x[0]), int(x[1]), (x[2] if len(x) > 2 else ''), None, False] for x in sch.get('segs', [])]
    cur = order[0]
    while True:
        if s.nsteps >= MAX_STEPS:
            return {'end': 'step-limit'}
        if s.errors:
            return {'end': 'error'}
        live = [c for c in ctls if not c.done]
        en = [c for c in live if c.enabled is None or c.enabled()]
        if loop.done:
            return {'end': 'loop-terminated'}
        if not en:
            # nobody can move.  Which events has a returned fire() handed over that were not dispatched?
            done = set(map(tuple, s.log))
            pend = [[t, k] for t in range(len(ctls) - 1) for k in range(ctls[t + 1].fire_returned)
                    if (t, k) not in done]
            others = [c.idx for c in live if c is not loop]
            if loop.kind in ('wait', 'select'):
                if pend:
                    return {'end': 'lost-wakeup', 'queued': pend, 'wait': loop.kind,
                            'timeout': _timeout_kind(getattr(loop, 'wait_timeout', None))}
                if others:
                    return {'end': 'deadlock', 'blocked': others}
                if tmo_left > 0 and _timeout_kind(getattr(loop, 'wait_timeout', None)) == 'pos' and loop.kind == 'wait':
                    tmo_left -= 1
                    pick = loop           # let the (finite) timeout expire: nothing is queued
                else:
                    return {'end': 'quiescent'}
            else:
                return {'end': 'deadlock', 'blocked': [c.idx for c in live]}
        else:
            idxs = [c.idx for c in en]
            if kind == 'seg':
                # segments [thread, n(, 'v')]: n >= 0 steps (or visible actions with 'v'); -1 = until it cannot
                # move; -2 = until its fire() has returned
                pick = None
                while segs and pick is None:
                    sg = segs[0]
                    t, n = sg[0], sg[1]
                    c = s.byidx.get(t)
                    if c is not None and sg[3] is None:
                        sg[3] = c.vis + n if sg[2] == 'v' else -1
                    stop = (c is None or t not in idxs
                            or (sg[2] == 'v' and c.vis >= sg[3])
                            or (sg[2] != 'v' and n == 0)
                            or (n == -2 and c.kind in ('ret', 'start') and sg[4]))
                    if stop:
                        segs.pop(0)
                        continue
                    if sg[2] != 'v' and n > 0:
                        sg[1] = n - 1
                    sg[4] = True
                    pick = c
                if pick is None:
                    if cur not in idxs:
                        cur = next(i for i in order if i in idxs)
                    pick = s.byidx[cur]
            elif kind == 'rnd':
                if cur in idxs and rng.random() < stick:
                    pick = s.byidx[cur]
                else:
                    pick = s.byidx[rng.choice(idxs)]
            else:
                want = sw.get(s.nsteps)
                if want is not None and want in idxs:
                    cur = want
                if cur not in idxs:
                    cur = next(i for i in order if i in idxs)
                pick = s.byidx[cur]
        cur = pick.idx
        s.nsteps += 1
        pick.sem.release()
        s.main.acquire()



# ------------------------------------------------------------------------------------------- the check

def coq_ev(e):
    if e[0] == 'F':
        return '(EvF %d %d)' % (e[1], e[2])
    if e[0] == 'G':
        return '(EvG %d)' % e[1]
    return '(EvO %d)' % e[1]


SIMPLE = {'Count': 'ACount', 'AppO': 'AAppO', 'AppF': 'AAppF', 'Snap': 'ASnap', 'Move': 'AMove', 'SetH': 'ASetH',
          'Clr': 'AClr', 'Acq': 'AAcq', 'Rel': 'ARel', 'ArmTest': 'AArmTest', 'RTest': 'ARTest', 'RWrite': 'ARWrite',
          'RHd': 'ARHd', 'RGet': 'ARGet', 'Sig': 'ASig', 'WTest': 'AWTest', 'Clear': 'AClear', 'WTestPos': 'AWTestPos',
          'WRdTl': 'AWRdTl', 'WTestNeg': 'AWTestNeg', 'PRead': 'APRead', 'PipeRd': 'APipeRd', 'FReadH': 'AFReadH',
          'Ret': 'ARet'}


def coq_lbl(l):
    k = l[0]
    if k in SIMPLE:
        return SIMPLE[k]
    if k == 'AppG':
        return '(AAppG %s)' % l[1]
    if k in ('Call', 'Disp'):
        return '(A%s %s)' % (k, coq_ev(l[1]))
    if k == 'SetHd':
        return '(ASetHd %s)' % l[1]
    if k == 'Wait':
        return '(AWait %s)' % ('true' if l[1] else 'false')
    if k == 'Select':
        return '(ASelect %s)' % ('true' if l[1] else 'false')
    raise ValueError(l)


CONFIGS = [('fallback', False), ('fallback', True), ('select', False), ('poll', False), ('epoll', False),
           ('select', True), ('fallback', False), ('fallback', True)]
THREADS = [[1], [2], [1, 1], [2, 1], [3], [2, 2], [1, 1, 1]]


class C03(Prop):
    id = 'C03'
    props_file = 'Props/C03.v'
    imports = ['Model.Wake', 'Model.WakeObs']
    quick_n = 900
    thorough_n = 4000
    rule = ('real Manager.run() thread + 1-3 real firing threads (1-3 events each) stepped line by line under a '
            'scheduler: fallback generator / Select / Poll / EPoll waiter, each without and with a timer-like '
            'generate_events handler (untimed and timed wait/select); schedules: systematic sweeps for all 8 '
            'configurations (a whole fire() after every visible loop action of start-up + first tick and of the tick '
            'processing the first wake-up; at every source line / lock / Event / select step of the generate_events '
            'handling), sampled windows, sticky runs with 0-3 pre-emptions in all thread orders, random walks with '
            'stickiness 0.5-0.95. non-trivial = a firing-thread step is directly followed by a loop step that is not '
            'the return of its idle wait')
    trusted_base = ['hand-written protocol model Model/Wake.v tied to /repo by replaying every observed trace (accepts)',
                    'scheduler, lock/Event/select/pipe doubles and source-line anchors in harness/c03.py',
                    'CPython executes one source line of the instrumented functions without a thread switch '
                    'that matters (at most one shared access per line, GIL)']
    assumptions = ['pre-emption at source-line granularity of the instrumented functions plus every lock/Event/select/pipe '
                   'operation; sub-line (bytecode) interleavings are not explored',
                   'select/poll/epoll are consulted with timeout 0 by the double; a blocking call is a parked thread',
                   'all events have equal priority']

    def __init__(self):
        self.stats = {}
        self._obs = {}

    # ---- cases
    def measure(self, mode, timer):
        """sizes of the sweep ranges for one configuration, from the undisturbed run: visible loop actions up to the
        first park (n1) and while processing the first wake-up (n2); position of the dispatcher call for
        generate_events in that second phase (jg) and the number of scheduler steps from there to the park (rg);
        scheduler steps of the whole phases (r1, r2)"""
        o = run_case({'mode': mode, 'timer': timer, 'threads': [2], 'tmo': 0, 'sched': {
            'kind': 'seg', 'order': [0, 1], 'segs': [[0, -1], [1, -2], [0, -1], [1, -1], [0, -1]]}})
        tr, ts = o['trace'], o['tsteps']
        k1 = next(i for i, x in enumerate(tr) if x[0] == 1)                       # first fire starts
        k2 = next(i for i in range(k1, len(tr)) if tr[i][0] == 0)                  # loop woken
        k3 = next(i for i in range(k2, len(tr)) if tr[i][0] == 1)                  # second fire starts
        kg = next(i for i in range(k2, k3) if tr[i][1][0] == 'Call' and tr[i][1][1][0] == 'G')
        return {'n1': k1, 'n2': k3 - k2, 'jg': kg - k2 + 1, 'rg': ts[k3] - ts[kg], 'r1': ts[k1],
                'r2': ts[k3] - ts[k2] + 1}

    def generate(self, rng, n, tier, with_sweep=True):
        cases = []
        cfgs = [(m, t) for m in ('fallback', 'select', 'poll', 'epoll') for t in (False, True)] if with_sweep else []
        # systematic sweeps: one whole fire() placed at every position of the loop thread, for every waiter,
        # without and WITH the timer-like handler (time_left > 0: the timed wait / timed select branches)
        sweep = []
        sizes = {}

        def sw(mode, timer, segs):
            sweep.append({'mode': mode, 'timer': timer, 'threads': [2], 'tmo': 0,
                          'sched': {'kind': 'seg', 'order': [0, 1], 'segs': segs}})
        for mode, timer in cfgs:
            z = self.measure(mode, timer)
            sizes['%s%s' % (mode, '+timer' if timer else '')] = z
            for j in range(0, z['n1'] + 1):        # after the j-th visible action of start-up / first tick / first park
                sw(mode, timer, [[0, j, 'v'], [1, -2], [0, -1], [1, -1], [0, -1]])
            for j in range(0, z['n2'] + 1):        # ... of the tick that processes the first wake-up
                sw(mode, timer, [[0, -1], [1, -2], [0, j, 'v'], [1, -2], [0, -1], [1, -1], [0, -1]])
            for r in range(0, z['rg'] + 2):        # every LINE of the generate_events handling of that tick (warm caches)
                sw(mode, timer, [[0, -1], [1, -2], [0, z['jg'], 'v'], [0, r], [1, -2], [0, -1], [1, -1], [0, -1]])
            if tier == 'thorough':
                for r in range(0, z['r1'] + 2):    # every line of start-up and first tick
                    sw(mode, timer, [[0, r], [1, -2], [0, -1], [1, -1], [0, -1]])
                for r in range(0, z['r2'] + 2):    # every line of the second tick
                    sw(mode, timer, [[0, -1], [1, -2], [0, r], [1, -2], [0, -1], [1, -1], [0, -1]])
                for i in range(1, 14):             # a fire() cut in two at each of its visible actions
                    for j in range(0, z['n2'] + 1):
                        sw(mode, timer, [[0, -1], [1, -2], [0, j, 'v'], [1, i, 'v'], [0, -1], [1, -1], [0, -1]])
        if with_sweep:
            self.stats['sweep_sizes'] = sizes
            self.stats['sweep_cases'] = len(sweep)
        cases += sweep
        for i in range(max(150, n - len(sweep)) if tier == 'quick' else n):
            mode, timer = CONFIGS[i % len(CONFIGS)]
            threads = list(rng.choice(THREADS if tier == 'thorough' else THREADS[:5]))
            nt = len(threads) + 1
            r = rng.random()
            if r < 0.45:
                # windows: the loop is somewhere inside a tick when (part of) a fire() runs
                second = 1 if threads[0] >= 2 or nt == 2 else 2
                b = rng.choice([[-2], [rng.randint(1, 13), 'v'], [rng.randint(1, 30)]])
                c = rng.choice([[-1], [-1], [rng.randint(0, 20), 'v']])
                if rng.random() < 0.7:
                    segs = [[0, -1], [1, -2], [0, rng.randint(0, 33), 'v'], [second] + b, [0] + c, [second, -1],
                            [0, -1]]
                else:
                    segs = [[0, rng.randint(0, 28), 'v'], [1] + b, [0] + c, [1, -1], [0, -1]]
                sch = {'kind': 'seg', 'segs': segs, 'order': list(range(nt))}
            elif r < 0.7:
                order = list(range(nt))
                rng.shuffle(order)
                k = rng.choice([0, 1, 1, 2, 2, 3])
                sw = sorted([rng.randint(0, 420), rng.randint(0, nt - 1)] for _ in range(k))
                sch = {'kind': 'pre', 'order': order, 'sw': sw}
            else:
                sch = {'kind': 'rnd', 'seed': rng.randint(0, 10 ** 9), 'stick': rng.choice([0.5, 0.8, 0.9, 0.95])}
            cases.append({'mode': mode, 'timer': timer, 'threads': threads, 'sched': sch,
                          'tmo': rng.choice([0, 0, 1, 2])})
        return cases

    def search(self, rng, tier):
        return self.generate(rng, 300 if tier == 'quick' else 3000, 'quick', with_sweep=False)

    # ---- implementation
    def impl(self, case):
        obs = run_case(case)
        self._obs[common.canon(case)] = obs
        st = self.stats
        st['runs'] = st.get('runs', 0) + 1
        st['controlled_steps'] = st.get('controlled_steps', 0) + obs['steps']
        st['visible_actions'] = st.get('visible_actions', 0) + len(obs['trace'])
        if obs.get('teardown'):
            st['teardown_problems'] = st.get('teardown_problems', 0) + 1
        e = 'end_' + obs['verdict']['end']
        st[e] = st.get(e, 0) + 1
        mk = 'mode_' + case['mode'] + ('+timer' if case.get('timer') else '')
        st[mk] = st.get(mk, 0) + 1
        sk = 'sched_' + case['sched']['kind']
        st[sk] = st.get(sk, 0) + 1
        # where in the loop's cycle the foreign appends landed (last visible loop action before the append)
        hist = st.setdefault('foreign_append_after_loop_action', {})
        last = 'start'
        for t, l in obs['trace']:
            if t == 0:
                last = l[0]
            elif l[0] == 'AppF':
                hist[last] = hist.get(last, 0) + 1
        return obs

    # ---- model
    def model_term(self, case):
        obs = self._obs.get(common.canon(case))
        if obs is None or not isinstance(obs, dict) or 'trace' not in obs:
            return None
        return self.case_term(case, obs)

    def case_term(self, case, obs):
        tr = '; '.join('(%d, %s)' % (t, coq_lbl(l)) for t, l in obs['trace'])
        return 'obs_trace %s [%s]%%nat' % ('Fallback' if case['mode'] == 'fallback' else 'Poller', tr)

    def obs_for_model(self, case, obs):
        if isinstance(obs, dict) and '__crash__' in obs:
            return [-999]
        if obs['missing_anchors']:
            return [-5]
        v = obs['verdict']
        return [-1, [list(x) for x in obs['log']], v['pending'], v['gcount'], bool(v['blocked'])]

    # ---- oracle: the property read on the real run
    def oracle(self, case, obs):
        if isinstance(obs, dict) and '__crash__' in obs:
            return None
        v = obs['verdict']
        if obs['errors']:
            return 'run failed: %s' % '; '.join(obs['errors'])
        if v['end'] == 'lost-wakeup':
            return ('lost wake-up: loop parked in %s (timeout %s), events %s of returned fire() calls are queued and no '
                    'thread can move' % (v['wait'], v['timeout'], v['queued']))
        if v['end'] in ('deadlock', 'loop-terminated', 'step-limit'):
            return 'run ended with %s: %s' % (v['end'], v)
        log = [tuple(x) for x in obs['log']]
        if len(set(log)) != len(log):
            return 'an event was dispatched twice: %s' % log
        for t, n in enumerate(case['threads']):
            got = [k for (tt, k) in log if tt == t]
            if got != list(range(n)):
                return 'thread %d fired 0..%d, dispatched %s' % (t, n - 1, got)
        return None

    def nontrivial(self, case, obs):
        """some firing-thread step is directly followed by a loop step that is not the return of the idle wait:
        the loop was really interleaved with a fire()"""
        if not isinstance(obs, dict) or 'trace' not in obs:
            return False
        tr = obs['trace']
        return any(tr[i][0] != 0 and tr[i + 1][0] == 0 and tr[i + 1][1][0] not in ('Wait', 'Select')
                   and tr[i][1][0] != 'Ret' for i in range(len(tr) - 1))


if __name__ == '__main__':
    sys.exit(common.main(C03()))
