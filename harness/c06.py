"""C06 — call()/wait() resume the caller exactly once with the result, leaving no residue.

A case is an acyclic program of scripted handlers over event names 0..K-1 (a handler of name i refers only to
names > i), a list of root fires and a task-set schedule:

  {'H': {"<nm>": [hspec, ...]},      handlers of event e<nm>, highest priority first (all above the temporary ones)
   'roots': [[tick, nm], ...],       events fired by the harness right before tick `tick`
   'gen': 0|1,                       manager "running" (generate_events fired every tick; needed for timeouts)
   'rot': [r0, r1, ...],             tick t iterates the task set in insertion order rotated by rot[t % len]
   'n': ticks to run,
   'perturb': k}                     (optional) k dummy objects are allocated before the run: shifts addresses, hence set orders
  hspec: {'t': 'p', 'v': val|None, 'r': bool}                     plain handler: returns v or raises
         val: 1..9 (produced as v + 100*token) or a falsy non-None result 0 | False | '' (produced as it is)
         {'t': 'g', 'c': 0|1, 'st': [step, ...]}                  generator handler; c = catches TimeoutError
  step:  ['y', v|None] | ['call', nm, tmo|None] | ['wo', nm] | ['wn', nm, tmo|None, fire] | ['r'] | ['f', nm]

Every fired event instance gets a token (1, 2, ... in firing order) that is passed to its handlers.
Observable = the global log
  [0,tok,i] plain handler i of instance tok        [1,tok,i,k] generator handler i of tok starts step k
  [2,tok,i,k,vals,err] resumed in step k with the callee's Value     [3,tok,i,k] TimeoutError caught in step k
  [8,tok,i,k] TimeoutError not caught    [4,tok,i] generator returned    [5,tok,nm,by,how] instance tok of e<nm> fired
  by instance `by` (0 = harness; how 0 fire, 1 call, 2 wait(obj), 3 fire before wait(name))
  [6,tok,vals,err] e_success of tok dispatched     [7,t] tick t starts     [10,tok] tok dispatched
plus the root Values and the residue (temporary handlers by kind, tasks, queue) after the last tick.
"""
import sys, os, threading, json
sys.path.insert(0, os.path.dirname(os.path.abspath(__file__)))
import common
from common import Prop

from circuits import Component, Event, handler
import circuits.core.manager as cmanager

CTimeout = getattr(cmanager, 'TimeoutError', TimeoutError)


class Scripted(RuntimeError):
    pass


class OrderedTasks(set):
    """stand-in for the root's task *set*: iteration order = insertion order rotated by `rot`
    (the real set iterates in address order; the property quantifies over that order)"""

    def __init__(self, keyof=None):
        set.__init__(self)
        self.order = []
        self.rot = 0
        self.keyof = keyof
        self.recorded = None

    def add(self, t):
        if t not in self:
            set.add(self, t)
            self.order.append(t)

    def remove(self, t):
        set.remove(self, t)
        self.order.remove(t)

    def discard(self, t):
        if t in self:
            self.remove(t)

    def copy(self):
        o = list(self.order)
        k = self.rot % len(o) if o else 0
        o = o[k:] + o[:k]
        if self.keyof is not None and self.recorded is None:
            self.recorded = [self.keyof(t) for t in o]      # the schedule of this tick, handed to the model
        return o

    def __iter__(self):
        return iter(self.copy())


FALSY = [0, False, '']          # falsy non-None handler results; they carry no instance token


def real_val(v, tok):
    """the Python value a scripted handler produces for spec value v in instance tok"""
    return v + 100 * tok if (type(v) is int and v > 0) else v


def val_code(v, tok):
    """the tagged code of that value in the observable (None / 0 / False / '' are all distinguished)"""
    if type(v) is int and v > 0:
        return v + 100 * tok
    if v is False:
        return -11
    if type(v) is int and v == 0:
        return -10
    if v == '':
        return -12
    raise ValueError(v)


def enc_value(x):
    v = x.value

    def one(i):
        if i is False:
            return -11
        if isinstance(i, bool):
            return -3
        if isinstance(i, int):
            return i if i != 0 else -10
        if isinstance(i, str):
            return -12 if i == '' else -2
        if isinstance(i, tuple):
            return -1          # exc_info triple
        return -2
    if v is None:
        return []
    if isinstance(v, list):
        return [one(i) for i in v]
    return [one(v)]


def run_case(case):
    # allocation perturbation: shifts object addresses, hence the iteration order of the sets of (equal-priority) handlers
    junk = [bytearray(17 * (i % 7 + 1)) for i in range(case.get('perturb', 0))]
    junk2 = [object() for _ in range(case.get('perturb', 0) % 13)]
    log = []
    H = case['H']
    names = sorted(int(k) for k in H)
    tokc = [0]

    class App(Component):
        channel = 'app'

        @handler('exception')
        def _on_exc(self, *a, **k):
            pass

    app = App()

    fired = []

    def mkev(nm, by, how):
        tokc[0] += 1
        tok = tokc[0]
        ev = Event.create('e%d' % nm, tok)
        ev.success = True
        fired.append(ev)
        log.append([5, tok, nm, by, how])
        return ev, tok

    def mk_plain(nm, i, hd):
        def fn(self, tok):
            log.append([0, tok, i])
            if hd['r']:
                raise Scripted('scripted')
            return None if hd['v'] is None else real_val(hd['v'], tok)
        return fn

    registry = {}      # id(handler generator) -> (generator, token, handler index)

    def keyof(task):
        ev, g, parent = task
        if parent is None:
            r = registry.get(id(g))
            return [r[1], r[2], 0] if r else [0, 0, 3]
        r = registry.get(id(parent))
        # a suspended handler has at most one outstanding task of its own (its wait generator or its pending TimeoutError),
        # so the task is named by its parent alone - no look at what kind of generator object the implementation uses for it
        return [r[1], r[2], 1] if r else [0, 0, 3]

    def mk_gen(nm, i, hd):
        def fn(self, tok):
            g = body(self, tok)
            registry[id(g)] = (g, tok, i)
            return g

        def body(self, tok):
            for k, st in enumerate(hd['st']):
                log.append([1, tok, i, k])
                op = st[0]
                if op == 'y':
                    yield None if st[1] is None else real_val(st[1], tok)
                elif op == 'r':
                    raise Scripted('scripted')
                elif op == 'f':
                    ev, t2 = mkev(st[1], tok, 0)
                    self.fire(ev)
                else:
                    try:
                        if op == 'call':
                            ev, t2 = mkev(st[1], tok, 1)
                            kw = {} if st[2] is None else {'timeout': st[2]}
                            x = yield self.call(ev, **kw)
                        elif op == 'wo':
                            ev, t2 = mkev(st[1], tok, 2)
                            self.fire(ev)
                            x = yield self.wait(ev)
                        else:
                            if st[3]:
                                ev, t2 = mkev(st[1], tok, 3)
                                self.fire(ev)
                            kw = {} if st[2] is None else {'timeout': st[2]}
                            x = yield self.wait('e%d' % st[1], **kw)
                        log.append([2, tok, i, k, enc_value(x), 1 if x.errors else 0])
                    except CTimeout:
                        if hd.get('c'):
                            log.append([3, tok, i, k])
                        else:
                            log.append([8, tok, i, k])
                            raise
            log.append([4, tok, i])
        return fn

    for nm in names:
        hs = H[str(nm)]
        for i, hd in enumerate(hs):
            f = (mk_plain if hd['t'] == 'p' else mk_gen)(nm, i, hd)
            f.__name__ = 'h_%d_%d' % (nm, i)
            app.addHandler(handler('e%d' % nm, priority=len(hs) - i)(f))

    def on_succ(self, ev, *a):
        log.append([6, ev.args[0], enc_value(ev.value), 1 if ev.value.errors else 0])

    def on_any(self, tok):
        log.append([10, tok])
    if names:
        app.addHandler(handler(*['e%d_success' % nm for nm in names])(on_succ))
        app.addHandler(handler(*['e%d' % nm for nm in names], priority=1000)(on_any))

    tasks = OrderedTasks(keyof)
    common.set_tasks(app, tasks)
    app._running = bool(case['gen'])
    app._executing_thread = threading.current_thread()

    def snap():
        hd = getattr(app, '_handlers', {})
        return {k: len(v) for k, v in hd.items() if v}
    h0 = snap()
    rootvals = []
    sched = []
    rot = case.get('rot') or [0]
    for t in range(case['n']):
        for (tt, nm) in case['roots']:
            if tt == t:
                ev, tok = mkev(nm, 0, 0)
                rootvals.append((tok, app.fire(ev)))
        log.append([7, t])
        tasks.rot = rot[t % len(rot)]
        tasks.recorded = None
        app.tick(0)
        sched.append(tasks.recorded or [])
    h1 = snap()
    kinds = [0, 0, 0, 0]       # e<k>, e<k>_done, generate_events, anything else
    for k in set(h0) | set(h1):
        d = h1.get(k, 0) - h0.get(k, 0)
        if k == 'generate_events':
            kinds[2] += d
        elif k.endswith('_done'):
            kinds[1] += d
        elif k[:1] == 'e' and k[1:].isdigit():
            kinds[0] += d
        else:
            kinds[3] += abs(d)
    try:
        ntasks = len(common.get_tasks(app))
    except Exception:
        ntasks = len(tasks)
    return {'log': log, 'roots': [[tok, enc_value(v), 1 if v.errors else 0] for tok, v in rootvals],
            'residue': kinds[:3] + [ntasks, len(app), len([e for e in fired if getattr(e, 'waitingHandlers', 0) != 0])],
            'other': kinds[3], 'sched': sched}


MC_CHANNELS = ['a', 'b', 'c']
MC_TICKS = 14


def run_mc(case):
    """call()/wait() on several channels (layer model Model/WaitChannels.v + oracle).  A waiter component on channel 'app' plus one
    component per channel a, b, c with a plain handler of e1 (returns 1, 2, 3; with 'craise' the one on the first channel the
    event goes to raises).  wait: the event is fired by the harness on the channels case['fire'] three ticks after the wait
    began; call: the waiter fires it itself on case['chans'].  'tmo' = timeout or None, 'araise' = the waiter raises right after
    having been resumed.  Observable: the waiter's log, the handler-table difference, the task set size; and, tied to
    Model/WaitChannels.v: how and in which loop iteration after the installation the waiter was resumed, the temporaries installed
    two iterations after the installation and at the end."""
    wlog = []
    when_ = []
    cur = [0]
    chans, fire = list(case['chans']), list(case.get('fire') or [])
    tmo, craise, araise = case.get('tmo'), bool(case.get('craise')), bool(case.get('araise'))
    goes_to = chans if case['op'] == 'call' else fire
    bad_ch = goes_to[0] if (craise and goes_to) else None

    class e1(Event):
        pass

    class Waiter(Component):
        channel = 'app'

        @handler('go')
        def go(self):
            kw = {} if tmo is None else {'timeout': tmo}
            try:
                if case['op'] == 'call':
                    x = yield self.call(e1(), *chans, **kw)
                else:
                    x = yield self.wait('e1', *chans, **kw)
                when_.append(cur[0])
                wlog.append([2, sorted(enc_value(x)), 1 if x.errors else 0])
            except CTimeout:
                when_.append(cur[0])
                wlog.append([3])
            if araise:
                raise Scripted('scripted')
            yield 5

        @handler('exception')
        def _on_exc(self, *a, **k):
            pass

    def mk(ch, v):
        class C(Component):
            channel = ch

            @handler('e1')
            def _e1(self):
                if ch == bad_ch:
                    raise Scripted('scripted')
                return v
        return C()

    app = Waiter()
    for i, ch in enumerate(MC_CHANNELS):
        mk(ch, i + 1).register(app)
    app._executing_thread = threading.current_thread()
    app._running = True
    for _ in range(4):
        app.tick(0)

    def snap():
        return {k: len(v) for k, v in getattr(app, '_handlers', {}).items() if v}

    def temporaries(h):
        return [h.get('e1', 0) - h0.get('e1', 0), h.get('e1_done', 0) - h0.get('e1_done', 0),
                h.get('generate_events', 0) - h0.get('generate_events', 0)]
    h0 = snap()
    app.fire(Event.create('go'))
    for t in range(3):                 # t = 0: go dispatched; t = 1: the wait is installed; t = 2
        cur[0] = t
        app.tick(0)
    hmid = snap()
    if case['op'] == 'wait' and fire:
        app.fire(e1(), *fire)
    for t in range(3, 3 + MC_TICKS):
        cur[0] = t
        app.tick(0)
    h1 = snap()
    diff = sorted([k, h1.get(k, 0) - h0.get(k, 0)] for k in set(h0) | set(h1) if h1.get(k, 0) != h0.get(k, 0))
    kind = wlog[0][0] if wlog else 0
    when = (when_[0] - 1) if when_ else 0
    return {'mc': [wlog, diff, len(getattr(app, '_tasks', []))],
            'tied': [kind, when, temporaries(hmid), temporaries(h1), 0]}


def mc_chan(c):
    return 'CStar' if c == '*' else 'CNamed %d%%nat' % MC_CHANNELS.index(c)


def mc_model_term(case):
    """the same scenario as a step sequence of Model/WaitChannels.v: per loop iteration after the wait was installed
    [one pass over the tasks,] the dispatches of that flush in queue order, generate_events"""
    chans, fire = list(case['chans']), list(case.get('fire') or [])
    dcs = chans if case['op'] == 'call' else fire

    def lst(l):
        return '[%s]' % '; '.join(mc_chan(c) for c in l)
    ticks = []
    for t in range(1, 3 + MC_TICKS):
        st = [] if t == 1 else ['RunTasks']
        if case['op'] == 'call':
            if t == 1:
                st.append('Dispatch 1%%nat %s' % lst(dcs))
            if t == 2:
                st.append('DispatchDone 1%%nat %s' % lst(dcs))
        elif fire:
            if t == 3:
                st.append('Dispatch 1%%nat %s' % lst(dcs))
            if t == 4:
                st.append('DispatchDone 1%%nat %s' % lst(dcs))
        st.append('Tick')
        ticks.append('[%s]' % '; '.join(st))
    tmo = case.get('tmo')
    return 'obs_mc %s %s (%d) [%s] 2%%nat' % (lst(chans), '(Some 1%nat)' if case['op'] == 'call' else 'None',
                                              -1 if tmo is None else tmo, '; '.join(ticks))


def mc_match(hc, dc):
    return hc == '*' or dc == '*' or hc == dc


def mc_expect(case):
    """what the property statement demands of a multi-channel case -> (expected waiter log, expected handler-table difference)"""
    chans, fire = list(case['chans']), list(case.get('fire') or [])
    tmo = case.get('tmo')
    goes_to = chans if case['op'] == 'call' else fire
    hit = case['op'] == 'call' or any(mc_match(c, d) for c in chans for d in fire)
    if tmo == 0 or (tmo is not None and not hit):
        return [[3]], []
    if not hit:
        return [], None       # still waiting, legitimately: how many handlers that takes is the implementation's business
    vals, errs = [], 0
    for i, ch in enumerate(MC_CHANNELS):          # the components whose handler of e1 the event reaches
        if any(mc_match(ch, d) for d in goes_to):
            if case.get('craise') and ch == goes_to[0]:
                vals.append(-1)
                errs = 1
            else:
                vals.append(i + 1)
    return [[2, sorted(vals), errs]], []


def mc_cases():
    out = []
    for op in ('call', 'wait'):
        for chans in (['a'], ['a', 'b'], ['b', 'a'], ['a', 'b', 'c'], ['c', 'a']):
            fires = [[]] if op == 'call' else [[], [chans[0]], [chans[-1]], list(chans), ['c'], ['b', 'c']]
            for fire in fires:
                hit = op == 'call' or bool(set(fire) & set(chans))
                for tmo in ([None, 0, 9] if hit else [None, 0, 2]):
                    for craise in ((0, 1) if (op == 'call' or fire) else (0,)):
                        for araise in (0, 1):
                            out.append({'k': 'mc', 'op': op, 'chans': chans, 'fire': fire, 'tmo': tmo, 'craise': craise, 'araise': araise})
    for chans, fire in ((['*'], ['b']), (['a', 'b'], ['*']), (['*', 'a'], ['a']), (['b', '*'], ['c', 'a']), (['a'], ['*', 'a'])):
        for tmo in (None, 0, 9):
            out.append({'k': 'mc', 'op': 'wait', 'chans': chans, 'fire': fire, 'tmo': tmo, 'craise': 0, 'araise': 0})
    for chans in (['*'], ['a', '*']):
        out.append({'k': 'mc', 'op': 'call', 'chans': chans, 'fire': [], 'tmo': 9, 'craise': 0, 'araise': 0})
    return out


# ------------------------------------------------------------------------------------- case generation

TMOS = [0, 1, 3]


def cost_bound(case):
    H = case['H']
    memo = {}

    def cname(nm):
        if nm in memo:
            return memo[nm]
        memo[nm] = 0
        best = 0
        for hd in H.get(str(nm), []):
            if hd['t'] == 'g':
                c = 2
                for st in hd['st']:
                    if st[0] == 'y':
                        c += 1
                    elif st[0] == 'call':
                        c += max(cname(st[1]), (st[2] or 0)) + 4
                    elif st[0] == 'wo':
                        c += cname(st[1]) + 4
                    elif st[0] == 'wn':
                        c += max(cname(st[1]), (st[2] or 0)) + 4
                    elif st[0] == 'f':
                        c += cname(st[1])
                best = max(best, c)
        memo[nm] = best + 2
        return memo[nm]
    mr = max([t for t, _ in case['roots']] or [0])
    return mr + sum(cname(nm) for _, nm in case['roots']) + 8


MAXTICKS = 110


def gen_case(rng, tier):
    """programs whose static bound on the time to quiescence exceeds MAXTICKS are drawn again"""
    while True:
        case = gen_case1(rng, tier)
        if case['n'] <= MAXTICKS:
            return case


def gen_val(rng, pnone):
    """a handler result: None, a truthy int 1..9, or one of the falsy non-None values"""
    x = rng.random()
    if x < pnone:
        return None
    if x < pnone + 0.3:
        return rng.choice(FALSY)
    return rng.randint(1, 9)


def gen_case1(rng, tier):
    K = rng.randint(2, 5)
    H = {}
    want_roots = []
    need_gen = False
    raising = rng.random() < 0.22
    timeouts = rng.random() < 0.45
    for nm in range(K):
        hs = []
        nh = rng.choice([0, 1, 1, 1, 2, 2, 3]) if nm else rng.choice([1, 1, 2, 3])
        for i in range(nh):
            if nm == K - 1 or rng.random() < 0.3:
                if rng.random() < 0.6 or nm < K - 1:
                    r = raising and rng.random() < 0.3
                    hs.append({'t': 'p', 'v': gen_val(rng, 0.2), 'r': bool(r)})
                    continue
            st = []
            for _ in range(rng.choice([0, 1, 1, 2, 2, 3, 4])):
                x = rng.random()
                tgt = rng.randint(nm + 1, K - 1) if nm < K - 1 else None
                tmo = rng.choice(TMOS + [2, 5]) if (timeouts and rng.random() < 0.6) else None
                if tgt is None or x < 0.30:
                    st.append(['y', gen_val(rng, 0.25)])
                elif x < 0.62:
                    st.append(['call', tgt, tmo])
                elif x < 0.72:
                    st.append(['wo', tgt])
                elif x < 0.86:
                    fire = rng.random() < 0.6
                    if not fire:
                        if tmo is None:
                            tmo = rng.choice(TMOS + [6])
                        if rng.random() < 0.7:
                            want_roots.append(tgt)
                    st.append(['wn', tgt, tmo, fire])
                elif x < 0.93:
                    st.append(['f', tgt])
                elif raising:
                    st.append(['r'])
                else:
                    st.append(['y', gen_val(rng, 0.0)])
                if st[-1][0] in ('call', 'wn') and st[-1][2] is not None:
                    need_gen = True
            hs.append({'t': 'g', 'c': 1 if rng.random() < 0.7 else 0, 'st': st})
        H[str(nm)] = hs
    roots = [[rng.randint(0, 2), rng.randint(0, min(1, K - 1))] for _ in range(rng.choice([1, 1, 2, 3]))]
    for nm in want_roots:
        roots.append([rng.randint(0, 8), nm])
    roots.sort()
    case = {'H': H, 'roots': roots, 'gen': 1 if (need_gen or rng.random() < 0.3) else 0,
            'rot': [rng.randint(0, 3) for _ in range(rng.randint(1, 4))] if rng.random() < 0.6 else [0]}
    case['n'] = cost_bound(case)
    return case


# ------------------------------------------------------------------------------------- Coq literals

def zlit(v):
    return '(%d)' % v


def ozlit(v):
    """spec value -> option Z of the model: positive ints as they are (the model adds the token), falsy values as their tags"""
    return 'None' if v is None else '(Some %s)' % zlit(v if (type(v) is int and v > 0) else val_code(v, 0))


def step_lit(st):
    op = st[0]
    if op == 'y':
        return 'SYield %s' % ozlit(st[1])
    if op == 'call':
        return 'SCall %d%%nat %s' % (st[1], zlit(-1 if st[2] is None else st[2]))
    if op == 'wo':
        return 'SWaitObj %d%%nat' % st[1]
    if op == 'wn':
        return 'SWaitName %d%%nat %s %s' % (st[1], zlit(-1 if st[2] is None else st[2]), 'true' if st[3] else 'false')
    if op == 'r':
        return 'SRaise'
    if op == 'f':
        return 'SFire %d%%nat' % st[1]
    raise ValueError(op)


def prog_lit(H):
    K = max([int(k) for k in H] + [-1]) + 1
    rows = []
    for nm in range(K):
        hs = []
        for hd in H.get(str(nm), []):
            if hd['t'] == 'p':
                hs.append('HPlain %s %s' % (ozlit(hd['v']), 'true' if hd['r'] else 'false'))
            else:
                hs.append('HGen %s [%s]' % ('true' if hd.get('c') else 'false', '; '.join(step_lit(s) for s in hd['st'])))
        rows.append('[%s]' % '; '.join(hs))
    return '[%s]' % '; '.join(rows)


def flat(o, out):
    if isinstance(o, (list, tuple)):
        out.append(1)
        for x in o:
            flat(x, out)
        out.append(0)
    else:
        out.append(int(o) + 3)
    return out


def obs_hash(o):
    l = flat(o, [])
    h1, h2 = 7, 7
    for x in l:
        h1 = (h1 * 31 + x) & 1099511627775
        h2 = (h2 * 37 + x) & 2147483647
    return [h1, h2, len(l)]


# ------------------------------------------------------------------------------------- oracle helpers

class Trace:
    """the log of one run, indexed the way the property statement talks about it"""

    def __init__(self, case, obs):
        self.case, self.log = case, obs['log']
        H = case['H']
        self.fired = {}        # tok -> (nm, by, how, idx)
        self.disp = {}         # tok -> idx
        self.entries = {}      # tok -> [(idx, entry)] handler entries
        self.tick_at = []      # idx of tick markers
        self.succ = {}         # tok -> [(idx, vals, err)]
        for idx, e in enumerate(self.log):
            k = e[0]
            if k == 5:
                self.fired[e[1]] = (e[2], e[3], e[4], idx)
            elif k == 10:
                self.disp[e[1]] = idx
            elif k == 7:
                self.tick_at.append(idx)
            elif k == 6:
                self.succ.setdefault(e[1], []).append((idx, e[2], e[3]))
            elif k in (0, 1, 2, 3, 4, 8):
                self.entries.setdefault(e[1], []).append((idx, e))

    def hspec(self, tok, i):
        return self.case['H'][str(self.fired[tok][0])][i]

    def step(self, tok, i, k):
        return self.hspec(tok, i)['st'][k]

    def produced(self, tok, upto=None):
        """values the handlers of instance tok produced (in order) before log index `upto`; -1 = a raise"""
        out = []
        for idx, e in self.entries.get(tok, []):
            if upto is not None and idx >= upto:
                break
            if e[0] == 0:
                hd = self.hspec(tok, e[2])
                if hd['r']:
                    out.append(-1)
                elif hd['v'] is not None:
                    out.append(val_code(hd['v'], tok))
            elif e[0] == 1:
                st = self.step(tok, e[2], e[3])
                if st[0] == 'y' and st[1] is not None:
                    out.append(val_code(st[1], tok))
                elif st[0] == 'r':
                    out.append(-1)
            elif e[0] == 8:
                out.append(-1)
        return out

    def gen_raised(self, tok):
        """a generator handler of instance tok raised (scripted raise or uncaught TimeoutError)"""
        for idx, e in self.entries.get(tok, []):
            if e[0] == 8 or (e[0] == 1 and self.step(tok, e[2], e[3])[0] == 'r'):
                return True
        return False

    def finished_before(self, tok, upto):
        """every handler of instance tok has run to its end (returned / raised) before log index upto"""
        if tok not in self.disp or self.disp[tok] >= upto:
            return 'instance %d not dispatched yet' % tok
        hs = self.case['H'][str(self.fired[tok][0])]
        started, ended = set(), set()
        for idx, e in self.entries.get(tok, []):
            if idx >= upto:
                return 'handler %d of instance %d still runs (entry %r) after the resumption' % (e[2], tok, e)
            started.add(e[2])
            if e[0] in (0, 4, 8) or (e[0] == 1 and self.step(tok, e[2], e[3])[0] == 'r'):
                ended.add(e[2])
        if started != set(range(len(hs))):
            return 'handlers %r of instance %d were not invoked' % (sorted(set(range(len(hs))) - started), tok)
        if ended != started:
            return 'handlers %r of instance %d have not finished' % (sorted(started - ended), tok)
        return None

    def suspensions(self):
        """[(tok, i, k, idx, step, callee-token-or-None)]"""
        out = []
        for tok, es in self.entries.items():
            for idx, e in es:
                if e[0] != 1:
                    continue
                st = self.step(tok, e[2], e[3])
                if st[0] not in ('call', 'wo', 'wn'):
                    continue
                callee = None
                if st[0] in ('call', 'wo'):
                    nx = self.log[idx + 1]
                    callee = nx[1] if nx[0] == 5 and nx[3] == tok else -1
                out.append((tok, e[2], e[3], idx, st, callee))
        return sorted(out, key=lambda s: s[3])

    def first_dispatch_after(self, nm, idx):
        best = None
        for tok, d in self.disp.items():
            if d > idx and self.fired[tok][0] == nm and (best is None or d < self.disp[best]):
                best = tok
        return best

    def ticks_between(self, a, b):
        return len([t for t in self.tick_at if a < t < b])


def check_trace(case, obs):
    """-> (unexplained failures, failures explained by a raising generator handler)"""
    tr = Trace(case, obs)
    bad, stuck_fail = [], []
    # tokens whose completion is blocked by a generator handler that raised: they and, transitively, their waiters
    blocked = set(t for t in tr.fired if tr.gen_raised(t))
    sus = tr.suspensions()
    resolved = {}
    for (tok, i, k, idx, st, callee) in sus:
        if callee is None:
            callee = tr.first_dispatch_after(st[1], idx)
        resolved[(tok, i, k)] = callee
    changed = True
    while changed:
        changed = False
        for (tok, i, k, idx, st, callee) in sus:
            c = resolved[(tok, i, k)]
            if c in blocked and tok not in blocked and (st[0] == 'wo' or st[2] is None):
                # a waiter without timeout on a blocked instance is blocked itself
                blocked.add(tok)
                changed = True
    unresumed = 0
    for (tok, i, k, idx, st, callee0) in sus:
        callee = resolved[(tok, i, k)]
        res = [(j, e) for j, e in tr.entries[tok] if e[0] in (2, 3, 8) and e[2] == i and e[3] == k]
        tmo = st[2] if st[0] in ('call', 'wn') else None
        where = 'handler %d of instance %d, step %d (%s e%d%s)' % (i, tok, k, st[0], st[1],
                                                                    '' if tmo is None else ', timeout=%d' % tmo)
        if len(res) == 0:
            if callee is None and tmo is None:
                continue        # nothing of that name was ever dispatched after the wait began: still waiting, legitimately
            msg = '%s was never resumed' % where
            if callee in blocked and tmo is None:
                stuck_fail.append(msg)
                unresumed += 1
            else:
                bad.append(msg)
            continue
        if len(res) > 1:
            bad.append('%s was resumed %d times' % (where, len(res)))
            continue
        j, e = res[0]
        if j < idx:
            bad.append('%s resumed before it suspended' % where)
        if e[0] == 2:
            if callee is None or callee == -1:
                bad.append('%s resumed with a result although no matching event was dispatched' % where)
                continue
            nf = tr.finished_before(callee, j)
            if nf:
                bad.append('%s resumed too early: %s' % (where, nf))
            exp = tr.produced(callee, j)
            if e[4] != exp or e[5] != (1 if -1 in exp else 0):
                bad.append('%s received value %r errors=%d, the handlers of instance %d produced %r' % (
                    where, e[4], e[5], callee, exp))
        else:
            if tmo is None:
                bad.append('%s got TimeoutError without a timeout' % where)
            elif tr.ticks_between(idx, j) < tmo:
                bad.append('%s got TimeoutError after %d loop iterations, timeout=%d' % (where, tr.ticks_between(idx, j), tmo))
    # completion of every dispatched instance: value, success
    rootval = {r[0]: r for r in obs['roots']}
    for tok in sorted(tr.disp):
        exp = tr.produced(tok)
        errs = 1 if -1 in exp else 0
        fin = tr.finished_before(tok, len(tr.log))
        succ = tr.succ.get(tok, [])
        if tok in rootval and (rootval[tok][1] != exp or rootval[tok][2] != errs):
            bad.append('Value of root instance %d is %r errors=%d, its handlers produced %r' % (
                tok, rootval[tok][1], rootval[tok][2], exp))
        if len(succ) > 1:
            bad.append('instance %d completed %d times' % (tok, len(succ)))
        if fin is not None:
            msg = 'instance %d never completed: %s' % (tok, fin)
            if tok in blocked:
                stuck_fail.append(msg)
            elif not any(tr.fired[tok][0] == s[4][1] for s in sus if resolved[(s[0], s[1], s[2])] is None):
                bad.append(msg)
            continue
        if not errs:
            if len(succ) != 1:
                bad.append('instance %d finished without error but e_success was dispatched %d times' % (tok, len(succ)))
            else:
                j, vals, er = succ[0]
                last = max([x for x, _ in tr.entries.get(tok, [])] + [tr.disp[tok]])
                if j < last:
                    bad.append('e_success of instance %d dispatched before its last handler step' % tok)
                if vals != exp or er != 0:
                    bad.append('e_success of instance %d carries %r, handlers produced %r' % (tok, vals, exp))
    # quiescence: no residue
    res = obs['residue']
    legit_waiting = len([1 for (tok, i, k, idx, st, c0) in sus
                         if resolved[(tok, i, k)] is None and st[0] == 'wn' and st[2] is None
                         and not [1 for j, e in tr.entries[tok] if e[0] in (2, 3, 8) and e[2] == i and e[3] == k]])
    legit_inst = len(set(tok for (tok, i, k, idx, st, c0) in sus
                         if resolved[(tok, i, k)] is None and st[0] == 'wn' and st[2] is None
                         and not [1 for j, e in tr.entries[tok] if e[0] in (2, 3, 8) and e[2] == i and e[3] == k]))
    exp_res = [legit_waiting, legit_waiting, 0, 0, 0, legit_inst]
    if res != exp_res or obs.get('other'):
        msg = ('residue at quiescence: temporary handlers [name, name_done, generate_events] = %r, tasks = %d, queue = %d, '
               'events still holding waitingHandlers = %d (expected %r)' % (res[:3], res[3], res[4], res[5], exp_res))
        if unresumed and res[:5] == [legit_waiting, legit_waiting + unresumed, 0, 0, 0] and not obs.get('other'):
            stuck_fail.append(msg)
        else:
            bad.append(msg)
    return bad, stuck_fail


class C06(Prop):
    id = 'C06'
    props_file = 'Props/C06.v'
    imports = ['Model.KTasks', 'Model.KTasksObs', 'Model.WaitChannels', 'Model.WaitChannelsObs']
    quick_n = 320
    thorough_n = 6000
    rule = ('acyclic programs over <= 5 event names (call depth <= 4): plain handlers (return/raise) and generator handlers with '
            '0-4 steps out of yield / call(e[,timeout]) / wait(obj) / wait(name[,timeout]) with or without own fire / fire / raise, '
            'TimeoutError caught or not, results from None / 1..9 / 0 / False / \'\' at every return and yield position (tagged in the observable), timeouts {0,1,2,3,5,6}, 1-3 roots fired at ticks 0-2 plus late fires of waited-for names, '
            'task-set order rotated per tick; driven through the real Manager.tick(). non-trivial = at least one call/wait suspension')
    trusted_base = ['hand-written model Model/KTasks.v (of the code with fixes/C06_*.patch applied) tied to the repo by this correspondence run',
                    'python oracle in harness/c06.py (reads only the log written by the scripted handlers, root Values, handler/task tables)']
    assumptions = ['one component / one channel; user handlers have distinct priorities above the temporary handlers',
                   'liveness (the caller IS eventually resumed) and "only after the last handler step of the callee" are checked by the '
                   'oracle on the generated programs, not proved; the theorems hold under bad = false (checked per case by K)']

    def __init__(self):
        self.stats = {}
        self._sched = {}

    def generate(self, rng, n, tier):
        cases = [gen_case(rng, tier) for _ in range(n)]
        kinds = {}
        for c in cases:
            for hs in c['H'].values():
                for hd in hs:
                    if hd['t'] == 'g':
                        for st in hd['st']:
                            key = st[0] + ('+tmo' if st[0] in ('call', 'wn') and st[2] is not None else '')
                            kinds[key] = kinds.get(key, 0) + 1
                    else:
                        kinds['plain'] = kinds.get('plain', 0) + 1
        # the same programs again after a different amount of dummy allocation (see run_case)
        npert = 40 if tier != 'thorough' else 800
        pert = []
        for i in range(min(npert, len(cases))):
            c = dict(cases[(i * 7) % len(cases)])
            c['perturb'] = rng.choice([1, 3, 10, 50, 200, 1000])
            pert.append(c)
        cases = cases + pert
        mc = mc_cases()
        if tier != 'thorough':
            mc = rng.sample(mc, 70)
        self.stats = {'distribution': {'step_kinds': kinds, 'cases': len(cases), 'multi_channel_cases': len(mc), 'allocation_perturbed_copies': len(pert),
                                       'with_generate_events': len([c for c in cases if c['gen']]),
                                       'multi_root': len([c for c in cases if len(c['roots']) > 1]),
                                       'rotated_schedules': len([c for c in cases if c['rot'] != [0]])}}
        return cases + mc

    def impl(self, case):
        if case.get('k') == 'mc':
            return run_mc(case)
        obs = run_case(case)
        self._sched[common.canon(case)] = obs['sched']
        return obs

    def sched_of(self, case):
        """the task-set iteration order of every tick, recorded from the implementation run (schedule input of the model)"""
        key = common.canon(case)
        if key not in self._sched:
            obs = self.safe_impl(case)
            self._sched[key] = obs.get('sched', []) if isinstance(obs, dict) else []
        return self._sched[key]

    def model_args(self, case):
        roots = '[%s]' % '; '.join('(%d%%nat, %d%%nat)' % (t, nm) for t, nm in case['roots'])
        sch = self.sched_of(case)
        while sch and not sch[-1]:
            sch = sch[:-1]
        scheds = '[%s]' % '; '.join('[%s]' % '; '.join('(%d, %d, %d)%%nat' % tuple(k) for k in ks) for ks in sch)
        return '%s %s %s %s %d%%nat' % (prog_lit(case['H']), 'true' if case['gen'] else 'false', scheds, roots, case['n'])

    def model_term(self, case):
        if case.get('k') == 'mc':
            return mc_model_term(case)          # the layer model Model/WaitChannels.v
        return 'hash_run ' + self.model_args(case)

    def full_obs(self, case, obs):
        return [obs['log'], obs['roots'], obs['residue'] + [0]]

    def obs_for_model(self, case, obs):
        if isinstance(obs, dict) and '__crash__' in obs:
            return [-999]
        if case.get('k') == 'mc':
            return obs['tied']
        return obs_hash(self.full_obs(case, obs))

    def oracle(self, case, obs):
        if isinstance(obs, dict) and '__crash__' in obs:
            return None
        if case.get('k') == 'mc':
            wlog, diff, ntasks = obs['mc']
            elog, ediff = mc_expect(case)
            what = '%s(e1, %s%s), event on %r' % (case['op'], ', '.join(case['chans']),
                                                '' if case.get('tmo') is None else ', timeout=%d' % case['tmo'],
                                                case['chans'] if case['op'] == 'call' else case.get('fire'))
            if wlog != elog:
                return 'multi-channel %s: the waiting handler logged %r (2 = resumed with value/errors, 3 = TimeoutError), expected %r' % (what, wlog, elog)
            if (ediff is not None and diff != ediff) or ntasks:
                return 'multi-channel %s: handler table differs from before by %r (expected %r), %d tasks left' % (what, diff, ediff, ntasks)
            return None
        bad, stuck = check_trace(case, obs)
        if bad:
            return bad[0]
        if stuck:
            return 'gen-raise: ' + stuck[0]
        return None

    def finding_class(self, case, obs, what):
        if case.get('k') == 'mc':
            return None
        if what.startswith('gen-raise: ') and not (isinstance(obs, dict) and '__crash__' in obs):
            bad, stuck = check_trace(case, obs)
            if not bad and stuck:
                return 'C06-gen-raise'
        return None

    def nontrivial(self, case, obs):
        if case.get('k') == 'mc':
            return True
        return any(st[0] in ('call', 'wo', 'wn') for hs in case['H'].values() for hd in hs if hd['t'] == 'g' for st in hd['st'])

    def search(self, rng, tier):
        return [gen_case(rng, 'thorough') for _ in range(1500)]


if __name__ == '__main__':
    sys.exit(common.main(C06()))
