"""Regenerates /verif/MANIFEST.json from the per-property table below."""
import json, os
V = os.path.dirname(os.path.dirname(os.path.abspath(__file__)))
ALL = ['C%02d' % i for i in range(1, 21)]
NOTE = ('Trusted: Coq 8.16.1 kernel; the hand-written Gallina model is tied to /repo by the correspondence run '
        '(model evaluated by vm_compute inside Coq against the implementation on the same generated cases, every run); '
        'generators, implementation drivers and the Python oracle are trusted for that tie only. ')
CLAIMS = {
 'C18': dict(
    text='Theorems (all segmentations, all socket interleavings, all accepted IRC messages) about executable models of '
         'splitLines/Line._on_read and irc Message._check_args/__str__/parsemsg; the independent stream description used by C18_lines_exact is total and unique (C18_stream_decomposes, C18_decomposition_unique), giving byte conservation for every cut of every stream (C18_lines_conserve, per socket C18_server_conserve); any number of accepted IRC messages under any cut arrive as one line each, in order (C18_message_stream); closed under the global context. '
         'The assurance is the weaker of the proof and the differential tie.',
    design='§6 C18',
    note=NOTE + 'IRC round trip is proved for canonical messages only (known finding C18-irc-roundtrip).',
    technique='Coq proof over hand-written model (induction over chunk list; streaming law for \\r?\\n split) + model/impl correspondence by vm_compute + python oracle'),
}
def main():
    d = os.path.join(V, 'harness', 'claims')
    if os.path.isdir(d):
        for f in sorted(os.listdir(d)):
            if f.endswith('.json'):
                CLAIMS[f[:-5]] = json.load(open(os.path.join(d, f)))
    checks = []
    integrated = set(open(os.path.join(V, 'harness', 'integrated.txt')).read().split())
    for pid in ALL:
        if pid not in integrated or pid not in CLAIMS or not os.path.exists(os.path.join(V, 'harness', pid.lower() + '.py')):
            continue
        c = CLAIMS[pid]
        checks.append({
            'property_id': pid,
            'quick_cmd': './check %s --tier quick' % pid,
            'thorough_cmd': './check %s --tier thorough' % pid,
            'evidence_file': 'evidence/%s.json' % pid,
            'replay_cmd_template': './check %s --replay {path}' % pid,
            'engine': 'coq-model-correspondence',
            'level_claimed': {'category': 'proof', 'text': c['text'], 'design_ref': c['design']},
            'level_note': (c['note'] if c['note'].startswith('Trusted') else NOTE + c['note']),
            'technique': c['technique'],
        })
    claimed = {c['property_id'] for c in checks}
    m = {
        'version': 1,
        'setup_cmd': './setup.sh',
        'hooks': {'guard': 'CIRCUITS_VERIF_HOOKS', 'enable': 'no source hooks: the harness replaces module globals from its own process',
                  'baseline_off_cmd': 'cd /repo && /venv/bin/python -m pytest -ra -q -p no:cacheprovider --timeout=900 --continue-on-collection-errors',
                  'source_commits': [], 'add_only': True},
        'engines': [{'name': 'coq-model-correspondence', 'path': 'harness/common.py', 'serves_properties': sorted(claimed),
                     'kind_free_text': 'Coq 8.16.1 theorems over hand-written executable models + per-run model/implementation correspondence (vm_compute) + implementation-side oracle'}],
        'checks': checks,
        'notes': 'See DESIGN.md. known_findings.json lists recorded defects and fixed ones.',
        'not_applicable': [{'property_id': p, 'reason': 'check not built yet in this session (no claim made); see DESIGN.md §6 for the planned model'}
                           for p in ALL if p not in claimed],
    }
    json.dump(m, open(os.path.join(V, 'MANIFEST.json'), 'w'), indent=1)
    print('claimed', sorted(claimed))
if __name__ == '__main__':
    main()
