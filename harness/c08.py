"""C08 — run()/stop(): started once, everything queued is drained, stopped once, exit code propagates.

A case is a program of scripted handlers on one root component plus a top-level script:

  {'h':   [[kind, [body, ...]], ...]      kind: 0 started, 1 stopped, 3 exception, 10+n user event e<n>;
                                          bodies in priority order (10, 9, ...)
   'ext': [['n'] | ['f', n] | ['s', code, mode]]  what a second thread does, one entry per idle wait of the loop;
                                          mode=2 (early): the stopping thread is parked on entry of its
                                          fire(stopped), i.e. after `_running = False; _exit_code = code`, until
                                          run() has returned -- only when the loop sits in the *timed* idle wait
                                          (in the unbounded wait the loop cannot move, the entry is then joined);
                                          mode=1 (late): the stopping thread is pre-empted right after its fire(stopped)
                                          returned (the loop is awake by then) and executes the rest of stop() only
                                          after run() has returned in the checking thread (controlled pre-emption:
                                          a wrapper around manager.fire parks exactly that thread; bounded waits are
                                          liveness guards only)
   'mid': [None | ['s', code]]             one entry per generate_events fired by tick(): ['s', code] = a second
                                          thread's whole stop(code) lands between tick()'s `if self._running` and
                                          that fire (the harness' manager.fire wrapper is the hook)
   'ops': [['run'] | ['stop', code] | ['setrun'] | ['fire', n] | ['flush'] | ['len']]}
  body: {'t': 'p', 'a': [act...], 'r': res}   plain handler
        {'t': 'g', 's': [[[act...], res], ...]}  generator handler, one entry per next()
  act:  ['f', thr, n]  fire e<n>      ['s', thr, code]  stop(code)     (thr=1: from a second thread, joined)
        ['c', thr, code, j]  stop(code) called on registered child component j (a manager that never ran)
  'comps': number of child components registered on the root (0-2); a body may carry 'o': j = its handler is a
           method of child j (default 0 = the root); ext entry ['c', code, j] = child j's stop(code) from the second thread
  res:  ['y'] yield | ['r'] return | ['x', code] raise SystemExit(code) | ['k'] KeyboardInterrupt | ['e'] error

A second kind of case, {'kind': 'preempt', 'h': ..., 'code': c, 'ops': [['run'], ['len']]}, is oracle-only: the RUN
thread is held (sys.settrace line events in circuits/core code) before every line of the tick that goes idle and a
second thread's stop(c) is placed there; the wait double then really blocks until woken (see run_preempt).

The same case is compiled to a real circuits Component (impl) and to a Coq term (model_term).
Observable = the flat log (same alphabet as Model/KLoop.tr without the ghost TFire):
  [1,k] dispatch of k | [2,k,i] plain handler | [3,k,i,g] generator created | [4,g,j] generator step |
  [5,code] stop request | [6,code] SystemExit in the second thread | [7,inf] idle wait | [8] tick |
  [9,None|[[code]]] run()/stop() returned / raised SystemExit | [10,n] len(manager) |
  [11] the stopping second thread is parked after fire(stopped) | [12] ... before fire(stopped) |
  [13,code] stop(code) called on a child | [14] ... and it raised SystemExit into its caller (never in the model)
run() executes in the checking thread; circuits.core.helpers.Event is replaced by a wait double that never
blocks: every wait is the deterministic point at which the second thread performs the next 'ext' entry.
"""
import sys, os, threading, signal as _signal
sys.path.insert(0, os.path.dirname(os.path.abspath(__file__)))
import common
from common import Prop

from circuits import Component, Event, handler
import circuits.core.helpers as _helpers

MAXTICKS = 200
MAXWAITS = 60
MAXDISP = 4000
NUSER = 5


class Scripted(RuntimeError):
    pass


class Runaway(BaseException):
    pass


def in_thread(fn):
    box = []

    def target():
        try:
            fn()
        except SystemExit as e:
            box.append(('exit', e.code))
        except BaseException as e:      # noqa
            box.append(('err', type(e).__name__))
    t = threading.Thread(target=target)
    t.start()
    t.join(20)
    if t.is_alive():
        raise Runaway('second thread does not return')
    return box


class Ctx:
    """state of one case run, shared with the wait double"""
    cur = None


class VEvent:
    """stand-in for threading.Event in circuits.core.helpers: never blocks, never raises"""

    def __init__(self):
        self.flag = False

    def clear(self):
        self.flag = False

    def set(self):
        self.flag = True

    def is_set(self):
        return self.flag

    def wait(self, timeout=None):
        c = Ctx.cur
        if c is None:
            return self.flag
        if c.runaway:
            # the only way out of `while event.time_left < 0: wait()` once nothing can wake the loop any more
            # (the dispatcher swallows it; the next tick() of the wrapper ends the run)
            raise Runaway('idle wait of a loop that cannot be woken')
        try:
            c.on_wait(timeout)
        except Runaway:
            c.runaway = True
            raise
        return self.flag


GUARD = 1.0          # liveness guard of the blocking wait double (pre-emption scenarios): never the mechanism


class BlockingVEvent:
    """wait double of the pre-emption scenarios ('kind': 'preempt'): the unbounded idle wait really blocks until
    the wake flag is set (that a stop() always sets it is the point of these scenarios); GUARD only turns a loop
    that is never woken into the complaint "run() does not return" """

    def __init__(self):
        self._e = threading.Event()

    def clear(self):
        self._e.clear()

    def set(self):
        self._e.set()

    def is_set(self):
        return self._e.is_set()

    def wait(self, timeout=None):
        c = Ctx.cur
        if c is None or c.pre is None:
            return self._e.is_set()
        if c.runaway:
            raise Runaway('idle wait of a loop that cannot be woken')
        pre = c.pre
        if pre['armed']:
            pre['armed'] = False
            if pre.get('idle_tick') is None:      # the counting run: this tick is the one that goes idle
                pre['idle_tick'] = c.ticks
                pre['nlines'] = pre['count']
                pre['ntop'] = pre['count_top']
        inf = not (timeout is not None and timeout < 1000)
        c.log.append([7, inf])
        if pre.get('pending_release'):
            pre['pending_release'] = False
            c.finish_late()
        if not pre['injected']:
            pre['injected'] = True
            c.do_stop(1, pre['code'])     # no line left: the stop arrives while the loop waits (as in all other cases)
        if not inf:
            return self._e.is_set()
        if self._e.wait(GUARD):
            return True
        c.runaway = True
        c.hung = True
        raise Runaway('the idle loop was not woken by stop()')


class Driver:
    runaways = 0        # after a few runaway cases (a broken loop) the per-case budget shrinks

    def __init__(self, case):
        self.case = case
        self.log = []
        self.ext = [list(x) for x in case.get('ext', [])]
        self.ticks = 0
        self.waits = 0
        self.runaway = False
        self.ngen = 0
        self.ndisp = 0
        self.late = None
        self.pre = None
        self.mid = [None if m is None else list(m) for m in case.get('mid', [])]
        self.hung = False
        self.serial = 0
        self.fired = {}
        self.dispatched = set()
        self.marks = []
        self.app = self.build()

    # -- the component
    def build(self):
        drv = self
        log = self.log
        d = {'channel': '*'}

        def _all(self, event, *args, **kwargs):
            drv.ndisp += 1
            if drv.ndisp > MAXDISP:
                drv.runaway = True
            if drv.runaway:
                return          # the next tick() ends the run; no more work, no more tracebacks
            nm = event.name
            k = {'started': 0, 'stopped': 1, 'generate_events': 2, 'exception': 3}.get(nm)
            if k is None and nm[:1] == 'e' and nm[1:].isdigit():
                k = 10 + int(nm[1:])
            if k is None:
                k = -5
            log.append([1, k])
            s = getattr(event, 'c08_serial', None)
            if s is not None:
                drv.dispatched.add(s)
        d['_all'] = handler(priority=1000)(_all)

        def mk_plain(k, i, b):
            def fn(self, *args, **kwargs):
                if drv.runaway:
                    return
                log.append([2, k, i])
                drv.do_acts(b['a'])
                drv.finish(b['r'])
            return fn

        def mk_gen(k, i, b):
            def fn(self, *args, **kwargs):
                if drv.runaway:
                    return
                g = drv.ngen
                drv.ngen += 1
                log.append([3, k, i, g])
                return gen(g)

            def gen(g):
                for j, (acts, r) in enumerate(b['s']):
                    if drv.runaway:
                        return
                    log.append([4, g, j])
                    drv.do_acts(acts)
                    if r[0] == 'y':
                        yield
                    elif r[0] == 'r':
                        return
                    else:
                        drv.finish(r)
            return fn

        ncomp = int(self.case.get('comps', 0))
        kids = [{'channel': '*'} for _ in range(ncomp)]
        for k, bodies in self.case['h']:
            name = {0: 'started', 1: 'stopped', 3: 'exception'}.get(k, 'e%d' % (k - 10))
            for i, b in enumerate(bodies):
                fn = mk_plain(k, i, b) if b['t'] == 'p' else mk_gen(k, i, b)
                fn.__name__ = 'h_%d_%d' % (k, i)
                o = b.get('o', 0)
                (d if not (o and ncomp) else kids[(o - 1) % ncomp])[fn.__name__] = handler(name, priority=10 - i)(fn)
        App = type('App', (Component,), d)
        app = App()
        self.kids = []
        for j, dk in enumerate(kids):
            kid = type('Child%d' % (j + 1), (Component,), dk)()
            kid.register(app)
            self.kids.append(kid)
        n = 0
        while len(app) and n < 20:       # the `registered` events: out of the way before the script starts
            app.flush()
            n += 1
        del log[:]
        drv.ndisp = 0
        orig_tick = app.tick

        def tick(*a, **kw):
            drv.ticks += 1
            if drv.ticks > (MAXTICKS if Driver.runaways < 6 else 40) or drv.runaway:
                drv.runaway = True
                raise Runaway('too many ticks')
            log.append([8])
            pre = drv.pre
            if pre is not None and pre['injected'] and not pre.get('pending_release'):
                pre['armed'] = False
            if pre is not None and not pre['injected'] and pre.get('nlines') is None:
                if pre['k'] is None and pre['armed']:       # counting run: the previous tick did not go idle
                    pre['per_tick'].append(pre['count_top'])
                if pre['k'] is None or drv.ticks == pre['tick']:
                    pre['armed'] = True       # count / pre-empt the line events of this tick
                    pre['count'] = 0
                    pre['count_top'] = 0
            return orig_tick(*a, **kw)
        app.tick = tick
        drv.tick_wrapper_code = tick.__code__
        orig_fire = app.fire

        def fire(event, *channels, **kw):
            if (drv.mid and getattr(event, 'name', None) == 'generate_events'
                    and (drv.late is None or threading.current_thread() is not drv.late['thread'])):
                # tick() has tested `self._running` and is about to fire generate_events: a second thread's whole
                # stop(code) lands exactly here
                m = drv.mid.pop(0)
                if m is not None:
                    drv.do_stop(1, m[1])
            L = drv.late
            mine = (L is not None and not L['parked'] and threading.current_thread() is L['thread']
                    and getattr(event, 'name', None) == 'stopped')
            if mine and L['early']:
                # pre-emption point 'early': inside stop(), both writes done, `stopped` not yet queued
                L['parked'] = True
                log.append([12])
                L['evt'].set()
                if not L['release'].wait(30):      # liveness guard, never the mechanism
                    L['timed_out'] = True
                return orig_fire(event, *channels, **kw)
            r = orig_fire(event, *channels, **kw)
            if mine:
                # pre-emption point 'late': fire(stopped) has returned inside stop(), the loop has been woken
                L['parked'] = True
                log.append([11])
                L['evt'].set()
                if not L['release'].wait(30):
                    L['timed_out'] = True
            return r
        app.fire = fire
        return app

    def new_event(self, n):
        if self.serial > 2000:
            self.runaway = True
            raise Runaway('too many events')
        ev = Event.create('e%d' % n)
        ev.c08_serial = self.serial
        self.fired[self.serial] = n
        self.serial += 1
        return ev

    def do_stop(self, thr, code):
        if self.runaway:
            return
        self.log.append([5, None if code is None else [code]])
        if thr:
            for kind, v in in_thread(lambda: self.app.stop(code)):
                if kind == 'exit':
                    self.log.append([6, v if isinstance(v, int) else -777])
                else:
                    self.log.append([6, -778])
        else:
            self.app.stop(code)

    def late_stop(self, code, early=False):
        """stop(code) by a second thread that loses the race: parked after fire(stopped), released after run()"""
        if self.runaway:
            return
        self.log.append([5, None if code is None else [code]])
        box = []
        evt = threading.Event()

        def target():
            try:
                self.app.stop(code)
            except SystemExit as e:
                box.append(('exit', e.code))
            except BaseException as e:      # noqa
                box.append(('err', type(e).__name__))
            finally:
                evt.set()
        t = threading.Thread(target=target)
        self.late = {'thread': t, 'evt': evt, 'release': threading.Event(), 'box': box, 'parked': False, 'early': early,
                     'timed_out': False}
        t.start()
        if not evt.wait(30):
            self.runaway = True
        if not self.late['parked']:
            self.finish_late()       # the stop was not effective (or did not fire): nothing to pre-empt

    def finish_late(self):
        L = self.late
        if L is None:
            return
        L['release'].set()
        L['thread'].join(30)
        if L['thread'].is_alive() or L['timed_out']:
            self.runaway = True
        self.late = None
        for kind, v in L['box']:
            self.log.append([6, v if kind == 'exit' and isinstance(v, int) else -778])

    def do_child_stop(self, thr, code, j):
        if self.runaway or not self.kids:
            return
        kid = self.kids[(j - 1) % len(self.kids)]
        self.log.append([13, None if code is None else [code]])
        if thr:
            for kind, v in in_thread(lambda: kid.stop(code)):
                self.log.append([14])
        else:
            try:
                kid.stop(code)
            except SystemExit:
                self.log.append([14])
                raise

    def do_acts(self, acts):
        for a in acts:
            if a[0] == 'c':
                self.do_child_stop(a[1], a[2], a[3] if len(a) > 3 else 1)
            elif a[0] == 'f':
                ev = self.new_event(a[2])
                if a[1]:
                    in_thread(lambda: self.app.fire(ev))
                else:
                    self.app.fire(ev)
            else:
                self.do_stop(a[1], a[2])

    def finish(self, r):
        if r[0] == 'x':
            self.log.append([5, None if r[1] is None else [r[1]]])
            raise SystemExit(r[1])
        if r[0] == 'k':
            self.log.append([5, None])
            raise KeyboardInterrupt()
        if r[0] == 'e':
            raise Scripted('scripted failure')

    # -- the idle wait
    def on_wait(self, timeout):
        self.waits += 1
        if self.waits > (MAXWAITS if Driver.runaways < 6 else 12):
            raise Runaway('too many waits')
        inf = not (timeout is not None and timeout < 1000)
        self.log.append([7, inf])
        if self.ext:
            x = self.ext.pop(0)
            if x[0] == 'f':
                ev = self.new_event(x[1])
                in_thread(lambda: self.app.fire(ev))
            elif x[0] == 'c':
                self.do_child_stop(1, x[1], x[2] if len(x) > 2 else 1)
            elif x[0] == 's':
                if len(x) > 2 and x[2] == 1:
                    self.late_stop(x[1])
                elif len(x) > 2 and x[2] == 2 and not inf:
                    self.late_stop(x[1], early=True)
                else:
                    self.do_stop(1, x[1])
        elif inf:
            self.do_stop(1, None)      # last resort: nobody else will ever stop this loop

    # -- the top-level script
    def run_ops(self):
        app, log = self.app, self.log
        for op in self.case['ops']:
            start = len(log)
            nfired0 = self.serial
            info = {'op': op[0], 'start': start}
            if self.runaway:
                break
            if op[0] == 'run':
                old = [_signal.getsignal(_signal.SIGINT), _signal.getsignal(_signal.SIGTERM)]
                info['was_running'] = bool(app.running)
                try:
                    try:
                        app.run()
                        out = None
                    except SystemExit as e:
                        out = [[e.code if isinstance(e.code, int) else -777]] if e.code is not None else [None]
                    except Runaway:
                        self.runaway = True
                        out = 'runaway'
                finally:
                    try:
                        _signal.signal(_signal.SIGINT, old[0])
                        _signal.signal(_signal.SIGTERM, old[1])
                    except (ValueError, TypeError):
                        pass
                if self.runaway:
                    info['runaway'] = True
                else:
                    log.append([9, out])
                info['ret'] = len(log)
                info['qlen'] = len(app)
                info['undispatched'] = sorted(s for s in self.fired if s not in self.dispatched)
                info['still_running'] = bool(app.running)
                self.finish_late()      # now the pre-empted stopping thread executes the rest of stop()
            elif op[0] == 'stop':
                info['was_running'] = bool(app.running)
                info['qlen_before'] = len(app)
                log.append([5, None if op[1] is None else [op[1]]])
                try:
                    app.stop(op[1])
                    log.append([9, None])
                except SystemExit as e:
                    log.append([9, [[e.code if isinstance(e.code, int) else -777]] if e.code is not None else [None]])
                except Runaway:
                    self.runaway = True
                info['qlen'] = len(app)
            elif op[0] == 'setrun':
                app._running = True
            elif op[0] == 'fire':
                app.fire(self.new_event(op[1]))
            elif op[0] == 'flush':
                n = 0
                while len(app) and n < MAXTICKS:
                    app.flush()
                    n += 1
                if len(app):
                    self.runaway = True
            elif op[0] == 'len':
                log.append([10, len(app)])
            info['end'] = len(log)
            self.marks.append(info)


CIRC_DIR = os.path.dirname(os.path.abspath(_helpers.__file__))     # .../circuits/core


def lock_owned(app):
    """does the calling (run) thread hold the manager's lock?"""
    f = getattr(getattr(app, '_lock', None), '_is_owned', None)
    try:
        return bool(f()) if f is not None else False
    except Exception:      # noqa
        return False


def make_tracer(drv):
    """line tracer of the run thread: scenario k holds it right before its k-th line event (in circuits/core code)
    of the tick that goes idle, lets a second thread run stop(code) -- to completion if the run thread does not
    hold the manager's lock; else up to the entry of its fire(stopped), and to completion at the first line event
    after the lock has been released (a second thread cannot get further earlier) -- and lets it go on"""
    pre = drv.pre

    def ltrace(frame, what, arg):
        if what == 'line' and pre['armed']:
            if pre.get('pending_release') and not lock_owned(drv.app):
                pre['pending_release'] = False
                drv.finish_late()
            top = frame.f_back is not None and frame.f_back.f_code is drv.tick_wrapper_code    # tick() itself
            pre['count'] += 1
            if top:
                pre['count_top'] += 1
            hit = (pre['count'] == pre['k']) if pre['scope'] == 'all' else (top and pre['count_top'] == pre['k'])
            if pre['k'] is not None and not pre['injected'] and hit:
                pre['injected'] = True
                pre['where'] = '%s+%d' % (frame.f_code.co_name, frame.f_lineno - frame.f_code.co_firstlineno)
                if lock_owned(drv.app):
                    pre['split'] = True
                    drv.late_stop(pre['code'], early=True)
                    pre['pending_release'] = drv.late is not None
                else:
                    drv.do_stop(1, pre['code'])
        return ltrace

    def gtrace(frame, what, arg):
        if what == 'call' and pre['armed'] and frame.f_code.co_filename.startswith(CIRC_DIR):
            return ltrace
        return None
    return gtrace


def run_case(case, pre=None):
    saved = _helpers.Event
    _helpers.Event = VEvent if pre is None else BlockingVEvent
    drv = Driver(case)
    drv.pre = pre
    Ctx.cur = drv
    if pre is not None:
        sys.settrace(make_tracer(drv))

    def on_alarm(signo, frame):        # watchdog: a loop that neither returns nor ticks
        drv.runaway = True
        raise Runaway('watchdog')
    old_alarm = None
    if threading.current_thread() is threading.main_thread():
        old_alarm = _signal.signal(_signal.SIGALRM, on_alarm)
        _signal.setitimer(_signal.ITIMER_REAL, 20, 1)
    try:
        try:
            drv.run_ops()
        except Runaway:
            drv.runaway = True
    finally:
        if pre is not None:
            sys.settrace(None)
        if drv.late is not None:
            drv.late['release'].set()
        if old_alarm is not None:
            _signal.setitimer(_signal.ITIMER_REAL, 0)
            _signal.signal(_signal.SIGALRM, old_alarm)
        Ctx.cur = None
        _helpers.Event = saved
    sched, cur = [], None
    for e in drv.log:
        if e[0] == 8:
            cur = []
            sched.append(cur)
        elif e[0] == 4 and cur is not None:
            cur.append(e[1])
        elif e[0] == 1:
            cur = None
    if drv.runaway and pre is None:
        Driver.runaways += 1
    return {'log': drv.log, 'marks': drv.marks, 'sched': sched, 'runaway': drv.runaway, 'hung': drv.hung}


def run_preempt(case):
    """'kind': 'preempt' -- oracle only (the model has no wake-up handshake).  One counting run (the stop arrives at
    the idle wait) finds the tick T that goes idle.  Then one fresh run per placement of a second thread's whole
    stop(code) right before a line event of the run thread:
      * every line event (any circuits/core frame) between entering tick() of tick T and entering the wait,
        with the case's code;
      * every line event of tick() itself (the frame called by the harness' wrapper: task loop, `_running` test,
        fire(generate_events), queue test, flush) in EVERY tick 1..T -- first tick, busy ticks, idle tick --
        with stop() and with stop(code)."""
    code = case.get('code')
    other = 3 if code is None else None

    def fresh(k, tick, scope, c):
        return {'k': k, 'tick': tick, 'scope': scope, 'code': c, 'armed': False, 'count': 0, 'count_top': 0,
                'injected': False, 'per_tick': []}
    pre0 = fresh(None, None, 'all', code)
    base = run_case(case, pre0)
    n, tick = pre0.get('nlines') or 0, pre0.get('idle_tick') or 0
    tops = list(pre0['per_tick'][:max(tick - 1, 0)]) + [pre0.get('ntop') or 0]
    scen = [{'k': 0, 'tick': tick, 'scope': 'wait', 'code': code, 'where': 'idle wait', 'log': base['log'],
             'marks': base['marks'], 'runaway': base['runaway'], 'hung': base['hung']}]
    plan = [(tick, 'all', k, code) for k in range(1, n + 1)] if case.get('scope') != 'top' else []
    for t, nt in enumerate(tops, 1):
        for k in range(1, nt + 1):
            plan.append((t, 'top', k, other))
            if t != tick:
                plan.append((t, 'top', k, code))
    nhung = 0
    for t, scope, k, c in plan:
        if nhung >= 4:
            break           # enough evidence; every further hang costs a whole guard interval
        pre = fresh(k, t, scope, c)
        o = run_case(case, pre)
        scen.append({'k': k, 'tick': t, 'scope': scope, 'code': c, 'where': pre.get('where', '?'),
                     'split': bool(pre.get('split')), 'log': o['log'], 'marks': o['marks'], 'runaway': o['runaway'],
                     'hung': o['hung'], 'injected': 'where' in pre})
        nhung += bool(o['hung'])
    return {'kind': 'preempt', 'nlines': n, 'idle_tick': tick, 'tops': tops, 'scen': scen, 'log': [], 'marks': [],
            'sched': [], 'runaway': any(x['runaway'] for x in scen)}


# ----------------------------------------------------------------------------- Coq emission

def c_kind(k):
    return {0: 'KStarted', 1: 'KStopped', 2: 'KGE', 3: 'KExc'}.get(k) or '(KUser %d%%nat)' % (k - 10)


def c_code(c):
    return 'None' if c is None else '(Some (%d)%%Z)' % c


def c_bool(b):
    return 'true' if b else 'false'


def c_act(a):
    if a[0] == 'f':
        return 'AFire %s %d%%nat' % (c_bool(a[1]), a[2])
    if a[0] == 'c':
        return 'AStopChild %s %s' % (c_bool(a[1]), c_code(a[2]))
    return 'AStop %s %s' % (c_bool(a[1]), c_code(a[2]))


def c_res(r):
    return {'y': 'RYield', 'r': 'RRet', 'k': 'RKbd', 'e': 'RErr'}.get(r[0]) or '(RExit %s)' % c_code(r[1])


def c_acts(l):
    return '[%s]' % '; '.join(c_act(a) for a in l)


def c_body(b):
    if b['t'] == 'p':
        return 'BPlain %s %s' % (c_acts(b['a']), c_res(b['r']))
    return 'BGen [%s]' % '; '.join('(%s, %s)' % (c_acts(a), c_res(r)) for a, r in b['s'])


def c_op(o):
    return {'run': 'ORun', 'setrun': 'OSetRunning', 'flush': 'OFlush', 'len': 'OLen'}.get(o[0]) or (
        'OStop %s' % c_code(o[1]) if o[0] == 'stop' else 'OFire %d%%nat' % o[1])


def c_x(x):
    if x[0] == 'c':
        return 'XStopChild %s' % c_code(x[1])
    return {'n': 'XNop'}.get(x[0]) or ('XFire %d%%nat' % x[1] if x[0] == 'f' else
                                       'XStop %s %s' % (['PJoin', 'PLate', 'PEarly'][x[2] if len(x) > 2 else 0],
                                                        c_code(x[1])))


# ----------------------------------------------------------------------------- generator

CODES = [None, None, 0, 1, 3, 7, 9]


class Gen:
    def __init__(self, rng):
        self.rng = rng

    def acts(self, lo, fire_p=0.7, stop_p=0.05, nmax=3):
        r = self.rng
        out = []
        for _ in range(r.randint(0, nmax)):
            if r.random() < stop_p:
                out.append(['s', int(r.random() < 0.3), r.choice(CODES)])
            elif lo < NUSER and r.random() < fire_p:
                out.append(['f', int(r.random() < 0.2), r.randint(lo, NUSER - 1)])
        return out

    def res(self, plain, p_exc=0.12):
        r = self.rng
        if r.random() < p_exc:
            return r.choice([['x', r.choice(CODES)], ['k'], ['e'], ['x', r.choice(CODES)]])
        return ['r'] if plain or r.random() < 0.25 else ['y']

    def body(self, lo, allow_gen=True, p_exc=0.12, stop_p=0.05):
        r = self.rng
        if allow_gen and r.random() < 0.35:
            segs = []
            for _ in range(r.randint(1, 6)):
                rs = self.res(False, p_exc)
                segs.append([self.acts(lo, stop_p=stop_p), rs])
                if rs[0] != 'y':
                    break
            return {'t': 'g', 's': segs}
        return {'t': 'p', 'a': self.acts(lo, stop_p=stop_p), 'r': self.res(True, p_exc)}

    def case(self):
        r = self.rng
        h = {}
        h[0] = [self.body(0) for _ in range(r.randint(0, 2))]
        for n in range(NUSER):
            h[10 + n] = [self.body(n + 1) for _ in range(r.choice([0, 1, 1, 2]))]
        h[1] = [self.body(0, p_exc=0.08) for _ in range(r.choice([0, 0, 1, 2]))]
        if r.random() < 0.5:
            # exception handlers fire nothing (a raising handler downstream would make the program cyclic)
            h[3] = [{'t': 'p', 'a': self.acts(NUSER, stop_p=0.3, nmax=2), 'r': ['r']}]
        # the stop site
        place = r.choice(['started', 'chain', 'gen', 'thread', 'ext', 'exit', 'kbd', 'none', 'stopped', 'gen-exit'])
        code = r.choice(CODES)
        ext = []
        for _ in range(r.randint(0, 3)):
            ext.append(r.choice([['n'], ['f', r.randint(0, NUSER - 1)], ['f', r.randint(0, NUSER - 1)]]))

        def some_body(kinds, want):
            ks = [k for k in kinds if any(b['t'] == want for b in h.get(k, []))]
            if not ks:
                k = r.choice(kinds)
                b = ({'t': 'p', 'a': self.acts(0 if k < 10 else k - 9), 'r': ['r']} if want == 'p' else
                     {'t': 'g', 's': [[self.acts(0 if k < 10 else k - 9), ['y']] for _ in range(r.randint(1, 4))]})
                h.setdefault(k, []).append(b)
                return b
            return r.choice([b for b in h[r.choice(ks)] if b['t'] == want])

        users = [10 + n for n in range(NUSER)]
        if not h[0] and place != 'none':
            h[0] = [{'t': 'p', 'a': [['f', 0, 0], ['f', 0, r.randint(0, NUSER - 1)]], 'r': ['r']}]
        if place == 'started':
            b = some_body([0], 'p')
            b['a'].insert(r.randint(0, len(b['a'])), ['s', 0, code])
        elif place == 'chain':
            b = some_body(users, 'p')
            b['a'].insert(r.randint(0, len(b['a'])), ['s', 0, code])
        elif place == 'gen':
            b = some_body([0] + users, 'g')
            sg = r.choice(b['s'])
            sg[0].insert(r.randint(0, len(sg[0])), ['s', 0, code])
        elif place == 'thread':
            b = some_body([0] + users, r.choice(['p', 'g']))
            tgt = b['a'] if b['t'] == 'p' else r.choice(b['s'])[0]
            tgt.insert(r.randint(0, len(tgt)), ['s', 1, code])
        elif place == 'ext':
            ext.insert(r.randint(0, len(ext)), ['s', code if r.random() < 0.5 else r.choice([1, 3, 7]),
                                                int(r.random() < 0.6)])
        elif place == 'exit':
            b = some_body([0] + users, 'p')
            b['r'] = ['x', code]
        elif place == 'kbd':
            b = some_body([0] + users, 'p')
            b['r'] = ['k']
        elif place == 'gen-exit':
            b = some_body([0] + users, 'g')
            i = r.randrange(len(b['s']))
            b['s'][i][1] = r.choice([['x', code], ['k']])
            del b['s'][i + 1:]
        elif place == 'stopped':
            b = some_body([1], 'p')
            b['a'].insert(0, ['s', 0, code])        # stop() inside the stopped handler: not running any more
            ext.append(['s', r.choice(CODES), r.choice([0, 0, 0, 1, 1, 2])])
        # make sure the chain is reachable: started fires something
        if h[0] and r.random() < 0.8:
            b0 = h[0][0]
            tgt = b0['a'] if b0['t'] == 'p' else b0['s'][0][0]
            if not any(a[0] == 'f' for a in tgt):
                tgt.insert(0, ['f', 0, r.randint(0, 1)])
        ops = []
        if r.random() < 0.3:
            ops.append(['stop', r.choice(CODES)])
        ops += [['run'], ['len']]
        cycles = r.choice([1, 1, 2, 2, 3])
        for _ in range(cycles - 1):
            if r.random() < 0.4:
                ops.append(['stop', r.choice(CODES)])
            ops += [['run'], ['len']]
            ext += [r.choice([['n'], ['f', r.randint(0, NUSER - 1)], ['s', r.choice(CODES), r.choice([0, 0, 1, 1, 2])]])
                    for _ in range(r.randint(0, 2))]
        if r.random() < 0.3:
            ops.append(['stop', r.choice(CODES)])
        ops += [['flush'], ['len']]
        return {'h': sorted([k, v] for k, v in h.items() if v), 'ext': ext, 'ops': ops, 'place': place}

    def late_chain(self):
        """a generator that outlives stop() and keeps starting event chains during the fade-out / final ticks"""
        r = self.rng
        n = r.choice([2, 3, 4, 4])               # chain e1 -> e2 -> ... -> e<n>
        h = {0: [{'t': 'p', 'a': [['f', 0, 0]], 'r': ['r']}]}
        k_stop = r.choice([0, 0, 0, 1, 2])
        thr = int(r.random() < 0.4)
        # stop(code) with a code called by the generator itself kills it (SystemExit): mostly avoid that here
        code = r.choice(CODES) if thr or r.random() < 0.2 else None
        steps = []
        for j in range(r.randint(5, 16)):
            # nothing is fired up to the stop (else the main loop only ends once the generator is exhausted)
            acts = [['f', int(r.random() < 0.2), 1]] if r.random() < 0.85 and (j > k_stop or r.random() < 0.15) else []
            if j == k_stop:
                acts.insert(r.randint(0, len(acts)), ['s', thr, code])
            steps.append([acts, ['y']])
        if r.random() < 0.3:
            steps[-1][1] = r.choice([['r'], ['x', r.choice(CODES)], ['k'], ['e']])
        h[10] = [{'t': 'g', 's': steps}]
        for i in range(1, n):
            h[10 + i] = [{'t': 'p', 'a': [['f', 0, i + 1]] + ([['f', 0, i + 1]] if r.random() < 0.2 else []), 'r': ['r']}]
        if r.random() < 0.4:
            h[10 + n] = [self.body(NUSER, p_exc=0.2)]
        if r.random() < 0.3:
            h[1] = [self.body(1, p_exc=0.1)]
        cycles = r.choice([1, 2, 2])
        ops = []
        for _ in range(cycles):
            ops += [['run'], ['len']]
        ops += [['flush'], ['len']]
        return {'h': sorted([k, v] for k, v in h.items() if v), 'ext': [], 'ops': ops, 'place': 'late-chain'}

    def early_stop(self):
        """a second thread's stop while the loop sits in the timed idle wait (a generator task is pending and the
        queue is empty), pre-empted before its fire(stopped) (mode 2), after it (1) or not at all (0)"""
        r = self.rng
        h = {0: [{'t': 'p', 'a': [['f', 0, 0]], 'r': ['r']}]}
        quiet = r.randint(2, 4)                 # steps without fires: the loop idles with the task pending
        steps = [[[], ['y']] for _ in range(quiet)]
        for _ in range(r.randint(0, 6)):
            steps.append([[['f', 0, 1]] if r.random() < 0.5 else [], ['y']])
        h[10] = [{'t': 'g', 's': steps}]
        if r.random() < 0.6:
            h[11] = [self.body(2, p_exc=0.1)]
        if r.random() < 0.5:
            h[1] = [self.body(1, p_exc=0.1)]
        mode = r.choice([2, 2, 2, 1, 0])
        ext = [['n'] for _ in range(r.randint(0, quiet - 2))] + [['s', r.choice(CODES), mode]]
        cycles = r.choice([1, 1, 2])
        ops = []
        for i in range(cycles):
            ops += [['run'], ['len']]
            if i:
                ext += [['s', r.choice(CODES), r.choice([0, 1, 2])]]
        ops += [['flush'], ['len']]
        return {'h': sorted([k, v] for k, v in h.items() if v), 'ext': ext, 'ops': ops, 'place': 'early-stop'}

    def add_children(self, c):
        """turn a single-manager case into a component tree: handlers spread over root and children, and stop()
        calls on the children (which never ran) sprinkled over the bodies and the second thread's script"""
        r = self.rng
        n = c['comps'] = r.randint(1, 2)
        for k, bs in c['h']:
            for b in bs:
                if r.random() < 0.5:
                    b['o'] = r.randint(1, n)
                for acts in ([b['a']] if b['t'] == 'p' else [sg[0] for sg in b['s']]):
                    if r.random() < 0.3:
                        j = b.get('o') if b.get('o') and r.random() < 0.6 else r.randint(1, n)   # mostly self.stop()
                        acts.insert(r.randint(0, len(acts)), ['c', int(r.random() < 0.25), r.choice(CODES), j])
        if r.random() < 0.4:
            c['ext'].insert(r.randint(0, len(c['ext'])), ['c', r.choice(CODES), r.randint(1, n)])
        return c

    def child_stop(self):
        """root + 1-2 registered children; a chain started -> e0 -> e1 -> e2 whose handlers live on root and children
        and call stop()/stop(code) on a child: from the child's own handler, from the root's handler, from a second
        thread, before and after the root's own stop"""
        r = self.rng
        n = r.randint(1, 2)
        def cs(owner=None):
            j = owner if owner and r.random() < 0.7 else r.randint(1, n)
            return ['c', int(r.random() < 0.25), r.choice(CODES), j]
        h = {}
        L = r.randint(1, 3)
        h[0] = [{'t': 'p', 'a': [['f', 0, 0]], 'r': ['r'], 'o': r.randint(0, n)}]
        for i in range(L):
            o = r.randint(0, n)
            acts = [cs(o)] if r.random() < 0.7 else []
            if i + 1 < L:
                acts.insert(r.randint(0, len(acts)), ['f', 0, i + 1])
            else:
                acts.append(['s', 0, r.choice(CODES)] if r.random() < 0.7 else ['f', 0, 4])
                if r.random() < 0.5:
                    acts.append(cs(o))                  # after the root's own stop
            h[10 + i] = [{'t': r.choice(['p', 'p', 'g']), 'a': acts, 'r': ['r'], 'o': o}]
            if h[10 + i][0]['t'] == 'g':
                b = h[10 + i][0]
                b['s'] = [[[], ['y']]] * r.randint(0, 1) + [[b.pop('a'), ['y']]]
                del b['r']
        if r.random() < 0.6:
            h[1] = [{'t': 'p', 'a': [cs()] if r.random() < 0.6 else [], 'r': ['r'], 'o': r.randint(0, n)}]
        ext = []
        if r.random() < 0.5:
            ext.append(['c', r.choice(CODES), r.randint(1, n)])
        ext.append(['s', r.choice(CODES), r.choice([0, 0, 1])])
        ops = [['run'], ['len']] * r.choice([1, 1, 2]) + [['flush'], ['len']]
        return {'h': sorted([k, v] for k, v in h.items() if v), 'ext': ext, 'comps': n, 'ops': ops, 'place': 'child-stop'}

    def mid_script(self):
        r = self.rng
        j = r.choice([0, 0, 1, 1, 2, 3, 5])
        return [None] * j + [['s', r.choice(CODES)]] + ([['s', r.choice(CODES)]] if r.random() < 0.2 else [])

    def mid_stop(self):
        """a second thread's whole stop(code) lands in tick() between the `_running` test and fire(generate_events);
        mostly programs whose handlers fire nothing afterwards (generate_events then comes last in its batch with an
        empty queue on a stopped manager)"""
        r = self.rng
        h = {}
        quiet = r.random() < 0.7
        n = r.choice([0, 0, 1, 2, 3])                 # started -> e0 -> e1 ... chain of n events
        if r.random() < 0.6 or n:
            h[0] = [{'t': 'p', 'a': [['f', 0, 0]] if n else [], 'r': ['r']}]
        for i in range(n):
            h[10 + i] = [{'t': 'p', 'a': [['f', 0, i + 1]] if i + 1 < n else [], 'r': ['r']}]
        if r.random() < 0.6:
            h[1] = [{'t': 'p', 'a': [] if quiet else [['f', 0, 4]], 'r': ['r']}]
        if not quiet and r.random() < 0.5:
            h[14] = [self.body(NUSER, p_exc=0.1)]
        mid = [None] * r.randint(0, n + 1) + [['s', r.choice(CODES)]]
        cycles = r.choice([1, 1, 2])
        ops = []
        for i in range(cycles):
            ops += [['run'], ['len']]
            if i:
                mid += [None] * r.randint(0, 2) + [['s', r.choice(CODES)]]
        ops += [['flush'], ['len']]
        return {'h': sorted([k, v] for k, v in h.items() if v), 'ext': [], 'mid': mid, 'ops': ops, 'place': 'mid-stop'}

    def preempt(self):
        """a tiny program whose loop goes idle; the second thread's stop(code) is placed before every line event
        of the run thread in the tick that goes idle (see run_preempt)"""
        r = self.rng
        h = {}
        v = r.choice([0, 1, 2, 3, 4])
        if v in (1, 2):
            h[1] = [{'t': 'p', 'a': [['f', 0, 0]], 'r': ['r']}]       # stopped fires e0 (must still be dispatched)
            h[10] = [{'t': 'p', 'a': [], 'r': ['r']}]
        if v == 2:
            h[0] = [{'t': 'p', 'a': [['f', 0, 1]], 'r': ['r']}]       # the idle tick is not the first one
            h[11] = [{'t': 'p', 'a': [], 'r': ['r']}]
        if v == 3:                                                    # handlers that fire nothing
            h[0] = [{'t': 'p', 'a': [], 'r': ['r']}]
            h[1] = [{'t': 'p', 'a': [], 'r': ['r']}]
        if v == 4:                                                    # busy ticks before the idle one, quiet handlers
            h[0] = [{'t': 'p', 'a': [['f', 0, 1]], 'r': ['r']}]
            h[11] = [{'t': 'p', 'a': [['f', 0, 2]], 'r': ['r']}]
            h[12] = [{'t': 'p', 'a': [], 'r': ['r']}]
            h[1] = [{'t': 'p', 'a': [], 'r': ['r']}]
        return {'kind': 'preempt', 'h': sorted([k, b] for k, b in h.items()), 'ext': [], 'code': r.choice(CODES),
                'ops': [['run'], ['len']], 'place': 'preempt'}

    def manual(self):
        """the application-specific main loop: running without run(); stop() ticks inline"""
        r = self.rng
        h = {}
        for n in range(NUSER):
            h[10 + n] = [self.body(n + 1, p_exc=0.1, stop_p=0.1) for _ in range(r.choice([0, 1, 1, 2]))]
        h[1] = [self.body(0, p_exc=0.05) for _ in range(r.choice([0, 1]))]
        ops = [['setrun']] + [['fire', r.randint(0, 2)] for _ in range(r.randint(0, 3))]
        ops += [['stop', r.choice(CODES)], ['len'], ['stop', r.choice(CODES)], ['flush'], ['len']]
        return {'h': sorted([k, v] for k, v in h.items() if v), 'ext': [], 'ops': ops, 'place': 'manual'}


# ----------------------------------------------------------------------------- the check

class C08(Prop):
    id = 'C08'
    props_file = 'Props/C08.v'
    imports = ['Model.KLoop', 'Model.KLoopObs']
    quick_n = 260
    thorough_n = 12000
    rule = ('random programs of scripted plain/generator handlers on started, stopped, exception and 5 user events '
            '(acyclic firing), with one deliberately placed stop site (started / mid-chain / generator step / second '
            'thread inside a handler / second thread while the loop idles, joined or pre-empted right after its '
            'fire(stopped) until run() has returned, or (6 % early-stop cases, timed idle wait) right before it / SystemExit / KeyboardInterrupt / inside the '
            'stopped handler / none; component trees (root + 1-2 registered children, handlers on both, stop(code) called '
            'on a child from its own / the root\'s handler / a second thread: 8 % child-stop cases + 20 % of the others); '
            '10 % late-chain cases: a generator outliving stop() that starts event chains of '
            'length 2-4 in every fade-out tick) and exit codes None,0,1,3,7,9; 1-3 run() cycles with stop() on the idle manager '
            'in between; plus the manual main loop (stop() with inline ticks). non-trivial = a run() that dispatched '
            'a user event and was stopped by the program or the second thread')
    trusted_base = ['hand-written model Model/KLoop.v tied to /repo by this correspondence run (full log incl. ticks, '
                    'idle waits, generate_events dispatches)',
                    'python oracle in harness/c08.py; wait double for circuits.core.helpers.Event; second thread joined '
                    'at handler actions and idle waits; two controlled pre-emption points of the stopping second thread: '
                    'parked on entry of / after return from its fire(stopped) until run() returned (other points are '
                    'not explored)']
    assumptions = ['iteration order of the task set is recorded from the implementation run and given to the model as '
                   'schedule; theorems hold for every schedule',
                   'exit codes are ints or None; handlers live on the root component; priorities all 0']

    def __init__(self):
        self.stats = {'place': {}, 'ops': {}, 'runs': 0, 'idle_stops': 0, 'gen_bodies': 0, 'cases_with_threads': 0}

    def generate(self, rng, n, tier):
        g = Gen(rng)
        out = []
        npre = 0 if tier == "quick" else 12     # quick: the four corpus programs
        for i in range(n):
            if i < npre:
                c = g.preempt()
                out.append(c)
                self.stats['place'][c['place']] = self.stats['place'].get(c['place'], 0) + 1
                continue
            x = rng.random()
            c = (g.manual() if x < 0.08 else g.late_chain() if x < 0.18 else g.early_stop() if x < 0.24
                 else g.mid_stop() if x < 0.31 else g.child_stop() if x < 0.39 else g.case())
            if c['place'] not in ('manual', 'child-stop', 'early-stop') and rng.random() < 0.2:
                g.add_children(c)
            if c['place'] not in ('manual', 'mid-stop') and rng.random() < 0.12:
                c['mid'] = g.mid_script()
            out.append(c)
            self.stats['place'][c['place']] = self.stats['place'].get(c['place'], 0) + 1
            self.stats['runs'] += sum(1 for o in c['ops'] if o[0] == 'run')
            self.stats['gen_bodies'] += sum(1 for k, bs in c['h'] for b in bs if b['t'] == 'g')
        return out

    def impl(self, case):
        if case.get('kind') == 'preempt':
            return run_preempt(case)
        return run_case(case)

    def model_term(self, case):
        if case.get('kind') == 'preempt':
            return None         # oracle only
        hs = '[%s]' % '; '.join('(%s, [%s])' % (c_kind(k), '; '.join(c_body(b) for b in bs)) for k, bs in case['h'])
        obs = getattr(self, '_last', {}).get(common.canon(case))
        if obs is None:
            obs = self.safe_impl(case)
        sched = obs.get('sched', []) if isinstance(obs, dict) else []
        sc = '[%s]' % '; '.join('[%s]%%nat' % ';'.join(str(g) for g in e) for e in sched)
        xs = '[%s]' % '; '.join(c_x(x) for x in case.get('ext', []))
        ops = '[%s]' % '; '.join(c_op(o) for o in case['ops'])
        ms = '[%s]' % '; '.join('None' if m is None else '(Some %s)' % c_code(m[1]) for m in case.get('mid', []))
        return 'obs_case %s %s %s %s %s' % (hs, sc, xs, ms, ops)

    def safe_impl(self, case):
        obs = Prop.safe_impl(self, case)
        if not hasattr(self, '_last'):
            self._last = {}
        self._last[common.canon(case)] = obs
        return obs

    def obs_for_model(self, case, obs):
        if isinstance(obs, dict) and '__crash__' in obs:
            return [-999]
        if obs['runaway']:
            return [-1]
        return obs['log']

    # ---- the property, read directly on the log of the real code
    def complaints(self, case, obs):
        """every way in which the run of the real code violates the property: list of (op index, text)"""
        if obs.get('kind') == 'preempt':
            out_ = []
            for sc in obs['scen']:
                for idx, t in self.complaints(case, sc):
                    out_.append((idx, 'stop(%r) by a second thread right before line event #%d (%s%s) of tick %d '
                                      '(tick %d goes idle): %s' % (sc.get('code'), sc['k'], sc['where'],
                                                                   ', lines of tick() only' if sc.get('scope') == 'top' else '',
                                                                   sc.get('tick', 0), obs['idle_tick'], t)))
            return out_
        out_ = []
        log = obs['log']
        for idx, m in enumerate(obs['marks']):
            def bad(t):
                out_.append((idx, t))
            if m['op'] == 'run':
                if obs.get('hung'):
                    bad('run() does not return although stop was requested: the idle loop is never woken '
                        '(`stopped` queued, loop asleep; guard %.1f s)' % GUARD)
                    continue
                if m.get('runaway') or obs['runaway']:
                    bad('run() does not return although stop was requested (more than %d ticks)' % MAXTICKS)
                    continue
                if m.get('was_running'):
                    continue        # manual mode left running: outside the property
                sl = log[m['start']:m.get('ret', m['end'])]      # what happened until run() returned / raised
                n_started = sum(1 for e in sl if e[:2] == [1, 0])
                n_stopped = sum(1 for e in sl if e[:2] == [1, 1])
                if n_started != 1:
                    bad('started dispatched %d times during one run()' % n_started)
                if n_stopped != 1:
                    bad('stopped dispatched %d times before run() returned' % n_stopped)
                if [14] in sl:
                    bad('stop() on a child component that is not running raised SystemExit into its caller')
                if m['still_running']:
                    bad('manager still running after run() returned')
                if m['qlen'] != 0:
                    bad('run() returned with %d event(s) still queued' % m['qlen'])
                if m['undispatched']:
                    bad('run() returned before dispatching %d event(s) fired during the run' % len(m['undispatched']))
                reqs = [e[1] for e in sl if e[0] == 5]
                if not reqs:
                    bad('run() returned although nobody requested a stop')
                    continue
                out = [e for e in sl if e[0] == 9]
                want = None if reqs[0] is None else [reqs[0]]
                if not out or out[-1][1] != want:
                    bad('exit code: first stop request carried %r, run() gave %r' % (
                        reqs[0], out[-1][1] if out else 'nothing'))
                stops = [i for i, e in enumerate(sl) if e[:2] == [1, 1]]
                i_req = min(i for i, e in enumerate(sl) if e[0] == 5)
                if stops and max(stops) < i_req:
                    bad('stopped dispatched before any stop request')
            elif m['op'] == 'stop' and not m['was_running']:
                sl = log[m['start']:m['end']]
                self.stats['idle_stops'] += 1
                c = case['ops'][idx][1]
                if sl != [[5, None if c is None else [c]], [9, None]]:
                    bad('stop() on a manager that is not running had an effect: %r' % (sl,))
                if m['qlen'] != m['qlen_before']:
                    bad('stop() on a manager that is not running changed the queue')
            elif m['op'] == 'stop':
                sl = log[m['start']:m['end']]
                # manual main loop: stopped dispatched once by the inline ticks, code raised to the caller
                if sum(1 for e in sl if e[:2] == [1, 1]) != 1:
                    bad('stop() of a running manager without run(): stopped not dispatched exactly once')
        return out_

    # ---- the property, read directly on the log of the real code
    def oracle(self, case, obs):
        if isinstance(obs, dict) and '__crash__' in obs:
            return None
        cs = self.complaints(case, obs)
        return ' | '.join('op %d: %s' % c for c in cs) if cs else None

    def finding_class(self, case, obs, what):
        """C08-early-return-race: every complaint is "stopped dispatched 0 times before run() returned" about a
        run() during which a stopping second thread was parked before its fire(stopped) ([12] in that run's
        log) -- anything else in such a case, or that complaint without the early-parked stop, is new"""
        if not isinstance(obs, dict) or 'log' not in obs or obs.get('kind') == 'preempt':
            return None
        cs = self.complaints(case, obs)
        if not cs:
            return None
        for idx, text in cs:
            m = obs['marks'][idx]
            if m['op'] != 'run' or text != 'stopped dispatched 0 times before run() returned':
                return None
            if [12] not in obs['log'][m['start']:m.get('ret', m['end'])]:
                return None
            if not any(x[0] == 's' and len(x) > 2 and x[2] == 2 for x in case.get('ext', [])):
                return None
        return 'C08-early-return-race'

    def nontrivial(self, case, obs):
        if not isinstance(obs, dict) or 'log' not in obs:
            return False
        if obs.get('kind') == 'preempt':
            self.stats['preempt_scenarios'] = self.stats.get('preempt_scenarios', 0) + len(obs['scen'])
            return obs['nlines'] > 10
        log = obs['log']
        explicit = any(a[0] == 's' for k, bs in case['h'] for b in bs
                       for a in (b['a'] if b['t'] == 'p' else [x for s in b['s'] for x in s[0]]))
        explicit = explicit or any(x[0] == 's' for x in case.get('ext', [])) or case.get('place') in ('exit', 'kbd', 'gen-exit')
        return explicit and any(e[0] == 1 and e[1] >= 10 for e in log) and any(o[0] == 'run' for o in case['ops'])

    def search(self, rng, tier):
        g = Gen(rng)
        return [g.preempt() for _ in range(3)] + [
            g.late_chain() if i % 6 == 0 else g.early_stop() if i % 6 == 1 else g.mid_stop() if i % 6 == 2
            else g.child_stop() if i % 6 == 3 else g.case()
            for i in range(1500)]


if __name__ == '__main__':
    sys.exit(common.main(C08()))
