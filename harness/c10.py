"""C10 — pollers report exactly the registered-and-ready descriptors; Select, Poll and EPoll agree.

A case is a history over a small pool of socket pairs.  Object `o` is the poller side of a pair (the harness
drives the peer side), opened at a file number chosen by the history (dup2 onto BASE+f, so that close-then-reopen
really gives the same number).  The same history is run on the three real pollers; one observation = one
zero-timeout iteration (`tick`), observed with the protocol of DESIGN §6 C10 (drain while not running, one tick(0)
running, drain).  Readiness of every open number is read from the kernel by a probe that is independent of the
pollers (a fresh select.poll() and select.select on that number alone) and is handed to the model as its oracle.
"""
import os
import select
import socket
import sys

sys.path.insert(0, os.path.dirname(os.path.abspath(__file__)))
import common
from common import Prop

import threading

import circuits
from circuits import BaseComponent, Manager, handler
from circuits.core import pollers as P
from circuits.core.events import generate_events

CIRCUITS_DIR = os.path.dirname(os.path.abspath(circuits.__file__))

BASE = 100            # object numbers live at BASE + f
NUMS = 3              # size of the number space (small, to force reuse)
KINDS = ('Select', 'Poll', 'EPoll')
CHAN = {'a': 1, 'b': 2}
API = ('addR', 'addW', 'remR', 'remW', 'discard')
ENV = ('pw', 'drain', 'fill', 'unfill', 'pclose')


class Sock(socket.socket):
    """socket.socket subclass so that an object id can be attached"""
    oid = None


class Rec(BaseComponent):
    channel = 'rec'

    def init(self):
        self.log = []

    @handler('_read', '_write', '_disconnect', '_error', channel='*', priority=100)
    def _on(self, event, *args):
        self.log.append((event.name, args[0] if args else None, event.channels))


class Owner(BaseComponent):
    def __init__(self, channel):
        super().__init__(channel=channel)


def _chan(m, chs):
    if len(chs) != 1:
        return 90 + len(chs)
    c = chs[0]
    if c in CHAN:
        return CHAN[c]
    if c is m:
        return 0
    return 99


def _cell(cell):
    """compact encoding of one (object, iteration) observation; mirrors PollerObs.obs_cell"""
    codes = []
    for l in cell[:3]:
        if not l:
            codes.append(0)
        elif len(l) == 1 and l[0] < 3:
            codes.append(l[0] + 1)
        else:
            return cell
    return codes[0] + 4 * codes[1] + 16 * codes[2] + 64 * int(cell[3]) + 128 * int(cell[4])


def _open_fds():
    """numbers of the descriptors this process has open (None if that cannot be found out)"""
    try:
        names = os.listdir('/proc/self/fd')
    except OSError:
        return None
    out = set()
    for n in names:
        try:
            fd = int(n)
            os.fstat(fd)          # the descriptor listdir itself used is gone by now
            out.add(fd)
        except (ValueError, OSError):
            pass
    return out


def _release(poller, owned):
    """close what the poller opened while it was constructed (wake-up pipe / socket pair, epoll descriptor), found by
    behaviour (descriptor numbers that appeared during construction; attribute values that own one of them), never by
    attribute name.  -> True if the release could be done"""
    if owned is None:
        return False
    owned = set(owned)
    try:
        values = list(vars(poller).values())
    except TypeError:
        values = []
    for v in values:
        if isinstance(v, int) or not (hasattr(v, 'fileno') and hasattr(v, 'close')):
            continue
        try:
            fn = v.fileno()
        except (OSError, ValueError):
            continue
        if fn in owned:
            try:
                v.close()
            except OSError:
                pass
            owned.discard(fn)
    for fd in owned:
        try:
            os.close(fd)
        except OSError:
            pass
    return True


def raised_in_circuits(exc):
    """classify an exception by the deepest frame of its traceback: circuits code (an implementation crash) or not
    (a problem of this harness, which must never be reported as the implementation raising)"""
    tb = exc.__traceback__
    last = None
    while tb is not None:
        last = tb
        tb = tb.tb_next
    if last is None:
        return False
    fn = os.path.abspath(last.tb_frame.f_code.co_filename)
    return fn.startswith(CIRCUITS_DIR + os.sep)


class Degraded(Exception):
    """the harness could not obtain an observable"""


def probe(fno):
    """kernel ground truth for one open number, independent of the pollers under test"""
    p = select.poll()
    p.register(fno, select.POLLIN | select.POLLOUT)
    ev = dict(p.poll(0)).get(fno, 0)
    r, w, _ = select.select([fno], [fno], [], 0)
    return [int(bool(ev & select.POLLIN)), int(bool(ev & select.POLLOUT)), int(bool(ev & select.POLLHUP)),
            int(bool(ev & select.POLLERR)), int(bool(r)), int(bool(w))]


def run_history(kind, ops):
    """-> {'ticks': [...], 'end': 0|1, 'status': [{f: six bits}], 'open': [[o, f]] per tick}"""
    m = Manager()
    rec = Rec().register(m)
    before = _open_fds()
    poller = getattr(P, kind)()
    after = _open_fds()
    owned = (after - before) if before is not None and after is not None else None
    poller.register(m)
    owners = {1: Owner('a').register(m), 2: Owner('b').register(m)}
    objs, peers, closed_peers, allsocks = {}, {}, set(), []
    pool = sorted({op[1] for op in ops if op[0] == 'open'})
    out = {'ticks': [], 'end': 0, 'status': [], 'open': [], 'degraded': []}
    wake = threading.RLock()

    def drainq():
        for _ in range(4):
            m.flush()

    try:
        drainq()
        for op in ops:
            k = op[0]
            if k == 'open':
                o, f = op[1], op[2]
                x, y = socket.socketpair()
                if x.fileno() >= BASE or y.fileno() >= BASE:
                    x.close(), y.close()
                    raise Degraded('descriptor table too full for the reserved number range')
                try:
                    os.fstat(BASE + f)
                    inuse = True
                except OSError:
                    inuse = False
                if inuse:
                    x.close(), y.close()
                    raise Degraded('number %d is in use' % (BASE + f))
                os.dup2(x.fileno(), BASE + f)
                a = Sock(fileno=BASE + f)
                x.close()
                a.oid = o
                a.setblocking(False)
                y.setblocking(False)
                objs[o], peers[o] = a, y
                allsocks += [a, y]
            elif k == 'close':
                objs[op[1]].close()
            elif k in API:
                try:
                    if k == 'addR':
                        poller.addReader(owners[op[1]], objs[op[2]])
                    elif k == 'addW':
                        poller.addWriter(owners[op[1]], objs[op[2]])
                    elif k == 'remR':
                        poller.removeReader(objs[op[1]])
                    elif k == 'remW':
                        poller.removeWriter(objs[op[1]])
                    else:
                        poller.discard(objs[op[1]])
                except Exception:
                    out['end'] = 1
                    break
            elif k == 'pw':
                peers[op[1]].send(b'x')
            elif k == 'drain':
                try:
                    while objs[op[1]].recv(65536):
                        pass
                except (BlockingIOError, ConnectionResetError):
                    pass
            elif k == 'fill':
                try:
                    while True:
                        objs[op[1]].send(b'x' * 65536)
                except (BlockingIOError, BrokenPipeError, ConnectionResetError):
                    pass
            elif k == 'unfill':
                try:
                    while peers[op[1]].recv(1 << 20):
                        pass
                except (BlockingIOError, ConnectionResetError):
                    pass
            elif k == 'pclose':
                peers[op[1]].close()
                closed_peers.add(op[1])
            elif k == 'tick':
                st, opn = {}, []
                for o in pool:
                    if o in objs and objs[o].fileno() >= 0:
                        st[objs[o].fileno() - BASE] = probe(objs[o].fileno())
                        opn.append([o, objs[o].fileno() - BASE])
                drainq()
                del rec.log[:]
                # one zero-timeout iteration: exactly what Manager.tick(0) does while running, through public API only
                m.fire(generate_events(wake, 0), '*')
                m.flush()
                drainq()
                row = []
                for o in pool:
                    sock = objs.get(o)
                    cell = [[], [], []]
                    for (name, s, chs) in rec.log:
                        if s is sock and sock is not None:
                            idx = {'_read': 0, '_write': 1, '_disconnect': 2}.get(name)
                            if idx is None:
                                raise Degraded('unexpected event %s' % name)
                            cell[idx].append(_chan(m, chs))
                    cell.append(bool(sock is not None and poller.isReading(sock)))
                    cell.append(bool(sock is not None and poller.isWriting(sock)))
                    row.append(cell)
                known = {id(s) for s in objs.values()}
                if any(id(s) not in known for (_, s, _) in rec.log):
                    raise Degraded('event for an object outside the pool')
                out['ticks'].append(row)
                out['status'].append(st)
                out['open'].append(opn)
            else:
                raise ValueError(k)
    finally:
        for s in allsocks:
            try:
                s.close()
            except OSError:
                pass
        if not _release(poller, owned):
            out['degraded'].append('poller descriptors not released (descriptor table not inspectable)')
    return out


# ------------------------------------------------------------------------------ generator

def gen_history(rng, mode, length):
    """mode: 'disc' (API discipline, discard before close), 'close' (closes at any time, late discards),
    'wild' (double adds, adds on closed objects, two owners)"""
    ops = []
    nxt = 1
    opn = {}           # o -> f
    closed = []        # closed objects (may still be registered)
    free = list(range(NUMS))
    lastfree = None
    R, W, own = set(), set(), {}
    pclosed, filled = set(), set()

    def tick():
        ops.append(['tick'])

    for _ in range(length):
        r = rng.random()
        live = sorted(opn)
        if (not live and free) or (r < 0.12 and free and nxt <= 6):
            f = lastfree if (lastfree in free and rng.random() < 0.8) else rng.choice(free)
            free.remove(f)
            o = nxt
            nxt += 1
            opn[o] = f
            ops.append(['open', o, f])
            if rng.random() < 0.3:
                tick()
            continue
        if r < 0.22 and live:
            o = rng.choice(live)
            if mode == 'disc' and (o in R or o in W):
                ops.append(['discard', o])
                R.discard(o), W.discard(o), own.pop(o, None)
            ops.append(['close', o])
            f = opn.pop(o)
            free.append(f)
            lastfree = f
            closed.append(o)
            pclosed.discard(o), filled.discard(o)
            if rng.random() < 0.5:
                tick()
            continue
        if r < 0.62:
            cand = live if mode != 'wild' else live + closed
            if mode == 'close' and closed and rng.random() < 0.3:
                o = rng.choice(closed)
                k = rng.choice(['discard', 'discard', 'discard', 'remR', 'remW'])
            elif cand:
                o = rng.choice(cand)
                k = rng.choice(['addR', 'addR', 'addW', 'addW', 'remR', 'remW', 'discard'])
            else:
                continue
            if k in ('addR', 'addW'):
                c = own.get(o) or rng.choice([1, 2])
                if mode == 'wild' and rng.random() < 0.3:
                    c = rng.choice([1, 2])
                S = R if k == 'addR' else W
                if o in S and not (mode == 'wild' and rng.random() < 0.5):
                    k = 'remR' if k == 'addR' else 'remW'
                else:
                    S.add(o)
                    own[o] = c
                    ops.append([k, c, o])
            if k == 'remR':
                R.discard(o)
                ops.append([k, o])
            elif k == 'remW':
                W.discard(o)
                ops.append([k, o])
            elif k == 'discard':
                R.discard(o), W.discard(o)
                ops.append([k, o])
            if o not in R and o not in W:
                own.pop(o, None)
        elif live:
            o = rng.choice(live)
            k = rng.choice(['pw', 'pw', 'drain', 'fill', 'unfill', 'pclose'])
            if k == 'pw' and (o in pclosed or o in filled):
                k = 'drain'
            if k == 'fill' and o in pclosed:
                k = 'drain'
            if k == 'pclose':
                if o in pclosed:
                    k = 'drain'
                else:
                    pclosed.add(o)
            if k == 'unfill':
                if o in pclosed:
                    k = 'drain'
                else:
                    filled.discard(o)
            if k == 'fill':
                filled.add(o)
            ops.append([k, o])
        if rng.random() < 0.6:
            tick()
    tick()
    tick()
    return ops


def gen_scenario(rng):
    """directed histories for the change classes a random walk reaches rarely: removeReader while the writer stays,
    write-only descriptors whose peer closes (hang-up without IN), full send buffer, re-registration after a hang-up
    with and without the client's discard, number reuse afterwards.  The poller is always a shared one (registered
    on the root manager, owners are siblings), so a target lost anywhere shows as channel 0."""
    ops = []
    c1, c2 = rng.choice([(1, 2), (2, 1), (1, 1), (2, 2)])
    f1, f2 = rng.sample(range(NUMS), 2)

    def t(p=0.6):
        if rng.random() < p:
            ops.append(['tick'])

    kind = rng.choice(['remR_keepW', 'wonly_pclose', 'both_remR_pclose', 'two_owners_hup', 'full_then_pclose'])
    ops.append(['open', 1, f1])
    if kind == 'remR_keepW':
        first = rng.choice(['addR', 'addW'])
        ops.append([first, c1, 1]); t(0.3)
        ops.append(['addW' if first == 'addR' else 'addR', c1, 1]); t()
        if rng.random() < 0.5:
            ops.append(['fill', 1]); t()
        ops.append(['remR', 1]); t(0.9)
        ops.append(['pw', 1]); t()
        if ['fill', 1] in ops:
            ops.append(['unfill', 1]); t(0.9)
        ops.append(['tick'])
        if rng.random() < 0.5:
            ops.append(['addR', c1, 1]); t(0.9)
        ops.append([rng.choice(['remW', 'discard']), 1]); ops.append(['tick'])
    elif kind == 'wonly_pclose':
        ops.append(['addW', c1, 1]); t()
        if rng.random() < 0.4:
            ops.append(['pw', 1])
        ops.append(['pclose', 1]); ops.append(['tick']); t(0.8)
        follow = rng.choice(['discard', 'readd', 'nothing'])
        if follow == 'discard':
            ops.append(['discard', 1]); ops.append(['tick'])
            if rng.random() < 0.6:
                ops.append(['close', 1]); ops.append(['open', 2, f1]); ops.append(['addR', c2, 2]); ops.append(['pw', 2]); ops.append(['tick'])
        elif follow == 'readd':
            ops.append(['discard', 1]); ops.append(['addR', c1, 1]); ops.append(['addW', c1, 1]); ops.append(['tick']); ops.append(['tick'])
    elif kind == 'both_remR_pclose':
        ops.append(['addR', c1, 1]); ops.append(['addW', c1, 1]); t()
        if rng.random() < 0.5:
            ops.append(['pclose', 1]); ops.append(['tick']); ops.append(['remR', 1])
        else:
            ops.append(['remR', 1]); t(); ops.append(['pclose', 1])
        ops.append(['tick']); ops.append(['tick']); ops.append(['discard', 1]); ops.append(['tick'])
    elif kind == 'two_owners_hup':
        ops.append(['open', 2, f2])
        ops.append(['addW', c1, 1]); ops.append(['addR', c2, 2]); ops.append(['addW', c2, 2]); t()
        ops.append(['pclose', rng.choice([1, 2])]); ops.append(['tick'])
        ops.append(['remR', 2]); ops.append(['tick']); ops.append(['pclose', rng.choice([1, 2])]) if rng.random() < 0.5 else None
        ops.append(['tick']); ops.append(['tick'])
    else:
        ops.append(['addW', c1, 1]); ops.append(['fill', 1]); ops.append(['tick'])
        if rng.random() < 0.5:
            ops.append(['addR', c1, 1]); t()
        ops.append(['pclose', 1]); ops.append(['tick']); ops.append(['tick'])
        ops.append(['discard', 1]); ops.append(['close', 1]); ops.append(['open', 3, f1]); ops.append(['pw', 3]); ops.append(['tick'])
    ops = [o for o in ops if o is not None]
    # a peer cannot be closed twice
    seen, out = set(), []
    for o in ops:
        if o[0] == 'pclose':
            if o[1] in seen:
                continue
            seen.add(o[1])
        out.append(o)
    return kind, out


class C10(Prop):
    id = 'C10'
    props_file = 'Props/C10.v'
    imports = ['Model.Poller', 'Model.PollerObs']
    quick_n = 180
    thorough_n = 1800
    rule = ('histories of open/close (number space of 3, reuse preferred), add/remove reader and writer, discard, peer '
            'write / drain / fill send buffer / unfill / peer close, and zero-timeout iterations over real socketpairs, '
            'run on the real Select, Poll and EPoll; three generator modes (API discipline; close while registered and '
            'late discard; wild: double adds, adds on closed objects, two owners). non-trivial = at least one readiness '
            'event observed and at least 3 registration operations')
    trusted_base = ['hand-written model Model/Poller.v (incl. the abstract kernel machine: descriptor table, poll/epoll interest '
                    'table, POLLNVAL / epoll auto-removal on close, readiness statuses) tied to /repo by this correspondence run',
                    'readiness statuses are read from the Linux kernel by an independent probe and passed to the model as an oracle table',
                    'python oracle in harness/c10.py (set model of registrations + the hang-up rule)']
    assumptions = ['kernel behaviour of select/poll/epoll is a modelled abstract machine (partial), validated only by the correspondence run',
                   'API precondition: a role is added only when not already registered; one owning component per descriptor',
                   'the wake-up (control) descriptor and threads (resume) are outside the model',
                   'agreement along histories (C10_agree_history*) assumes: select-readable = POLLIN and select-writable = POLLOUT for every status (measured: statuses_select_differs_from_poll), descriptors discarded before close, a descriptor Poll/EPoll hung up on is discarded before it is registered again']

    def __init__(self):
        self._rec = {}
        self.stats = {'ops': {}, 'modes': {}, 'events': {'read': 0, 'write': 0, 'disconnect': 0},
                      'ticks': 0, 'reuse_opens': 0, 'crash_cases': 0, 'hup_statuses': 0, 'err_statuses': 0,
                      'select_preen_ticks': 0, 'oracle_abstained_cases': 0, 'statuses': 0,
                      'statuses_select_differs_from_poll': 0, 'hangup_only_disconnects': 0, 'remR_with_writer_kept': 0,
                      'degraded_cases': 0, 'degraded': {}}

    def generate(self, rng, n, tier):
        cases = []
        for i in range(n):
            if rng.random() < 0.22:
                kind, ops = gen_scenario(rng)
                cases.append({'k': 'hist', 'mode': 'scen:' + kind, 'ops': ops})
                continue
            r = rng.random()
            mode = 'disc' if r < 0.45 else ('close' if r < 0.85 else 'wild')
            ops = gen_history(rng, mode, rng.randint(6, 22 if tier == "quick" else 32))
            cases.append({'k': 'hist', 'mode': mode, 'ops': ops})
        return cases

    def search(self, rng, tier):
        return self.generate(rng, 1500, 'thorough')

    # ---- implementation
    def impl(self, c):
        try:
            return self._impl(c)
        except Exception as e:
            if raised_in_circuits(e):
                raise                  # the implementation raised: that is an observable (framework turns it into __crash__)
            # a problem of the harness itself (or of the test environment): degrade, never blame the implementation
            why = '%s: %s' % (type(e).__name__, str(e)[:120])
            self.stats['degraded_cases'] += 1
            self.stats['degraded'][why] = self.stats['degraded'].get(why, 0) + 1
            self._rec.pop(common.canon(c), None)
            return {'__degraded__': why}

    def _impl(self, c):
        ops = c['ops']
        obs = {}
        for kind in KINDS:
            obs[kind] = run_history(kind, ops)
            for d in obs[kind]['degraded']:
                self.stats['degraded'][d] = self.stats['degraded'].get(d, 0) + 1
        self._rec[common.canon(c)] = obs
        for op in ops:
            self.stats['ops'][op[0]] = self.stats['ops'].get(op[0], 0) + 1
        self.stats['modes'][c.get('mode', '?')] = self.stats['modes'].get(c.get('mode', '?'), 0) + 1
        seen = set()
        for op in ops:
            if op[0] == 'open':
                if op[2] in seen:
                    self.stats['reuse_opens'] += 1
                seen.add(op[2])
        for kind in KINDS:
            self.stats['crash_cases'] += obs[kind]['end']
            for row in obs[kind]['ticks']:
                self.stats['ticks'] += 1
                for cell in row:
                    self.stats['events']['read'] += len(cell[0])
                    self.stats['events']['write'] += len(cell[1])
                    self.stats['events']['disconnect'] += len(cell[2])
        for st in obs['Poll']['status']:
            for bits in st.values():
                self.stats['hup_statuses'] += bits[2]
                self.stats['err_statuses'] += bits[3]
                self.stats['statuses'] += 1
                # hypothesis `consistent` of C10_agree_history: select-readable = POLLIN, select-writable = POLLOUT
                self.stats['statuses_select_differs_from_poll'] += int(bits[4] != bits[0] or bits[5] != bits[1])
        for row in obs['EPoll']['ticks']:
            self.stats['hangup_only_disconnects'] += sum(len(cell[2]) for cell in row)
        Rg, Wg = set(), set()
        for op in ops:
            if op[0] == 'addR':
                Rg.add(op[2])
            elif op[0] == 'addW':
                Wg.add(op[2])
            elif op[0] == 'remR':
                self.stats['remR_with_writer_kept'] += int(op[1] in Rg and op[1] in Wg)
                Rg.discard(op[1])
            elif op[0] == 'remW':
                Wg.discard(op[1])
            elif op[0] == 'discard':
                Rg.discard(op[1]), Wg.discard(op[1])
        return obs

    def obs_for_model(self, c, obs):
        if isinstance(obs, dict) and ('__crash__' in obs or '__degraded__' in obs):
            return [-999]
        return [[[[_cell(c_) for c_ in row] for row in obs[k]['ticks']], obs[k]['end']] for k in KINDS]

    # ---- model
    def model_term(self, c):
        obs = self._rec.get(common.canon(c))
        if obs is None:
            return None
        pool = sorted({op[1] for op in c['ops'] if op[0] == 'open'})
        order = '[%s]' % ';'.join(str(i) for i in range(NUMS))
        hs = []
        for kind in KINDS:
            sts = obs[kind]['status']
            ti = 0
            l = []
            for op in c['ops']:
                k = op[0]
                if k == 'open':
                    l.append('Open %d %d' % (op[1], op[2]))
                elif k == 'close':
                    l.append('Close %d' % op[1])
                elif k == 'addR':
                    l.append('AddR %d %d' % (op[1], op[2]))
                elif k == 'addW':
                    l.append('AddW %d %d' % (op[1], op[2]))
                elif k == 'remR':
                    l.append('RemR %d' % op[1])
                elif k == 'remW':
                    l.append('RemW %d' % op[1])
                elif k == 'discard':
                    l.append('Discard %d' % op[1])
                elif k == 'tick':
                    if ti >= len(sts):      # the implementation stopped (crash) before this tick
                        break
                    st = sts[ti]
                    ti += 1
                    tb = '; '.join('(%d, S6 %s)' % (int(f), ' '.join(str(b) for b in bits)) for f, bits in sorted(st.items(), key=lambda t: int(t[0])))
                    l.append('Tick (tbl [%s]) %s' % (tb, order))
            if obs[kind]['end'] == 1 and ti == len(sts):
                # keep the ops up to and including the crashing API op: the model must crash there too;
                # everything after the last observed tick is kept, the model stops at its own crash
                pass
            hs.append('[%s]' % '; '.join(l))
        if hs[0] == hs[1] == hs[2]:
            return '(obs_hist1 [%s]%%nat (%s)%%nat)' % (';'.join(map(str, pool)), hs[0])
        return '(obs_hist [%s]%%nat (%s)%%nat (%s)%%nat (%s)%%nat)' % (';'.join(map(str, pool)), hs[0], hs[1], hs[2])

    # ---- oracle: direct reading of the property on the real pollers' behaviour
    def oracle(self, c, obs):
        if isinstance(obs, dict) and ('__crash__' in obs or '__degraded__' in obs):
            return None
        ops = c['ops']
        pool = sorted({op[1] for op in ops if op[0] == 'open'})
        idx = {o: i for i, o in enumerate(pool)}
        any_abstain = False
        per_kind_expected = {}
        for kind in KINDS:
            abstain = False
            o_ = obs[kind]
            R, W = {}, {}            # o -> channel of the registering component
            opn = {}                 # o -> number
            ever_closed = set()
            stale = set()            # closed while registered (registration can never fire again)
            ti = 0
            ended = False
            exp_rows = []
            for op in ops:
                k = op[0]
                if k == 'open':
                    opn[op[1]] = op[2]
                elif k == 'close':
                    o = op[1]
                    opn.pop(o, None)
                    ever_closed.add(o)
                    if o in R or o in W:
                        stale.add(o)
                elif k in ('addR', 'addW'):
                    cch, o = op[1], op[2]
                    S = R if k == 'addR' else W
                    other = W if k == 'addR' else R
                    if o in S or o in ever_closed or (o in other and other[o] != cch):
                        abstain = True      # outside the API precondition: no verdict from here on
                    if o in ever_closed and kind != 'Select':
                        if o_['end'] != 1:
                            return '%s: registering a closed descriptor did not raise' % kind
                        ended = True
                        break
                    S[o] = cch
                elif k == 'remR':
                    if op[1] in ever_closed:
                        abstain = True      # only discard is meaningful on a closed descriptor
                    R.pop(op[1], None)
                elif k == 'remW':
                    if op[1] in ever_closed:
                        abstain = True
                    W.pop(op[1], None)
                elif k == 'discard':
                    R.pop(op[1], None)
                    W.pop(op[1], None)
                elif k == 'tick':
                    if ti >= len(o_['ticks']):
                        if abstain and o_['end'] == 1:
                            break
                        return '%s: iteration %d missing from the trace' % (kind, ti)
                    row, st = o_['ticks'][ti], o_['status'][ti]
                    ti += 1
                    if abstain:
                        exp_rows.append(None)
                        continue
                    stale_now = [o for o in stale if o in R or o in W]
                    if kind == 'Select' and stale_now:
                        # select() raises on the closed object: the poller preens, the iteration reports nothing
                        self.stats['select_preen_ticks'] += 1
                        for o in pool:
                            cell = row[idx[o]]
                            if cell[0] or cell[1] or cell[2]:
                                return 'Select: events %r for %d in an iteration that had to preen closed descriptors' % (cell[:3], o)
                        for o in stale_now:
                            R.pop(o, None), W.pop(o, None)
                        exp_rows.append(None)
                        continue
                    exp_row = {}
                    for o in pool:
                        cell = row[idx[o]]
                        er, ew, ed = [], [], None       # ed None = no disconnect, list = exactly, 'opt' = allowed
                        if o in opn:
                            bits = st.get(opn[o])
                            if bits is None:
                                return 'harness: no status for open object %d' % o
                            pin, pout, phup, perr, sr, sw = bits
                            if kind == 'Select':
                                if o in R and sr:
                                    er = [R[o]]
                                if o in W and sw:
                                    ew = [W[o]]
                            else:
                                hang = (phup or perr) and not (o in R and pin)
                                if hang and (o in R or o in W):
                                    ed = [W[o]] if o in W else [R[o]]      # one owner: the same channel
                                    R.pop(o, None), W.pop(o, None)
                                else:
                                    if o in R and pin:
                                        er = [R[o]]
                                    if o in W and pout:
                                        ew = [W[o]]
                        else:
                            # closed: no readiness event, ever.  Poll may tell the owner once that it is gone.
                            if o in stale and (o in R or o in W) and kind == 'Poll':
                                ed = 'opt'
                        if cell[0] != er:
                            return '%s: iteration %d: read events for %d go to %r, expected %r (registered-and-readable rule)' % (kind, ti - 1, o, cell[0], er)
                        if cell[1] != ew:
                            return '%s: iteration %d: write events for %d go to %r, expected %r (registered-and-writable rule)' % (kind, ti - 1, o, cell[1], ew)
                        if ed == 'opt':
                            if cell[2]:
                                if len(cell[2]) != 1:
                                    return '%s: iteration %d: %d disconnect events for %d' % (kind, ti - 1, len(cell[2]), o)
                                R.pop(o, None), W.pop(o, None)
                        elif cell[2] != (ed or []):
                            return '%s: iteration %d: disconnect events for %d: %r, expected %r' % (kind, ti - 1, o, cell[2], ed or [])
                        # public registration state agrees with the set model for open objects
                        if o in opn and (cell[3] != (o in R) or cell[4] != (o in W)):
                            return '%s: iteration %d: isReading/isWriting of %d = %r/%r, registered %r/%r' % (
                                kind, ti - 1, o, cell[3], cell[4], o in R, o in W)
                        exp_row[o] = (tuple(cell[0]), tuple(cell[1]))
                    exp_rows.append(exp_row)
            if not ended and not abstain and o_['end'] == 1:
                return '%s: an operation inside the API precondition raised' % kind
            per_kind_expected[kind] = exp_rows
            any_abstain = any_abstain or abstain
        if any_abstain:
            self.stats['oracle_abstained_cases'] += 1
        # interchangeability: same read/write events wherever no hang-up-only descriptor / preen iteration is involved
        rows = [per_kind_expected[k] for k in KINDS]
        for t in range(min(len(r) for r in rows)):
            if any(r[t] is None for r in rows):
                continue
            st = obs['Poll']['status'][t]
            if any(b[2] or b[3] for b in st.values()):
                continue
            if not (rows[0][t] == rows[1][t] == rows[2][t]):
                return 'iteration %d: the three pollers report different read/write events: %r' % (t, [r[t] for r in rows])
        return None

    def finding_class(self, c, obs, what):
        return None

    def extra_checks(self, tier, rng, ev):
        if self.stats['degraded_cases']:
            common.log('C10: %d case(s) could not be observed by the harness (degraded, not compared): %r' % (
                self.stats['degraded_cases'], self.stats['degraded']))
        return []

    def nontrivial(self, c, obs):
        if isinstance(obs, dict) and ('__crash__' in obs or '__degraded__' in obs):
            return False
        nreg = len([op for op in c['ops'] if op[0] in API])
        nev = sum(len(cell[0]) + len(cell[1]) + len(cell[2]) for row in obs['Poll']['ticks'] for cell in row)
        return nreg >= 3 and nev >= 1


if __name__ == '__main__':
    sys.exit(common.main(C10()))
