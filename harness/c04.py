"""C04 — handler results, success/failure/exception feedback and error isolation.

A case is a forest of scripted events.  Every event has a unique label (>= 1), flags `s` (success feedback),
`f` (failure feedback), `n` (notify: <name>_value_changed), `b` (fired on channels ('app', 'other') instead of
('app',)), `sc` (success_channels: 0 absent, 1 ('app',), 2 ('other',), 3 ('app', 'other')) and a list of
handler scripts, invoked in list order (distinct descending priorities):

  {'t': 'p', 'k': [events fired], 'r': R}                     plain handler; R: None | 'x' (raise) | int | [ints]
                                                              ('xk' with a raise, also of a generator: what is raised,
                                                              0 an Exception subclass, 1 a BaseException subclass that is
                                                              not an Exception, 2 GeneratorExit)
                                                              | {'nest': event}: `return self.fire(event)`, i.e. the
                                                              handler fires a nested event and returns its Value;
                                                              optional 'st': 1 = the handler calls event.stop() first
  {'t': 'g', 'y': [[[events fired], Y], ...], 'k': [events fired in the last segment], 'x': raises at the end?,
   'ret': value of the generator's `return` (ignored by circuits)}     generator handler; Y: None | int | [ints]

The same script is compiled to real circuits handlers (impl) and to a Coq term (model_term).
Observable: the global log
  [0,L,i] plain handler i of event L invoked          [1,L,i,k] segment k of generator handler i of L entered
  [3,kind,L] derived event fired (0 <L>_success, 1 <L>_failure, 2 exception, 3 <L>_value_changed)
  [2,kind,L,c] derived event seen by the catch-all observer of component c (0 App, 1 Other)
  [4,L,c] user event L seen by the observer of c        [5,L] user event L fired
plus, per fired user event, the final Value (value, errors, result, promise) and waitingHandlers, plus whether
queue and task set drained.  Values are canonical: [0] None, [1,z] int, [2] error triple, [3,[items]] list,
[4,v] a nested Value object holding v (read with getValue(recursive=False)).
"""
import sys, os, threading, copy
sys.path.insert(0, os.path.dirname(os.path.abspath(__file__)))
import common
from common import Prop

from circuits import Component, Event, handler
from circuits.core.manager import Manager
from circuits.core.values import Value

MAXTICKS = 200
KINDS = {'success': 0, 'failure': 1, 'value_changed': 3}


class Scripted(RuntimeError):
    pass


class ScriptedBase(BaseException):
    """cancellation-style exception: derives from BaseException, not from Exception"""


# what a raising handler raises ('xk' of the handler script): circuits treats every exception other than
# SystemExit / KeyboardInterrupt (C08's business, never scripted here) alike
RAISE_KINDS = [Scripted, ScriptedBase, GeneratorExit]
KIND_STAT = ['raise_kind_exception', 'raise_kind_baseexception', 'raise_kind_generatorexit']


class OrderedTasks(set):
    """stand-in for the root's task *set*: iteration order is insertion order rotated by `rot`
    (the real set iterates in address order; the property quantifies over that order)"""

    def __init__(self):
        set.__init__(self)
        self.order = []
        self.rot = 0

    def add(self, t):
        if t not in self:
            set.add(self, t)
            self.order.append(t)

    def remove(self, t):
        set.remove(self, t)
        self.order.remove(t)

    def discard(self, t):
        if t in self:
            self.remove(t)

    def copy(self):
        o = list(self.order)
        k = self.rot % len(o) if o else 0
        return o[k:] + o[:k]

    def __iter__(self):
        return iter(self.copy())


def walk_events(evs):
    """all event specs of a forest, pre-order"""
    for e in evs:
        yield e
        for h in e['h']:
            if h['t'] == 'p':
                yield from walk_events(h['k'])
                if is_nest(h['r']):
                    yield from walk_events([h['r']['nest']])
            else:
                for st in h['y']:
                    yield from walk_events(st[0])
                yield from walk_events(h['k'])


def is_nest(r):
    return isinstance(r, dict)


def ran_handlers(e):
    """indices of the handlers of e that the dispatcher pass invokes: up to and including the first plain handler
    that calls event.stop()"""
    out = []
    for i, h in enumerate(e['h']):
        out.append(i)
        if h['t'] == 'p' and h.get('st'):
            break
    return out


def stopped(e):
    return any(h['t'] == 'p' and h.get('st') for h in e['h'])


def fired_events(evs):
    """the event specs of a forest that are actually fired: roots, and events fired by handlers that run"""
    for e in evs:
        yield e
        for i in ran_handlers(e):
            h = e['h'][i]
            if h['t'] == 'p':
                yield from fired_events(h['k'])
                if is_nest(h['r']):
                    yield from fired_events([h['r']['nest']])
            else:
                for st in h['y']:
                    yield from fired_events(st[0])
                yield from fired_events(h['k'])


def canon_val(x):
    if isinstance(x, Value):
        return [4, canon_val(x.getValue(False))]
    if x is None:
        return [0]
    if isinstance(x, bool):
        return [9, 'bool']
    if isinstance(x, int):
        return [1, x]
    if isinstance(x, tuple) and len(x) == 3 and isinstance(x[0], type) and issubclass(x[0], BaseException):
        return [2]
    if isinstance(x, list):
        return [3, [canon_val(y) for y in x]]
    return [9, type(x).__name__]


def canon_spec(r):
    """canonical form of a scripted result (None / int / list of ints and lists)"""
    if r is None:
        return [0]
    if isinstance(r, list):
        return [3, [canon_spec(z) for z in r]]
    return [1, r]


def classify(event):
    """-> ('u', L) for a scripted event, ('d', kind, L) for a derived event about L, or None"""
    nm = getattr(event, 'name', '')
    if nm == 'exception':
        fe = event.kwargs.get('fevent')
        fn = getattr(fe, 'name', '')
        if fn[:1] == 'e' and fn[1:].isdigit():
            return ('d', 2, int(fn[1:]))
        return None
    if nm[:1] != 'e':
        return None
    head, _, tail = nm[1:].partition('_')
    if not head.isdigit():
        return None
    if not tail:
        return ('u', int(head))
    if tail in KINDS:
        return ('d', KINDS[tail], int(head))
    return None


def run_script(case):
    log = []
    objs, vals, order = {}, {}, []

    def seen(event, comp):
        c = classify(event)
        if c is None:
            return
        if c[0] == 'u':
            log.append([4, c[1], comp])
        else:
            log.append([2, c[1], c[2], comp])

    class App(Component):
        channel = 'app'

        @handler(False)
        def fireEvent(self, event, *channels, **kw):
            c = classify(event)
            if c is not None and c[0] == 'd':
                log.append([3, c[1], c[2]])
            return Manager.fireEvent(self, event, *channels, **kw)

        fire = fireEvent

        @handler(priority=-5)
        def _catch_all(self, event, *args, **kwargs):
            seen(event, 0)

    class Other(Component):
        channel = 'other'

        @handler(priority=-6)
        def _catch_all(self, event, *args, **kwargs):
            seen(event, 1)

    app = App()
    Other().register(app)

    def fire_child(spec):
        ev = Event.create('e%d' % spec['l'])
        if spec['s']:
            ev.success = True
        if spec['f']:
            ev.failure = True
        if spec['n']:
            ev.notify = True
        if spec['sc']:
            ev.success_channels = {1: ('app',), 2: ('other',), 3: ('app', 'other')}[spec['sc']]
        objs[spec['l']] = ev
        order.append(spec['l'])
        log.append([5, spec['l']])
        vals[spec['l']] = app.fire(ev, *(('app', 'other') if spec['b'] else ('app',)))

    def fresh(r):
        return copy.deepcopy(r) if isinstance(r, list) else r

    def mk_plain(L, i, hd):
        def fn(self, event):
            log.append([0, L, i])
            if hd.get('st'):
                event.stop()
            for ch in hd['k']:
                fire_child(ch)
            if hd['r'] == 'x':
                raise RAISE_KINDS[hd.get('xk', 0)]('scripted failure')
            if is_nest(hd['r']):
                fire_child(hd['r']['nest'])
                return vals[hd['r']['nest']['l']]
            return fresh(hd['r'])
        fn.__name__ = 'h_%d_%d' % (L, i)
        return fn

    def mk_gen(L, i, hd):
        ys = hd['y']

        def fn(self, event):
            for k, (kids, y) in enumerate(ys):
                log.append([1, L, i, k])
                for ch in kids:
                    fire_child(ch)
                yield fresh(y)
            log.append([1, L, i, len(ys)])
            for ch in hd['k']:
                fire_child(ch)
            if hd['x']:
                raise RAISE_KINDS[hd.get('xk', 0)]('scripted failure in generator')
            return fresh(hd.get('ret'))
        fn.__name__ = 'g_%d_%d' % (L, i)
        return fn

    for spec in walk_events(case['roots']):
        n = len(spec['h'])
        for i, hd in enumerate(spec['h']):
            f = mk_plain(spec['l'], i, hd) if hd['t'] == 'p' else mk_gen(spec['l'], i, hd)
            app.addHandler(handler('e%d' % spec['l'], priority=n - i, channel='app')(f))

    while len(app):          # registered events of the set-up
        app.flush()
    del log[:]

    tasks = OrderedTasks()
    if isinstance(common.get_tasks(app, None), set):
        common.set_tasks(app, tasks)
    # as run() does: fires from handlers and task steps are own-thread fires
    app._executing_thread = threading.current_thread()
    try:
        for spec in case['roots']:
            fire_child(spec)
        rot = case.get('rot') or [0]
        sched, quiet, t = [], False, 0
        escaped = []
        for t in range(MAXTICKS):
            if not len(app) and not len(common.get_tasks(app)):
                quiet = True
                break
            tasks.rot = rot[t % len(rot)]
            mark = len(log)
            try:
                app.tick()
            except KeyboardInterrupt:
                raise
            except BaseException as exc:    # nothing a scripted handler raises may leave the loop
                escaped.append(type(exc).__name__)
            sched.append([[x[1], x[2]] for x in log[mark:] if x[0] == 1])
    finally:
        app._executing_thread = None
    final = []
    for l in order:
        v = vals[l]
        final.append([l, canon_val(v.getValue(False)), bool(v.errors), bool(v.result), bool(v.promise),
                      int(objs[l].waitingHandlers)])
    return {'log': log, 'final': final, 'quiet': quiet, 'sched': sched, 'ticks': t, 'escaped': escaped}


# ------------------------------------------------------------------------------------ Coq literals

def b(x):
    return 'true' if x else 'false'


def coq_py(r):
    if r is None:
        return 'PNone'
    if isinstance(r, list):
        return '(PList [%s])' % '; '.join(coq_py(z) for z in r)
    return '(PInt %d)' % r


def coq_ev(e):
    return 'Ev %d %s %s %s %s %s [%s]' % (e['l'], b(e['s']), b(e['f']), b(e['n']), b(e['b']),
                                         ['SDefault', 'SApp', 'SOther', 'SBoth'][e['sc']],
                                         '; '.join(coq_hd(h) for h in e['h']))


def coq_evs(l):
    return '[%s]' % '; '.join(coq_ev(e) for e in l)


def coq_hd(h):
    if h['t'] == 'p':
        if is_nest(h['r']):
            r = 'RNest (%s)' % coq_ev(h['r']['nest'])
        else:
            r = 'RRaiseK %d' % h.get('xk', 0) if h['r'] == 'x' else 'RRet %s' % coq_py(h['r'])
        if h.get('st'):
            r = 'RStop (%s)' % r
        return 'HP %s (%s)' % (coq_evs(h['k']), r)
    return 'HGK %d [%s] %s %s' % (h.get('xk', 0) if h['x'] else 0, '; '.join('(%s, %s)' % (coq_evs(k), coq_py(y)) for k, y in h['y']),
                              coq_evs(h['k']), b(h['x']))


# ------------------------------------------------------------------------------------ generator

VALUES = [0, 0, 1, 2, 3, 7, 7, 42]


class Gen:
    def __init__(self, rng, maxev, depth, p):
        self.rng, self.left, self.depth, self.p, self.lbl = rng, maxev, depth, p, 0

    def kids(self, d, maxn):
        out = []
        if d >= self.depth or self.rng.random() < 0.45:
            return out
        for _ in range(self.rng.randint(1, maxn)):
            if self.left <= 0:
                break
            out.append(self.ev(d + 1))
        return out

    def val(self, pnone):
        rng = self.rng
        if rng.random() < pnone:
            return None
        if rng.random() < self.p['lst']:      # list results: empty, flat, nested
            return [rng.choice(VALUES) if rng.random() < 0.75 else [rng.choice(VALUES) for _ in range(rng.choice([0, 1, 2]))]
                    for _ in range(rng.choice([0, 1, 2]))]
        return rng.choice(VALUES)

    def ev(self, d):
        rng, p = self.rng, self.p
        self.left -= 1
        self.lbl += 1
        e = {'l': self.lbl, 's': int(rng.random() < p['s']), 'f': int(rng.random() < p['f']),
             'n': int(rng.random() < p['n']), 'b': int(rng.random() < 0.25),
             'sc': rng.choice([0, 0, 0, 1, 2, 3]) if rng.random() < 0.5 else 0, 'h': []}
        for _ in range(rng.choice([0, 1, 1, 2, 2, 3, 3, 4])):
            if rng.random() < p['g']:
                ys = [[self.kids(d, 2), self.val(0.3)] for _ in range(rng.choice([0, 1, 1, 2, 3]))]
                h = {'t': 'g', 'y': ys, 'k': self.kids(d, 2), 'x': int(rng.random() < p['gr'])}
                if h['x']:
                    h['xk'] = rng.choice([0, 0, 1, 1, 2])
                if rng.random() < 0.3:
                    h['ret'] = rng.choice(VALUES)
                e['h'].append(h)
            else:
                kids = self.kids(d, 2)
                if rng.random() < p['nest'] and self.left > 0 and d < self.depth + 1:
                    r = {'nest': self.ev(d + 1)}
                else:
                    r = 'x' if rng.random() < p['r'] else self.val(0.3)
                h = {'t': 'p', 'k': kids, 'r': r}
                if r == 'x':
                    h['xk'] = rng.choice([0, 0, 1, 1, 2])
                if rng.random() < p['stop']:
                    h['st'] = 1
                e['h'].append(h)
        return e


def gen_case(rng, tier):
    p = {'s': rng.choice([0.5, 0.8, 1.0]), 'f': rng.choice([0.3, 0.6, 1.0]), 'n': rng.choice([0, 0.3, 0.7]),
         'g': rng.choice([0, 0.25, 0.5, 0.7]), 'r': rng.choice([0, 0.2, 0.4]), 'gr': rng.choice([0, 0.25, 0.5]),
         'lst': rng.choice([0, 0.1, 0.1, 0.3]), 'nest': rng.choice([0, 0, 0.15, 0.35]), 'stop': rng.choice([0, 0, 0.08, 0.2])}
    if rng.random() < 0.15:     # plain handlers only, many raises and nested-Value returns (err / errors-flag interplay)
        p.update(g=0, r=0.4, nest=0.4, s=1.0)
    elif rng.random() < 0.12:   # list results first, further results, nested Values
        p.update(lst=0.6, nest=0.3, r=0.1)
    g = Gen(rng, rng.choice([2, 4, 8, 12]), rng.choice([1, 2, 3]), p)
    roots = []
    for _ in range(rng.choice([1, 1, 2, 3])):
        if g.left > 0:
            roots.append(g.ev(0))
    return {'roots': roots, 'rot': [rng.randrange(4) for _ in range(rng.randint(1, 4))]}


def event_results(e, log, fin=None):
    """results of event e in production order, read off the handler log with the script: (list, raises).
    A handler that returns the Value of a nested event contributes one result: that Value object, [4, v],
    where v is what the nested event's Value was observed to hold at the end (the nested event's own
    contents are judged at the nested event)"""
    L, results, raises = e['l'], [], 0
    for x in log:
        if x[0] == 0 and x[1] == L and x[2] < len(e['h']):
            r = e['h'][x[2]]['r']
            if r == 'x':
                results.append([2])
                raises += 1
            elif is_nest(r):
                nl = r['nest']['l']
                results.append([4, fin[nl][1] if fin and nl in fin else None])
            elif r is not None:
                results.append(canon_spec(r))
        elif x[0] == 1 and x[1] == L and x[2] < len(e['h']):
            h = e['h'][x[2]]
            if x[3] < len(h['y']):
                if h['y'][x[3]][1] is not None:
                    results.append(canon_spec(h['y'][x[3]][1]))
            elif h['x']:
                results.append([2])
                raises += 1
    return results, raises


def nested_labels(e):
    hs = [e['h'][i] for i in ran_handlers(e)]
    return [h['r']['nest']['l'] for h in hs if h['t'] == 'p' and is_nest(h['r'])]


def own_raises(e):
    hs = [e['h'][i] for i in ran_handlers(e)]
    return any((h['t'] == 'p' and h['r'] == 'x') or (h['t'] == 'g' and h['x']) for h in hs)


def nested_raise(e, specs):
    """some event whose Value e holds (transitively) has a raising handler: circuits propagates that failure
    into e's errors flag; the statement speaks of e's own handlers only, so the oracle leaves the flag (and,
    when the nested failure arrives before e finishes, e's success) open in that case"""
    todo, seen = nested_labels(e), set()
    while todo:
        l = todo.pop()
        if l in seen:
            continue
        seen.add(l)
        if own_raises(specs[l]):
            return True
        todo.extend(nested_labels(specs[l]))
    return False


class C04(Prop):
    id = 'C04'
    props_file = 'Props/C04.v'
    imports = ['Model.Feedback', 'Model.FeedbackObs']
    quick_n = 300
    thorough_n = 6000
    rule = ('forests of scripted events (1-3 roots, <= 12 events, nesting depth <= 3, 0-4 handlers per event): plain '
            'handlers returning None / int (incl. 0) / list / raising, generator handlers with 0-3 yields (None / int / '
            'list) ending in return or raise (raise kinds: Exception subclass, BaseException subclass, GeneratorExit), every handler and every generator segment firing 0-2 child events; '
            'success / failure / notify flags, events on one or two channels, 4 success_channels settings; task-set '
            'iteration order rotated per tick; plain handlers that fire a nested event and return its Value '
            '(`return self.fire(e)`); plain handlers that call event.stop() first. non-trivial = an event with >= 2 '
            'handlers among which a raise, a generator, a nested-Value return or a stop')
    trusted_base = ['hand-written model Model/Feedback.v (Value.setValue/inform, dispatcher try/except, generator '
                    'registration, _eventDone gate, processTask branches for plain generators) tied to the repository by '
                    'this correspondence run on the global log and the final Value of every event',
                    'python oracle in harness/c04.py reading the property off the log, the script and the final Values',
                    'task-set double with controlled iteration order; fire wrapper logging derived events']
    assumptions = ['all events fired with priority 0; distinct handler priorities; one firing thread',
                   'handlers do not call flush()/tick()/stop(), call(), wait(); event.stop() only from plain handlers; the only Value a handler '
                   'returns is that of an event it has just fired; generators do not yield Values',
                   'a failure of a nested event whose Value an event holds is propagated into its errors flag by design; '
                   'the oracle leaves the flag (and a success suppressed by it while generators are pending) undecided',
                   'that no handler is invoked twice for one event is property C01/C02; here it is checked by the '
                   'oracle and the correspondence, not by a theorem']

    def __init__(self):
        self._obs = {}
        self.stats = {}

    def generate(self, rng, n, tier):
        cases = [gen_case(rng, tier) for _ in range(n)]
        st = {'events': 0, 'success': 0, 'failure': 0, 'notify': 0, 'two_channels': 0, 'success_channels': 0,
              'plain_none': 0, 'plain_value': 0, 'plain_list': 0, 'plain_raise': 0, 'gen': 0, 'gen_raise': 0,
              'gen_yields': 0, 'nested_events': 0, 'returns_nested_value': 0, 'raise_then_nested_value': 0, 'stop': 0, 'stop_before_other_handlers': 0, 'raise_kind_exception': 0, 'raise_kind_baseexception': 0, 'raise_kind_generatorexit': 0, 'raise_and_gen_events': 0, 'multi_result_events': 0}
        for c in cases:
            roots = {e['l'] for e in c['roots']}
            for e in walk_events(c['roots']):
                st['events'] += 1
                st['nested_events'] += e['l'] not in roots
                st['success'] += e['s']
                st['failure'] += e['f']
                st['notify'] += e['n']
                st['two_channels'] += e['b']
                st['success_channels'] += e['sc'] != 0
                nr = 0
                for h in e['h']:
                    if h['t'] == 'g':
                        st['gen'] += 1
                        st['gen_raise'] += h['x']
                        if h['x']:
                            st[KIND_STAT[h.get('xk', 0)]] += 1
                        st['gen_yields'] += len(h['y'])
                        nr += sum(1 for y in h['y'] if y[1] is not None) + h['x']
                    elif is_nest(h['r']):
                        st['returns_nested_value'] += 1
                        st['stop'] += bool(h.get('st'))
                        nr += 1
                    else:
                        if h['r'] == 'x':
                            st[KIND_STAT[h.get('xk', 0)]] += 1
                        k = ('plain_raise' if h['r'] == 'x' else 'plain_none' if h['r'] is None else
                             'plain_list' if isinstance(h['r'], list) else 'plain_value')
                        st[k] += 1
                        st['stop'] += bool(h.get('st'))
                        nr += h['r'] is not None
                st['multi_result_events'] += nr >= 2
                st['stop_before_other_handlers'] += len(ran_handlers(e)) < len(e['h'])
                seen_raise = False
                for h in e['h']:
                    if h['t'] == 'p' and h['r'] == 'x':
                        seen_raise = True
                    elif h['t'] == 'p' and is_nest(h['r']) and seen_raise:
                        st['raise_then_nested_value'] += 1
                        break
                st['raise_and_gen_events'] += (any(h['t'] == 'g' for h in e['h']) and
                                               any(h['t'] == 'p' and h['r'] == 'x' or h['t'] == 'g' and h['x']
                                                   for h in e['h']))
        self.stats = {'distribution': st}
        return cases

    def impl(self, case):
        obs = run_script(case)
        self._obs[common.canon(case)] = obs
        return obs

    def model_term(self, case):
        obs = self._obs.get(common.canon(case))
        if obs is None:
            obs = self.safe_impl(case)
        sched = obs.get('sched', []) if isinstance(obs, dict) else []
        s = '[%s]' % '; '.join('[%s]' % '; '.join('(%d%%nat, %d%%nat)' % (a, c) for a, c in t) for t in sched)
        return 'obs_run %s %s %d' % (coq_evs(case['roots']), s, MAXTICKS)

    def obs_for_model(self, case, obs):
        if isinstance(obs, dict) and '__crash__' in obs:
            return [-999]
        return [obs['log'], obs['final'], obs['quiet']]

    # ---- oracle: direct reading of the statement on the log, the script and the final Values
    def oracle(self, case, obs):
        if isinstance(obs, dict) and '__crash__' in obs:
            return None
        log = obs['log']
        specs = {e['l']: e for e in walk_events(case['roots'])}
        fin = {f[0]: f for f in obs['final']}

        def cnt(x):
            return sum(1 for y in log if y == x)

        def pos(x):
            return [p for p, y in enumerate(log) if y == x]

        if obs.get('escaped'):
            return 'isolation: %s raised by a handler escaped from tick()' % ', '.join(obs['escaped'])
        if not obs['quiet']:
            stuck = sorted(l for l, f in fin.items() if f[5] != 0)
            return 'hang: queue and task set did not drain in %d ticks (events still waiting: %r)' % (MAXTICKS, stuck)
        # isolation: whatever raised, every event fired by a handler that runs was fired and dispatched, every handler
        # up to the first one that calls event.stop() ran to its end, the others (and their events) not at all
        fired = {e['l']: e for e in fired_events(case['roots'])}
        for L, e in sorted(specs.items()):
            if L not in fired:
                if any(x[0] in (0, 1, 4, 5) and x[1] == L for x in log):
                    return 'stop: event %d belongs to a handler that must not run but left log entries (event %d)' % (L, L)
                continue
            if cnt([5, L]) != 1:
                return 'isolation: event %d was fired %d times although every handler must run (event %d)' % (L, cnt([5, L]), L)
            want = (0, 0) if stopped(e) else (1, 1 if e['b'] else 0)
            if (cnt([4, L, 0]), cnt([4, L, 1])) != want:
                return 'isolation: event %d was not dispatched exactly once to the observers (event %d)' % (L, L)
            ran = ran_handlers(e)
            for i, h in enumerate(e['h']):
                if i not in ran:
                    if any(x[0] in (0, 1) and x[1] == L and x[2] == i for x in log):
                        return 'stop: handler %d of event %d ran although the event had been stopped (event %d)' % (i, L, L)
                    continue
                if h['t'] == 'p':
                    if cnt([0, L, i]) != 1:
                        return 'isolation: handler %d of event %d invoked %d times (event %d)' % (i, L, cnt([0, L, i]), L)
                else:
                    last = -1
                    for k in range(len(h['y']) + 1):
                        ps = pos([1, L, i, k])
                        if len(ps) != 1 or ps[0] < last:
                            return 'isolation: segment %d of generator handler %d of event %d ran %d times (event %d)' % (
                                k, i, L, len(ps), L)
                        last = ps[0]
        specs = fired
        # problems of all events are collected; one that is not an instance of a recorded finding is reported first,
        # so that a recorded finding never masks a different problem of the same case
        probs = []
        for L, e in sorted(specs.items()):
            results, raises = event_results(e, log, fin)
            has_nest = bool(nested_labels(e))
            open_flag = raises == 0 and nested_raise(e, specs)
            f = fin[L]
            if f[5] != 0:
                return 'hang: event %d still has waitingHandlers = %d (event %d)' % (L, f[5], L)
            exp = [0] if not results else results[0] if len(results) == 1 else [3, results]
            if f[1] != exp:
                probs.append('value: event %d holds %r, expected %r (event %d)' % (L, f[1], exp, L))
            if not has_nest and f[3] != (len(results) > 0):
                probs.append('value: result flag of event %d is %r with %d results (event %d)' % (L, f[3], len(results), L))
            if not open_flag and f[2] != (raises > 0):
                probs.append('errors: flag of event %d is %r but %d handlers raised (event %d)' % (L, f[2], raises, L))
            if cnt([3, 2, L]) != raises or cnt([2, 2, L, 0]) != raises or cnt([2, 2, L, 1]) != 0:
                probs.append('exception: %d exception events fired / %d dispatched for %d raises (event %d)' % (
                    cnt([3, 2, L]), cnt([2, 2, L, 0]), raises, L))
            nf = raises if e['f'] else 0
            if cnt([3, 1, L]) != nf or cnt([2, 1, L, 0]) != nf or cnt([2, 1, L, 1]) != (nf if e['b'] else 0):
                probs.append('failure: %d e%d_failure events fired, expected %d (event %d)' % (cnt([3, 1, L]), L, nf, L))
            ns = 1 if (e['s'] and raises == 0) else 0
            if ns and open_flag and cnt([3, 0, L]) == 0 and any(h['t'] == 'g' for h in e['h']):
                ns = 0      # a nested failure reached the event before its generators ended: not decided by the statement
            if cnt([3, 0, L]) != ns:
                probs.append('success: e%d_success fired %d times, expected %d (%d handlers raised) (event %d)' % (
                    L, cnt([3, 0, L]), ns, raises, L))
            elif ns:
                sp = pos([3, 0, L])[0]
                for p, x in enumerate(log):
                    if p > sp and x[0] in (0, 1) and x[1] == L:
                        probs.append('success: e%d_success fired before handler entry %r (event %d)' % (L, x, L))
                        break
                to_app, to_other = {0: (1, e['b']), 1: (1, 0), 2: (0, 1), 3: (1, 1)}[e['sc']]
                if cnt([2, 0, L, 0]) != to_app or cnt([2, 0, L, 1]) != to_other:
                    probs.append('success: e%d_success not delivered exactly once on its success_channels (event %d)' % (L, L))
            elif cnt([2, 0, L, 0]) or cnt([2, 0, L, 1]):
                probs.append('success: e%d_success dispatched but not expected (event %d)' % (L, L))
        order = {'success': 0, 'errors': 1, 'failure': 2, 'exception': 3, 'value': 4}
        probs.sort(key=lambda w: order.get(w.split(':')[0], 9))
        for w in probs:
            if self.finding_class(case, obs, w) is None:
                return w
        return probs[0] if probs else None

    def finding_class(self, case, obs, what):
        # no open finding is recorded for C04 (the list-first defect is repaired by fixes/C04_list_result.patch)
        return None

    def nontrivial(self, case, obs):
        for e in walk_events(case['roots']):
            if len(e['h']) >= 2 and any(h['t'] == 'g' or h['r'] == 'x' or is_nest(h['r']) or h.get('st') for h in e['h']):
                return True
        return False

    def search(self, rng, tier):
        return [gen_case(rng, tier) for _ in range(3000)]


if __name__ == '__main__':
    sys.exit(common.main(C04()))
