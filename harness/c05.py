"""C05 — `<name>_complete` fires exactly once, after the whole causal closure has drained.

A case is a forest of scripted events.  Every event has a unique label `l` (>= 1), flags `c` (asks for
completion notification), `x` (cancelled right after it was fired, i.e. before dispatch), `s` / `f` (asks for
`_success` / `_failure` feedback), a priority `p` (model scale: python priority = p - 1, lower = earlier), a
channel `ch` (0 = 'a', 1 = 'b') and a list of handler scripts (descending handler priority):

  {'t': 'p', 'ch': c, 'f': [events fired], 's': stop?, 'r': raise?}     plain handler on channel c
  {'t': 'g', 'ch': c, 'st': [step, ...]}                                generator handler; a step is
        {'k': 's', 'f': [events]}   fire, then `yield None` (return after the last step)
        {'k': 'r', 'f': [events]}   fire, then raise
        {'k': 'c', 'e': event}      `yield self.call(event)`; continues with the next step when resumed

The same script is compiled to real circuits handlers (impl) and to a Coq term (model_term).
Observable = the global log:  [0,l,i] plain handler i of event l invoked;  [1,l,i,k] step k of generator
handler i of event l;  [2,l] `e<l>_complete` fired;  [3,l] `e<l>_complete` dispatched;  [5,l,p] event l fired
by a handler of event p (0 = by the harness) -- the ghost causality tree;  [6,k,l] the manager-generated
event of kind k (0 exception, 1 failure, 2 success, 3 done) of event l dispatched.
"""
import sys, os, threading, signal
sys.path.insert(0, os.path.dirname(os.path.abspath(__file__)))
import common
from common import Prop

from circuits import Component, Event, handler
from circuits.core.manager import Manager

MAXTICKS = 400
MAXLOG = 5000          # a run that logs more than this is a runaway loop in the code under test
WATCHDOG_S = 10
CH = ['a', 'b']
SUFFIX = {'_failure': 1, '_success': 2, '_done': 3}


class Runaway(BaseException):
    pass


def _alarm(signo, frame):
    raise Runaway('case did not finish within %d s' % WATCHDOG_S)


class Scripted(RuntimeError):
    pass


class OrderedTasks(set):
    """stand-in for the root's task *set*: iteration order is insertion order rotated by `rot`
    (the real set iterates in address order; the property quantifies over that order)"""

    def __init__(self):
        set.__init__(self)
        self.order = []
        self.rot = 0

    def add(self, t):
        if t not in self:
            set.add(self, t)
            self.order.append(t)

    def remove(self, t):
        set.remove(self, t)
        self.order.remove(t)

    def discard(self, t):
        if t in self:
            self.remove(t)

    def copy(self):
        o = list(self.order)
        k = self.rot % len(o) if o else 0
        return o[k:] + o[:k]

    def __iter__(self):
        return iter(self.copy())


def norm_ev(e):
    """accept the first-round case format (no flags, generator steps as lists, 'r' = raising step)"""
    e.setdefault('s', 0), e.setdefault('f', 0), e.setdefault('p', 1), e.setdefault('ch', 0)
    for h in e['h']:
        h.setdefault('ch', 0)
        if h['t'] == 'p':
            for k in h['f']:
                norm_ev(k)
        else:
            r = h.pop('r', -1)
            st = []
            for k, s in enumerate(h['st']):
                if isinstance(s, list):
                    s = {'k': 'r' if k == r else 's', 'f': s}
                st.append(s)
                if s['k'] == 'r' and k == r:
                    break
            h['st'] = st
            for s in st:
                for k in ([s['e']] if s['k'] == 'c' else s['f']):
                    norm_ev(k)
    return e


def norm_case(c):
    for r in c['roots']:
        norm_ev(r)
    return c


def walk_events(evs):
    """all event specs of a forest, pre-order"""
    for e in evs:
        yield e
        for h in e['h']:
            if h['t'] == 'p':
                yield from walk_events(h['f'])
            else:
                for st in h['st']:
                    yield from walk_events([st['e']] if st['k'] == 'c' else st['f'])


def feedback_label(event):
    """(kind, label) of a manager-generated event about a scripted event, else None"""
    nm = event.name
    if nm == 'exception':
        fe = event.kwargs.get('fevent')
        fn = getattr(fe, 'name', '')
        if fn[:1] == 'e' and fn[1:].isdigit():
            return 0, int(fn[1:])
        return None
    for suf, k in SUFFIX.items():
        if nm.endswith(suf) and nm[:1] == 'e' and nm[1:-len(suf)].isdigit():
            return k, int(nm[1:-len(suf)])
    return None


def run_script(case):
    log = []
    objs = {}
    genkey = {}
    keep = []
    stepped = []

    def catch(event):
        nm = event.name
        if nm.endswith('_complete') and nm[:1] == 'e' and nm[1:-9].isdigit():
            log.append([3, int(nm[1:-9])])
        else:
            fb = feedback_label(event)
            if fb:
                log.append([6, fb[0], fb[1]])

    class App(Component):
        channel = CH[0]

        @handler(False)
        def fireEvent(self, event, *channels, **kw):
            nm = getattr(event, 'name', '')
            if nm.endswith('_complete') and nm[:1] == 'e' and nm[1:-9].isdigit():
                log.append([2, int(nm[1:-9])])
            if len(log) > MAXLOG:
                raise Runaway('more than %d log entries' % MAXLOG)
            return Manager.fireEvent(self, event, *channels, **kw)

        fire = fireEvent

        @handler(False)
        def processTask(self, event, task, parent=None):
            k = genkey.get(id(parent if parent is not None else task))
            if k:
                stepped.append(list(k))
            return Manager.processTask(self, event, task, parent)

        @handler(priority=-5)
        def _catch_all(self, event, *args, **kwargs):
            catch(event)

    class Other(Component):
        channel = CH[1]

        @handler(priority=-5)
        def _catch_all(self, event, *args, **kwargs):
            catch(event)

    app = App()
    comps = [app, Other().register(app)]

    def new_event(spec, parent):
        ev = Event.create('e%d' % spec['l'])
        if spec['c']:
            ev.complete = True
        if spec['s']:
            ev.success = True
        if spec['f']:
            ev.failure = True
        objs[spec['l']] = ev
        log.append([5, spec['l'], parent])
        return ev

    def fire_child(spec, parent):
        ev = new_event(spec, parent)
        app.fire(ev, CH[spec['ch']], priority=spec['p'] - 1)
        if spec['x']:
            ev.cancel()

    def mk_plain(L, i, hd):
        def fn(self, event):
            log.append([0, L, i])
            for ch in hd['f']:
                fire_child(ch, L)
            if hd['s']:
                event.stop()
            if hd['r']:
                raise Scripted('scripted failure')
        fn.__name__ = 'h_%d_%d' % (L, i)
        return fn

    def mk_gen(L, i, hd):
        steps = hd['st']

        def gen(self, event):
            for k, st in enumerate(steps):
                log.append([1, L, i, k])
                if st['k'] == 'c':
                    yield self.call(new_event(st['e'], L), CH[st['e']['ch']])
                    continue
                for ch in st['f']:
                    fire_child(ch, L)
                if st['k'] == 'r':
                    raise Scripted('scripted failure in step')
                if k < len(steps) - 1:
                    yield None

        def fn(self, event):
            g = gen(self, event)
            genkey[id(g)] = (L, i)
            keep.append(g)
            return g
        fn.__name__ = 'g_%d_%d' % (L, i)
        return fn

    for spec in walk_events(case['roots']):
        n = len(spec['h'])
        for i, hd in enumerate(spec['h']):
            f = mk_plain(spec['l'], i, hd) if hd['t'] == 'p' else mk_gen(spec['l'], i, hd)
            comps[hd['ch']].addHandler(handler('e%d' % spec['l'], priority=n - i)(f))

    tasks = OrderedTasks()
    if isinstance(common.get_tasks(app, None), set):
        common.set_tasks(app, tasks)
    # as run() does: fires from handlers and task steps are own-thread fires
    app._executing_thread = threading.current_thread()
    old = None
    if threading.current_thread() is threading.main_thread():
        old = signal.signal(signal.SIGALRM, _alarm)
        signal.setitimer(signal.ITIMER_REAL, WATCHDOG_S, 1)
    try:
        for _ in range(4):           # the `registered` event of the second component
            app.tick()
        del log[:]
        for spec in case['roots']:
            fire_child(spec, 0)
        rot = case.get('rot') or [0]
        sched, quiet, t = [], False, 0
        for t in range(MAXTICKS):
            if not len(app) and not len(common.get_tasks(app)):
                quiet = True
                break
            tasks.rot = rot[t % len(rot)]
            del stepped[:]
            app.tick()
            sched.append(list(stepped))
    finally:
        if old is not None:
            signal.setitimer(signal.ITIMER_REAL, 0)
            signal.signal(signal.SIGALRM, old)
        app._executing_thread = None
    fired = [x[1] for x in log if x[0] == 5]
    live = [l for l in fired if getattr(objs[l], 'cause', None) is not None]
    return {'log': log, 'live': live, 'quiet': quiet, 'sched': sched, 'ticks': t}


# ------------------------------------------------------------------------------------ Coq literals

def b(x):
    return 'true' if x else 'false'


def coq_ev(e):
    return 'Ev %d %s %s %s %s %d %d [%s]' % (e['l'], b(e['c']), b(e['x']), b(e['s']), b(e['f']), e['p'], e['ch'],
                                            '; '.join(coq_hd(h) for h in e['h']))


def coq_evs(l):
    return '[%s]' % '; '.join(coq_ev(e) for e in l)


def coq_step(s):
    if s['k'] == 'c':
        return 'GC (%s)' % coq_ev(s['e'])
    return '%s %s' % ('GR' if s['k'] == 'r' else 'GS', coq_evs(s['f']))


def coq_hd(h):
    if h['t'] == 'p':
        return 'HP %d %s %s %s' % (h['ch'], coq_evs(h['f']), b(h['s']), b(h['r']))
    return 'HG %d [%s]' % (h['ch'], '; '.join(coq_step(s) for s in h['st']))


# ------------------------------------------------------------------------------------ generator

class Gen:
    def __init__(self, rng, maxev, depth, p):
        self.rng, self.left, self.depth, self.p, self.lbl = rng, maxev, depth, p, 0

    def kids(self, d, maxn):
        out = []
        if d >= self.depth:
            return out
        for _ in range(self.rng.randint(0, maxn)):
            if self.left <= 0:
                break
            out.append(self.ev(d + 1))
        return out

    def ev(self, d, root=False, callee=False):
        rng, p = self.rng, self.p
        self.left -= 1
        self.lbl += 1
        ch = int(rng.random() < p['ch'])
        e = {'l': self.lbl, 'c': int(rng.random() < (p['croot'] if root else p['c'])),
             'x': int((not root) and (not callee) and rng.random() < p['x']),
             's': int(rng.random() < p['sf']), 'f': int(rng.random() < p['sf']),
             'p': 1 if callee or rng.random() > p['prio'] else rng.choice([0, 2, 3]), 'ch': ch, 'h': []}
        if e['x'] and rng.random() < 0.6:
            return e          # handlers of a cancelled event never run; keep a few anyway
        for _ in range(rng.choice([0, 1, 1, 1, 2, 2, 3])):
            hch = ch if rng.random() > p['ch'] * 0.3 else 1 - ch      # a few handlers on the other channel
            if rng.random() < p['g']:
                st = []
                for _ in range(rng.randint(1, 3)):
                    r = rng.random()
                    if r < p['call'] and self.left > 0 and d < self.depth:
                        st.append({'k': 'c', 'e': self.ev(d + 1, callee=True)})
                    elif r < p['call'] + p['gr']:
                        st.append({'k': 'r', 'f': self.kids(d, 2)})
                        break
                    else:
                        st.append({'k': 's', 'f': self.kids(d, 2)})
                e['h'].append({'t': 'g', 'ch': hch, 'st': st})
            else:
                # a stop() in a called event starves waitEvent's handler and hangs the caller (C06's subject)
                e['h'].append({'t': 'p', 'ch': hch, 'f': self.kids(d, 3),
                               's': int((not callee) and rng.random() < p['s']), 'r': int(rng.random() < p['r'])})
        return e


def gen_case(rng, tier):
    p = {'croot': 0.85, 'c': rng.choice([0.1, 0.3, 0.5]), 'x': rng.choice([0, 0.1, 0.25]),
         'g': rng.choice([0, 0.2, 0.5]), 's': rng.choice([0, 0.15]), 'r': rng.choice([0, 0.15]),
         'gr': rng.choice([0, 0, 0.15]), 'call': rng.choice([0, 0.2, 0.4]), 'sf': rng.choice([0, 0.25]),
         'prio': rng.choice([0, 0, 0.3]), 'ch': rng.choice([0, 0, 0.4])}
    g = Gen(rng, rng.choice([4, 8, 14, 20]), rng.choice([2, 3, 5]), p)
    roots = []
    for _ in range(rng.choice([1, 1, 2, 3])):
        if g.left > 0:
            roots.append(g.ev(0, root=True))
    return {'roots': roots, 'rot': [rng.randrange(4) for _ in range(rng.randint(1, 4))]}


class C05(Prop):
    id = 'C05'
    props_file = 'Props/C05.v'
    imports = ['Model.Effects', 'Model.EffectsObs']
    quick_n = 500
    thorough_n = 4000
    rule = ('forests of scripted events (1-3 roots, <= 20 events, depth <= 5, fan-out <= 3 per handler / 2 per generator '
            'step, 0-3 handlers per event): plain handlers that fire, stop(), raise; generator handlers with 1-3 steps '
            'that fire, raise or `yield self.call(event)`; events cancelled right after being fired; nested '
            'complete-requesting events; success/failure feedback requested; event priorities -1..2; two channels with '
            'handlers on either; task-set iteration order rotated per tick. non-trivial = a complete-requesting event '
            'whose closure has >= 3 events and contains a cancelled, stopped, raising, generator-fired or called event')
    trusted_base = ['hand-written model Model/Effects.v (fire linking, priority queue, dispatcher, _eventDone walk, task '
                    'steps incl. call/resume) tied to the repository by this correspondence run on the global handler log',
                    'python oracle in harness/c05.py reading the ghost causality tree recorded by the scripted handlers',
                    'task-set double with controlled iteration order; fire / processTask wrappers on the root component']
    assumptions = ['distinct handler priorities per event; one firing thread',
                   'handlers do not call flush()/tick()/stop() of the manager or wait(); call() only from generator steps, '
                   'called events are not cancelled and their handlers do not stop() (the caller would hang: C06)',
                   '<name>_success and <name>_done are fired by _eventDone after handling and are not effects of the '
                   'event (the code does not track them); exception and <name>_failure are',
                   'a cancelled event is not required to fire its own <name>_complete']

    def __init__(self):
        self._obs = {}
        self.stats = {}

    def corpus(self):
        return [norm_case(c) for c in Prop.corpus(self)]

    def generate(self, rng, n, tier):
        cases = [gen_case(rng, tier) for _ in range(n)]
        st = {'events': 0, 'complete': 0, 'cancelled': 0, 'gen_handlers': 0, 'stop': 0, 'raise': 0, 'gen_raise': 0,
              'calls': 0, 'success': 0, 'failure': 0, 'prio_nonzero': 0, 'chan_b': 0, 'handler_other_chan': 0,
              'multi_root': 0}
        for c in cases:
            st['multi_root'] += len(c['roots']) > 1
            for e in walk_events(c['roots']):
                st['events'] += 1
                st['complete'] += e['c']
                st['cancelled'] += e['x']
                st['success'] += e['s']
                st['failure'] += e['f']
                st['prio_nonzero'] += e['p'] != 1
                st['chan_b'] += e['ch']
                for h in e['h']:
                    st['handler_other_chan'] += h['ch'] != e['ch']
                    if h['t'] == 'g':
                        st['gen_handlers'] += 1
                        st['gen_raise'] += any(s['k'] == 'r' for s in h['st'])
                        st['calls'] += sum(s['k'] == 'c' for s in h['st'])
                    else:
                        st['stop'] += h['s']
                        st['raise'] += h['r']
        self.stats = {'distribution': st}
        return cases

    def impl(self, case):
        obs = run_script(norm_case(case))
        self._obs[common.canon(case)] = obs
        return obs

    def model_term(self, case):
        obs = self._obs.get(common.canon(case))
        if obs is None:
            obs = self.safe_impl(case)
        sched = obs.get('sched', []) if isinstance(obs, dict) else []
        s = '[%s]' % '; '.join('[%s]' % '; '.join('(%d%%nat, %d%%nat)' % (a, c) for a, c in t) for t in sched)
        return 'obs_run %s %s %d' % (coq_evs(norm_case(case)['roots']), s, MAXTICKS)

    def obs_for_model(self, case, obs):
        if isinstance(obs, dict) and '__crash__' in obs:
            return [-999]
        return [obs['log'], obs['live'], obs['quiet']]

    # ---- oracle: direct reading of the statement on the log and the ghost tree recorded in it
    def oracle(self, case, obs):
        if isinstance(obs, dict) and '__crash__' in obs:
            return None
        if not obs['quiet']:
            return 'queue and task set did not drain in %d ticks' % MAXTICKS
        log = obs['log']
        specs = {e['l']: e for e in walk_events(norm_case(case)['roots'])}
        parent, firedpos = {}, {}
        for pos, x in enumerate(log):
            if x[0] == 5:
                if x[1] in parent:
                    return 'event %d fired twice by the script driver' % x[1]
                parent[x[1]] = x[2]
                firedpos[x[1]] = pos
        kids = {}
        for l, p in parent.items():
            kids.setdefault(p, []).append(l)

        def closure(l):
            out, todo = [], [l]
            while todo:
                a = todo.pop()
                out.append(a)
                todo.extend(kids.get(a, []))
            return out

        def dispatched_handlers(d):
            """does event d have a handler that the dispatcher must reach first (same channel)?"""
            return [i for i, h in enumerate(specs[d]['h']) if h['ch'] == specs[d]['ch']]

        for l in sorted(parent):
            e = specs[l]
            if not e['c']:
                continue
            fpos = [pos for pos, x in enumerate(log) if x[0] == 2 and x[1] == l]
            dpos = [pos for pos, x in enumerate(log) if x[0] == 3 and x[1] == l]
            if e['x']:
                if len(fpos) > 1:
                    return 'twice: e%d_complete fired %d times (cancelled event %d)' % (l, len(fpos), l)
                continue
            if len(fpos) == 0:
                return 'never: e%d_complete never fired although queue and tasks drained (event %d)' % (l, l)
            if len(fpos) > 1:
                return 'twice: e%d_complete fired %d times (event %d)' % (l, len(fpos), l)
            if len(dpos) != 1 or dpos[0] < fpos[0]:
                return 'e%d_complete fired once but dispatched %d times' % (l, len(dpos))
            cl = set(closure(l))
            for pos, x in enumerate(log):
                if pos <= fpos[0]:
                    continue
                if x[0] in (0, 1) and x[1] in cl:
                    return ('early: e%d_complete fired at log position %d before handler entry %r of event %d of its '
                            'closure (event %d)' % (l, fpos[0], x, x[1], l))
                if x[0] == 5 and x[2] in cl:
                    return 'early: e%d_complete fired before event %d of its closure was even fired (event %d)' % (l, x[1], l)
                if x[0] == 6 and x[1] in (0, 1) and x[2] in cl:
                    return ('early: e%d_complete fired before the %s event of event %d of its closure was dispatched '
                            '(event %d)' % (l, ['exception', 'failure'][x[1]], x[2], l))
            # every fired, not cancelled member with handlers was dispatched (first handler ran) before
            for d in cl:
                hs = dispatched_handlers(d)
                if specs[d]['x'] or not hs:
                    continue
                if not any(x[0] in (0, 1) and x[1] == d and x[2] == hs[0] for x in log[:fpos[0]]):
                    return 'early: e%d_complete fired before event %d of its closure was dispatched (event %d)' % (l, d, l)
        return None

    def finding_class(self, case, obs, what):
        return None

    def nontrivial(self, case, obs):
        for r in norm_case(case)['roots']:
            evs = list(walk_events([r]))
            if r['c'] and len(evs) >= 3 and any(
                    e['x'] or any(h['t'] == 'g' or h['s'] or h['r'] for h in e['h']) for e in evs):
                return True
        return False

    def search(self, rng, tier):
        return [gen_case(rng, tier) for _ in range(3000)]


if __name__ == '__main__':
    sys.exit(common.main(C05()))
