"""C05 — `<name>_complete` fires exactly once, after the whole causal closure has drained.

A case is a forest of scripted events.  Every event has a unique label (>= 1), flags `c` (asks for completion
notification) and `x` (cancelled right after it was fired, i.e. before dispatch) and a list of handler scripts:

  {'t': 'p', 'f': [events fired], 's': stop?, 'r': raise?}          plain handler
  {'t': 'g', 'st': [[events fired in step 0], [step 1], ...], 'r': k}  generator handler (one entry of 'st' per
                                                                     next(); r = step that raises, -1 = none)

The same script is compiled to real circuits handlers (impl) and to a Coq term (model_term).
Observable = the global log:  [0,l,i] plain handler i of event l invoked;  [1,l,i,k] step k of generator
handler i of event l;  [2,l] `e<l>_complete` fired;  [3,l] `e<l>_complete` dispatched;  [5,l,p] event l fired
by a handler of event p (0 = by the harness) -- the ghost causality tree.
"""
import sys, os, threading, signal
sys.path.insert(0, os.path.dirname(os.path.abspath(__file__)))
import common
from common import Prop

from circuits import Component, Event, handler
from circuits.core.manager import Manager

MAXTICKS = 400
MAXLOG = 5000          # a run that logs more than this is a runaway loop in the code under test
WATCHDOG_S = 10


class Runaway(BaseException):
    pass


def _alarm(signo, frame):
    raise Runaway('case did not finish within %d s' % WATCHDOG_S)


class Scripted(RuntimeError):
    pass


class OrderedTasks(set):
    """stand-in for the root's task *set*: iteration order is insertion order rotated by `rot`
    (the real set iterates in address order; the property quantifies over that order)"""

    def __init__(self):
        set.__init__(self)
        self.order = []
        self.rot = 0

    def add(self, t):
        if t not in self:
            set.add(self, t)
            self.order.append(t)

    def remove(self, t):
        set.remove(self, t)
        self.order.remove(t)

    def discard(self, t):
        if t in self:
            self.remove(t)

    def copy(self):
        o = list(self.order)
        k = self.rot % len(o) if o else 0
        return o[k:] + o[:k]

    def __iter__(self):
        return iter(self.copy())


def walk_events(evs):
    """all event specs of a forest, pre-order"""
    for e in evs:
        yield e
        for h in e['h']:
            if h['t'] == 'p':
                yield from walk_events(h['f'])
            else:
                for st in h['st']:
                    yield from walk_events(st)


def has_gen_raise(evs):
    return any(h['t'] == 'g' and h.get('r', -1) >= 0 for e in walk_events(evs) for h in e['h'])


def run_script(case):
    log = []
    objs = {}

    class App(Component):
        channel = 'app'

        @handler(False)
        def fireEvent(self, event, *channels, **kw):
            nm = getattr(event, 'name', '')
            if nm.endswith('_complete') and nm[:1] == 'e' and nm[1:-9].isdigit():
                log.append([2, int(nm[1:-9])])
            if len(log) > MAXLOG:
                raise Runaway('more than %d log entries' % MAXLOG)
            return Manager.fireEvent(self, event, *channels, **kw)

        fire = fireEvent

        @handler(priority=-5)
        def _catch_all(self, event, *args, **kwargs):
            nm = event.name
            if nm.endswith('_complete') and nm[:1] == 'e' and nm[1:-9].isdigit():
                log.append([3, int(nm[1:-9])])

    app = App()

    def fire_child(spec, parent):
        ev = Event.create('e%d' % spec['l'])
        if spec['c']:
            ev.complete = True
        objs[spec['l']] = ev
        log.append([5, spec['l'], parent])
        app.fire(ev)
        if spec['x']:
            ev.cancel()

    def mk_plain(L, i, hd):
        def fn(self, event):
            log.append([0, L, i])
            for ch in hd['f']:
                fire_child(ch, L)
            if hd['s']:
                event.stop()
            if hd['r']:
                raise Scripted('scripted failure')
        fn.__name__ = 'h_%d_%d' % (L, i)
        return fn

    def mk_gen(L, i, hd):
        steps, r = hd['st'], hd.get('r', -1)

        def fn(self, event):
            for k, st in enumerate(steps):
                log.append([1, L, i, k])
                for ch in st:
                    fire_child(ch, L)
                if k == r:
                    raise Scripted('scripted failure in step')
                if k < len(steps) - 1:
                    yield None
        fn.__name__ = 'g_%d_%d' % (L, i)
        return fn

    for spec in walk_events(case['roots']):
        n = len(spec['h'])
        for i, hd in enumerate(spec['h']):
            f = mk_plain(spec['l'], i, hd) if hd['t'] == 'p' else mk_gen(spec['l'], i, hd)
            app.addHandler(handler('e%d' % spec['l'], priority=n - i)(f))

    tasks = OrderedTasks()
    if isinstance(getattr(app, '_tasks', None), set):
        app._tasks = tasks
    # as run() does: fires from handlers and task steps are own-thread fires
    app._executing_thread = threading.current_thread()
    old = None
    if threading.current_thread() is threading.main_thread():
        old = signal.signal(signal.SIGALRM, _alarm)
        signal.setitimer(signal.ITIMER_REAL, WATCHDOG_S, 1)
    try:
        for spec in case['roots']:
            fire_child(spec, 0)
        rot = case.get('rot') or [0]
        sched, quiet, t = [], False, 0
        for t in range(MAXTICKS):
            if not len(app) and not len(app._tasks):
                quiet = True
                break
            tasks.rot = rot[t % len(rot)]
            mark = len(log)
            app.tick()
            sched.append([[x[1], x[2]] for x in log[mark:] if x[0] == 1])
    finally:
        if old is not None:
            signal.setitimer(signal.ITIMER_REAL, 0)
            signal.signal(signal.SIGALRM, old)
        app._executing_thread = None
    fired = [x[1] for x in log if x[0] == 5]
    live = [l for l in fired if getattr(objs[l], 'cause', None) is not None]
    return {'log': log, 'live': live, 'quiet': quiet, 'sched': sched, 'ticks': t}


# ------------------------------------------------------------------------------------ Coq literals

def b(x):
    return 'true' if x else 'false'


def coq_ev(e):
    return 'Ev %d %s %s [%s]' % (e['l'], b(e['c']), b(e['x']), '; '.join(coq_hd(h) for h in e['h']))


def coq_evs(l):
    return '[%s]' % '; '.join(coq_ev(e) for e in l)


def coq_hd(h):
    if h['t'] == 'p':
        return 'HP %s %s %s' % (coq_evs(h['f']), b(h['s']), b(h['r']))
    return 'HG [%s]' % '; '.join(coq_evs(st) for st in h['st'])


# ------------------------------------------------------------------------------------ generator

class Gen:
    def __init__(self, rng, maxev, depth, p):
        self.rng, self.left, self.depth, self.p, self.lbl = rng, maxev, depth, p, 0

    def kids(self, d, maxn):
        out = []
        if d >= self.depth:
            return out
        for _ in range(self.rng.randint(0, maxn)):
            if self.left <= 0:
                break
            out.append(self.ev(d + 1))
        return out

    def ev(self, d, root=False):
        rng, p = self.rng, self.p
        self.left -= 1
        self.lbl += 1
        e = {'l': self.lbl, 'c': int(rng.random() < (p['croot'] if root else p['c'])),
             'x': int((not root) and rng.random() < p['x']), 'h': []}
        if e['x'] and rng.random() < 0.6:
            return e          # handlers of a cancelled event never run; keep a few anyway
        for _ in range(rng.choice([0, 1, 1, 1, 2, 2, 3])):
            if rng.random() < p['g']:
                st = [self.kids(d, 2) for _ in range(rng.randint(1, 3))]
                r = rng.randrange(len(st)) if rng.random() < p['gr'] else -1
                e['h'].append({'t': 'g', 'st': st, 'r': r})
            else:
                e['h'].append({'t': 'p', 'f': self.kids(d, 3), 's': int(rng.random() < p['s']),
                               'r': int(rng.random() < p['r'])})
        return e


def gen_case(rng, tier):
    p = {'croot': 0.85, 'c': rng.choice([0.1, 0.3, 0.5]), 'x': rng.choice([0, 0.1, 0.25]),
         'g': rng.choice([0, 0.2, 0.5]), 's': rng.choice([0, 0.15]), 'r': rng.choice([0, 0.15]),
         'gr': rng.choice([0, 0, 0, 0.2])}
    g = Gen(rng, rng.choice([4, 8, 14, 20]), rng.choice([2, 3, 5]), p)
    roots = []
    for _ in range(rng.choice([1, 1, 2, 3])):
        if g.left > 0:
            roots.append(g.ev(0, root=True))
    return {'roots': roots, 'rot': [rng.randrange(4) for _ in range(rng.randint(1, 4))]}


class C05(Prop):
    id = 'C05'
    props_file = 'Props/C05.v'
    imports = ['Model.Effects', 'Model.EffectsObs']
    quick_n = 500
    thorough_n = 4000
    rule = ('forests of scripted events (1-3 roots, <= 20 events, depth <= 5, fan-out <= 3 per handler / 2 per generator '
            'step, 0-3 handlers per event): plain handlers that fire, stop(), raise; generator handlers firing from each '
            'of 1-3 steps; events cancelled right after being fired; nested complete-requesting events; task-set '
            'iteration order rotated per tick. non-trivial = a complete-requesting event whose closure has >= 3 events '
            'and contains a cancelled, stopped, raising or generator-fired event')
    trusted_base = ['hand-written model Model/Effects.v (fire linking, dispatcher, _eventDone walk, task steps) tied to '
                    'the repository by this correspondence run on the global handler log',
                    'python oracle in harness/c05.py reading the ghost causality tree recorded by the scripted handlers',
                    'task-set double with controlled iteration order; fire wrapper logging *_complete']
    assumptions = ['all events fired with priority 0 on one channel; distinct handler priorities',
                   'handlers do not call flush()/tick()/stop() of the manager, call() or wait()',
                   'a generator handler that raises is outside the model (oracle only; known finding C05-gen-raise)',
                   'a cancelled event is not required to fire its own <name>_complete']

    def __init__(self):
        self._obs = {}
        self.stats = {}

    def generate(self, rng, n, tier):
        cases = [gen_case(rng, tier) for _ in range(n)]
        st = {'events': 0, 'complete': 0, 'cancelled': 0, 'gen_handlers': 0, 'stop': 0, 'raise': 0, 'gen_raise': 0,
              'multi_root': 0}
        for c in cases:
            st['multi_root'] += len(c['roots']) > 1
            for e in walk_events(c['roots']):
                st['events'] += 1
                st['complete'] += e['c']
                st['cancelled'] += e['x']
                for h in e['h']:
                    if h['t'] == 'g':
                        st['gen_handlers'] += 1
                        st['gen_raise'] += h.get('r', -1) >= 0
                    else:
                        st['stop'] += h['s']
                        st['raise'] += h['r']
        self.stats = {'distribution': st}
        return cases

    def impl(self, case):
        obs = run_script(case)
        self._obs[common.canon(case)] = obs
        return obs

    def model_term(self, case):
        if has_gen_raise(case['roots']):
            return None
        obs = self._obs.get(common.canon(case))
        if obs is None:
            obs = self.safe_impl(case)
        sched = obs.get('sched', []) if isinstance(obs, dict) else []
        s = '[%s]' % '; '.join('[%s]' % '; '.join('(%d%%nat, %d%%nat)' % (a, c) for a, c in t) for t in sched)
        return 'obs_run %s %s %d' % (coq_evs(case['roots']), s, MAXTICKS)

    def obs_for_model(self, case, obs):
        if isinstance(obs, dict) and '__crash__' in obs:
            return [-999]
        return [obs['log'], obs['live'], obs['quiet']]

    # ---- oracle: direct reading of the statement on the log and the ghost tree recorded in it
    def oracle(self, case, obs):
        if isinstance(obs, dict) and '__crash__' in obs:
            return None
        if not obs['quiet']:
            return 'queue and task set did not drain in %d ticks' % MAXTICKS
        log = obs['log']
        specs = {e['l']: e for e in walk_events(case['roots'])}
        parent, firedpos = {}, {}
        for pos, x in enumerate(log):
            if x[0] == 5:
                if x[1] in parent:
                    return 'event %d fired twice by the script driver' % x[1]
                parent[x[1]] = x[2]
                firedpos[x[1]] = pos
        kids = {}
        for l, p in parent.items():
            kids.setdefault(p, []).append(l)

        def closure(l):
            out, todo = [], [l]
            while todo:
                a = todo.pop()
                out.append(a)
                todo.extend(kids.get(a, []))
            return out

        for l in sorted(parent):
            e = specs[l]
            if not e['c']:
                continue
            fpos = [pos for pos, x in enumerate(log) if x[0] == 2 and x[1] == l]
            dpos = [pos for pos, x in enumerate(log) if x[0] == 3 and x[1] == l]
            if e['x']:
                if len(fpos) > 1:
                    return 'twice: e%d_complete fired %d times (cancelled event %d)' % (l, len(fpos), l)
                continue
            if len(fpos) == 0:
                return 'never: e%d_complete never fired although queue and tasks drained (event %d)' % (l, l)
            if len(fpos) > 1:
                return 'twice: e%d_complete fired %d times (event %d)' % (l, len(fpos), l)
            if len(dpos) != 1 or dpos[0] < fpos[0]:
                return 'e%d_complete fired once but dispatched %d times' % (l, len(dpos))
            cl = set(closure(l))
            for pos, x in enumerate(log):
                if pos > fpos[0] and x[0] in (0, 1) and x[1] in cl:
                    return ('early: e%d_complete fired at log position %d before handler entry %r of event %d of its '
                            'closure (event %d)' % (l, fpos[0], x, x[1], l))
                if pos > fpos[0] and x[0] == 5 and x[2] in cl:
                    return 'early: e%d_complete fired before event %d of its closure was even fired (event %d)' % (l, x[1], l)
            # every fired, not cancelled member with handlers was dispatched (first handler ran) before
            for d in cl:
                if specs[d]['x'] or not specs[d]['h']:
                    continue
                first = specs[d]['h'][0]
                if not any(x[0] in (0, 1) and x[1] == d and x[2] == 0 for x in log[:fpos[0]]):
                    return 'early: e%d_complete fired before event %d of its closure was dispatched (event %d)' % (l, d, l)
        return None

    def finding_class(self, case, obs, what):
        # C05-gen-raise: complete never fires for an event whose closure contains a generator handler that raised
        if what.startswith('never:') and isinstance(obs, dict) and 'log' in obs:
            l = int(what.rsplit('(event ', 1)[1].rstrip(')'))
            parent = {x[1]: x[2] for x in obs['log'] if x[0] == 5}
            specs = {e['l']: e for e in walk_events(case['roots'])}
            for x in obs['log']:
                if x[0] == 1:
                    h = specs[x[1]]['h'][x[2]]
                    if h.get('r', -1) == x[3]:      # this step raised
                        a = x[1]
                        while a and a != l:
                            a = parent.get(a, 0)
                        if a == l:
                            return 'C05-gen-raise'
        return None

    def nontrivial(self, case, obs):
        for r in case['roots']:
            evs = list(walk_events([r]))
            if r['c'] and len(evs) >= 3 and any(
                    e['x'] or any(h['t'] == 'g' or h['s'] or h['r'] for h in e['h']) for e in evs):
                return True
        return False

    def search(self, rng, tier):
        return [gen_case(rng, tier) for _ in range(3000)]


if __name__ == '__main__':
    sys.exit(common.main(C05()))
