"""C19 — node: remote events run once and return their result; peers cannot harm the loop."""
import sys, os, io, json, contextlib
sys.path.insert(0, os.path.dirname(os.path.abspath(__file__)))
import common
from common import Prop, canon

from circuits import Component, Event, Manager, handler
from circuits.core.values import Value
import circuits.node.client as nclient
import circuits.node.server as nserver
import circuits.node.protocol as nprotocol
import circuits.node.utils as nutils
from circuits.node import Node, remote
from circuits.net.events import read, connect

EVENT_DIR = set(dir(Event()))
DISPATCHER_ATTRS = ['cause', 'effects', 'complete_channels', 'success_channels', 'node_call_id', 'node_sock']
RUNTIME_ATTRS = {'success_channels', 'node_call_id', 'node_sock'}   # set by Protocol itself on a received event
ECHO = ['e0', 'e1', 'e2']
EXCL_STD = ['__class__', '__delattr__', '__dict__', '__dir__', '__doc__', '__eq__', '__format__', '__ge__', '__getattribute__', '__getitem__', '__getstate__', '__gt__', '__hash__', '__init__', '__init_subclass__', '__le__', '__lt__', '__module__', '__ne__', '__new__', '__reduce__', '__reduce_ex__', '__repr__', '__setattr__', '__setitem__', '__setstate__', '__sizeof__', '__str__', '__subclasshook__', '__weakref__', 'alert_done', 'args', 'cancel', 'cancelled', 'cause', 'channels', 'child', 'complete', 'complete_channels', 'create', 'effects', 'failure', 'handler', 'kwargs', 'name', 'node_call_id', 'node_sock', 'node_without_result', 'notify', 'parent', 'stop', 'stopped', 'success', 'success_channels', 'uid', 'value', 'waitingHandlers']
NIL = ['nil']                # the handler runs and returns None
GEN = ['gen']                # a generator handler yields the value; the event is finished in a later tick
BOOM = ['boom', 'mix']      # a handler raises at once ('mix': another handler of the same event returns)
LATE = ['boomgen']          # a generator handler raises after a yield
ERRV = '<error>'            # stands for the (type, exception, traceback) value of a failed event (texts are not compared)


# ------------------------------------------------------------------ fake transports (no sockets)
class FakeClientT(Component):
    def init(self, *a, **kw):
        self.out = []

    def write(self, data):
        self.out.append(bytes(data))

    def connect(self, *a, **kw):
        pass

    def close(self, *a):
        pass


class FakeServerT(Component):
    host = 'h'
    port = 1

    def init(self, *a, **kw):
        self.outs = {}          # bytes written per connection

    @property
    def out(self):              # the connection under test of the two-party cases
        return self.outs.setdefault('SOCK', [])

    def write(self, sock, data):
        self.outs.setdefault(sock, []).append(bytes(data))

    def close(self, *a):
        pass


nclient.TCPClient = FakeClientT
nserver.TCPServer = FakeServerT


class Tracer:
    """stands in for the json module inside circuits.node: records the calls (the model's oracle tables)"""

    def __init__(self):
        self.d, self.l = [], []
        self.JSONDecodeError = json.JSONDecodeError

    def dumps(self, o, *a, **kw):
        r = json.dumps(o, *a, **kw)
        self.d.append((o, r))
        return r

    def loads(self, s, *a, **kw):
        try:
            r = json.loads(s, *a, **kw)
        except ValueError:
            self.l.append((s, False, None))
            raise
        self.l.append((s, True, r))
        return r


TR = Tracer()
nutils.json = TR
if hasattr(nprotocol, 'json'):
    nprotocol.json = TR


class AppB(Component):
    channel = 'appb'

    def init(self):
        self.log = []

    @handler(*ECHO, channel='*')
    def _echo(self, event, *args, **kwargs):
        self.log.append(snapshot(event))
        return [event.name, list(args), dict(kwargs)]

    @handler(*NIL, channel='*')
    def _nil(self, event, *args, **kwargs):
        self.log.append(snapshot(event))

    @handler(*GEN, channel='*')
    def _gen(self, event, *args, **kwargs):
        self.log.append(snapshot(event))

        def later():
            yield [event.name, list(args), dict(kwargs)]
        return later()

    @handler('boom', channel='*')
    def _boom(self, event, *args, **kwargs):
        self.log.append(snapshot(event))
        raise RuntimeError('boom')

    @handler('mix', channel='*', priority=1)
    def _mix_ok(self, event, *args, **kwargs):
        self.log.append(snapshot(event))
        return [event.name, list(args), dict(kwargs)]

    @handler('mix', channel='*')
    def _mix_boom(self, event, *args, **kwargs):
        raise ValueError('mix')

    @handler('boomgen', channel='*')
    def _boomgen(self, event, *args, **kwargs):
        self.log.append(snapshot(event))      # at dispatch; the body of a generator function would only start in the next tick

        def later():
            yield
            raise RuntimeError('late')
        return later()


class CallerB(Component):
    """the application on the server side that sends events to a connected peer through the Server API"""

    channel = 'callerb'

    def init(self, srv, sock):
        self.srv, self.sock = srv, sock

    @handler('go')
    def _go(self, ev, mode):
        if mode in ('call', 'attr'):
            return self.srv.send(ev, self.sock)               # the waiting handler: returns the generator
        if mode == 'api':
            return self.srv.send(ev, self.sock, no_result=True)
        if mode == 'send_to':
            self.srv.send_to(ev, [self.sock])
        elif mode == 'send_all':
            self.srv.send_all(ev)
        return None


def snapshot(e):
    extra = {k: v for k, v in e.__dict__.items() if k not in EVENT_DIR and k not in RUNTIME_ATTRS}
    # bookkeeping of the completion tracking the Protocol asks for (complete=True): the manager's own values
    if extra.get('cause') is e:
        extra.pop('cause')
        if isinstance(extra.get('effects'), int):
            extra.pop('effects')
    cc = extra.get('complete_channels')
    if isinstance(cc, tuple) and len(cc) == 1 and (cc[0] == 'node_result' or isinstance(cc[0], nprotocol.Protocol)):
        extra.pop('complete_channels')
    return {'name': e.name, 'args': list(e.args), 'kwargs': dict(e.kwargs), 'channels': list(e.channels),
            'success': _flag(e.success), 'failure': _flag(e.failure), 'notify': _flag(e.notify), 'attrs': extra}


def _flag(x):
    """the dispatcher tests these attributes and hands notify on to Value.inform: they must be booleans"""
    return x if isinstance(x, bool) else ['not-a-bool', type(x).__name__]


def mk_fw(spec):
    if spec is None:
        return None
    names, chans = set(spec[0]), set(spec[1])

    def fw(event, sock):
        return event.name not in names and not any(isinstance(c, str) and c in chans for c in event.channels)
    return fw


def mk_event(spec):
    e = Event.create(spec['name'], *spec['args'], **spec['kwargs'])
    e.failure = bool(spec.get('failure'))
    e.notify = bool(spec.get('notify'))
    for k, v in spec.get('attrs', {}).items():
        setattr(e, k, v)
    return e


def ticks(m, n=8):
    for _ in range(n):
        m.tick()


# ------------------------------------------------------------------ python -> Coq terms
def nl(b):
    """bytes / str / list of ints -> compact Coq (list N) term (long runs as Obs.rep)"""
    if isinstance(b, str):
        b = [ord(c) for c in b]
    b = list(b)
    segs, i, lit = [], 0, []
    while i < len(b):
        j = i
        while j < len(b) and b[j] == b[i]:
            j += 1
        if j - i >= 24:
            if lit:
                segs.append('[%s]%%N' % ';'.join(map(str, lit)))
                lit = []
            segs.append('rep (N.to_nat %d) [%d%%N]' % (j - i, b[i]))
        else:
            lit.extend(b[i:j])
        i = j
    if lit or not segs:
        segs.append('[%s]%%N' % ';'.join(map(str, lit)))
    return '(' + ' ++ '.join(segs) + ')'


def jt(o):
    """JSON-able python value -> Coq json term (objects sorted by key)"""
    if o is None:
        return 'JNull'
    if o is True:
        return '(JBool true)'
    if o is False:
        return '(JBool false)'
    if isinstance(o, int):
        return '(JInt (%d)%%Z)' % o
    if isinstance(o, str):
        return '(JStr %s)' % nl(o)
    if isinstance(o, (list, tuple)):
        return '(JArr [%s])' % '; '.join(jt(x) for x in o)
    if isinstance(o, dict):
        return '(JObj %s)' % kvt(o)
    raise TypeError('not JSON: %r' % (o,))


def kvt(d):
    return '[%s]' % '; '.join('(%s, %s)' % (nl(k), jt(d[k])) for k in sorted(d))


def strs(l):
    return '[%s]' % '; '.join(nl(x) for x in l)


def event_term(spec, chans):
    return '(Build_event %s [%s] %s false %s %s [%s] %s)' % (
        nl(spec['name']), '; '.join(jt(x) for x in spec['args']), kvt(spec['kwargs']),
        'true' if spec.get('failure') else 'false', 'true' if spec.get('notify') else 'false',
        '; '.join(jt(c) for c in chans), kvt(spec.get('attrs', {})))


def jo(o):
    """JSON-able python value -> nested lists mirroring NodeProtoObs.Tj"""
    if o is None:
        return [0]
    if o is True or o is False:
        return [1, o]
    if isinstance(o, int):
        return [2, o]
    if isinstance(o, str):
        return [3, o]
    if isinstance(o, (list, tuple)):
        return [4] + [jo(x) for x in o]
    if isinstance(o, dict):
        return [5] + [[k, jo(o[k])] for k in sorted(o)]
    return [99, str(type(o).__name__)]


def ev_obs(s):
    return [s['name'], jo(s['args']), jo(s['kwargs']), jo(s['channels']), s['success'], s['failure'], s['notify'],
            jo(s['attrs'])]


def tables():
    seen, td = set(), []
    for o, r in TR.d:
        if isinstance(o, dict) and o.get('errors') is True and 'value' in o:
            o = dict(o, value=ERRV)            # answer of a failed event: the value is opaque
        try:
            k = jt(o)
        except TypeError:
            continue
        if k not in seen:
            seen.add(k)
            td.append('(%s, %s)' % (k, nl(r.encode('utf-8'))))
    seen, tl = set(), []
    for s, ok, r in TR.l:
        if isinstance(s, (bytes, bytearray)):
            s = s.decode('utf-8', 'replace')
        if s in seen:
            continue
        seen.add(s)
        if ok and isinstance(r, dict) and r.get('errors') is True and {'id', 'value', 'meta'} <= set(r):
            r = dict(r, value=ERRV)
        try:
            v = '(Some %s)' % jt(r) if ok else 'None'
        except TypeError:        # floats etc.: outside the model's JSON type
            continue
        tl.append('(%s, %s)' % (nl(s.encode('utf-8')), v))
    return '[%s]' % '; '.join(td), '[%s]' % '; '.join(tl)


# ------------------------------------------------------------------ generators
WORDS = ['', 'a', 'x~y', '~~~', '"value":', 'é', '€', 'q"\\', 'name', '~', 'line\nbreak']


def gen_json(rng, depth=0):
    r = rng.random()
    if depth >= 2 or r < 0.55:
        return rng.choice([None, True, False, 0, 1, -3, 2 ** 40, 'a', '', 'x~y', '~~~', '"value":', 'é', 's p'])
    if r < 0.8:
        return [gen_json(rng, depth + 1) for _ in range(rng.randint(0, 3))]
    return {rng.choice(['k', 'value', 'id', 'name', '~', 'meta']): gen_json(rng, depth + 1) for _ in range(rng.randint(0, 2))}


def gen_event(rng, i, big=False):
    name = rng.choice(ECHO + ECHO + ECHO + ['zz'])
    args = [gen_json(rng) for _ in range(rng.randint(0, 2))]
    if big:
        args.append(rng.choice('xy~') * rng.choice([4096, 5000, 9000]))
    args.append(['#', i])
    kwargs = {rng.choice(['k', 'value', 'name', 'x_y', 'event_']): gen_json(rng) for _ in range(rng.randint(0, 2))}
    attrs = {}
    if rng.random() < 0.3:
        for _ in range(rng.randint(1, 2)):
            attrs[rng.choice(['tag', '_t', '__u', 'cause', 'effects', 'weight'])] = gen_json(rng, 1)
    return {'name': name, 'args': args, 'kwargs': kwargs, 'chan': rng.choice([None, None, 'c1', 'c2', '*']),
            'failure': rng.random() < 0.2, 'notify': rng.random() < 0.2, 'attrs': attrs}


HOSTILE_META = ['cause', 'effects', 'complete_channels', 'success_channels', 'node_call_id', 'node_sock', 'name', 'args',
                'kwargs', 'value', 'handler', 'stopped', 'cancelled', 'waitingHandlers', 'alert_done', 'complete', 'parent',
                'channels', 'uid', '__class__', '__dict__', 'tag', 'errors', 'remote_finish', 'notify', 'success']


def base_call(rng, ident):
    return {'id': ident, 'name': rng.choice(ECHO), 'args': [['!', ident if isinstance(ident, int) else 0]], 'kwargs': {},
            'success': rng.choice([0, 1, True, False]), 'failure': rng.choice([False, True, 0]),
            'notify': rng.choice([False, 0, 1]), 'channels': rng.choice([[], ['c1'], ['*']]), 'meta': {}}


def hostile_call(rng):
    """-> (kind, python object or raw bytes)"""
    d = base_call(rng, rng.choice([1000, 1001, 7777, '0', None, True, False, [1], {}]))
    r = rng.random()
    if r < 0.30:
        for _ in range(rng.randint(1, 3)):
            d['meta'][rng.choice(HOSTILE_META)] = rng.choice([1, 0, None, True, 'x', [1], {'a': 1}, [], ''])
        return 'meta', d
    if r < 0.40:
        d['channels'] = rng.choice([[[1]], [{}], [{'a': 1}, 'c1'], 'ab', {'k': 1}, 5, None, [None, 1, True], [[]]])
        return 'channels', d
    if r < 0.50:
        del d[rng.choice(sorted(d))]
        return 'missing-key', d
    if r < 0.64:
        k = rng.choice(['name', 'args', 'kwargs', 'meta', 'id', 'success'])
        d[k] = rng.choice([None, 5, 'st', [], {}, True, ['a', 'b'], {'_name': 1}, {'self': 2}, {'cls': 3}, 'a\x00b', ''])
        if k == 'meta' and isinstance(d[k], list) and d[k]:
            d[k] = []
        return 'type-' + k, d
    if r < 0.70:
        return 'non-object', rng.choice([[], [1, 2], 'str', 5, None, True, {}, {'value': 1}, {'value': 1, 'meta': 3}])
    if r < 0.80:
        t = json.dumps(d)
        return 'truncated', t[:rng.randint(0, len(t) - 1)].encode()
    if r < 0.88:
        return 'garbage', bytes(rng.choice(b'{}[]":,~ abc019\\') for _ in range(rng.randint(0, 12)))
    if r < 0.94:
        return 'oversized', rng.choice([b'{', b'["', b'x', b'~']) + rng.choice(b'a~{[') .to_bytes(1, 'big') * rng.choice([4096, 6000])
    d['args'] = [['!', 0], 'z' * 5000]
    return 'big-valid', d


SURR = '\ud800'
TYPES = [None, True, False, 0, 1, -3, 2 ** 40, '', 'st', 'a\x00b', SURR, 'x' + SURR + 'y', 'L' * 300, 'name', 'value',
         'handler', 'notify', [], [1], ['a', 'b'], [[1], {'a': None}], {}, {'a': 1}, {'a': {'b': [1, 'c']}}, {'value': 1}]
CALL_FIELDS = ['success', 'failure', 'notify', 'channels', 'args', 'kwargs', 'name', 'id', 'meta']
VALUE_FIELDS = ['id', 'errors', 'value', 'meta']
SAFE_IDS = [1000, 1001, 7777, '0', None, [1], {}, 'a\x00b']


def typed_call(rng, late_ok=True):
    """a well-formed call packet for a handler that returns a value / None / raises / is a generator, with ONE top-level
    field replaced by a value of an arbitrary JSON type"""
    names = ['e0', 'e1', 'nil', 'boom'] + (['gen', 'boomgen'] if late_ok else [])
    name = rng.choice(names)
    raising = name in ('boom', 'boomgen')
    d = base_call(rng, rng.choice(SAFE_IDS if raising else SAFE_IDS + [True, False]))
    d['name'] = name
    f = rng.choice(CALL_FIELDS)
    v = rng.choice(TYPES)
    if f == 'meta' and isinstance(v, list) and v:
        v = []                  # dict([...]) of a non-empty array: outside the model
    if f == 'id' and raising and (v is True or v is False or (isinstance(v, int) and 0 <= v < 50)):
        v = 7777                # the error answer must not hit a call in flight (its value is opaque)
    d[f] = v
    return 'typed-' + f, d, name in ('gen', 'boomgen') and f != 'name'


def typed_value(rng, allow_true=True):
    d = {'id': rng.choice([0, 1, 2]), 'errors': False, 'value': rng.choice([None, 1, 'v', [1, 2]]), 'meta': {}}
    f = rng.choice(VALUE_FIELDS)
    v = rng.choice(TYPES)
    if f == 'errors' and v is True and not allow_true:
        v = 1                   # exactly true marks the opaque error value of a failed event
    d[f] = v
    return 'vtyped-' + f, d


def hostile_value(rng):
    d = {'id': rng.choice([0, 0, 1, 2, True, False, '0', None, [0], {}, 99]), 'errors': rng.choice([False, 1, 'e', None]),
         'value': rng.choice([None, 1, 'v', [1, 2], {'a': 1}, False]), 'meta': {}}
    r = rng.random()
    if r < 0.3:
        for _ in range(rng.randint(1, 2)):
            d['meta'][rng.choice(HOSTILE_META)] = rng.choice([1, 0, None, True, 'x', [1], {'a': 1}])
        return 'v-meta', d
    if r < 0.45:
        d['meta'] = rng.choice([[], 5, 'x', None, [['a', 1]]])
        return 'v-meta-type', d
    if r < 0.6:
        del d[rng.choice(sorted(d))]
        return 'v-missing-key', d
    if r < 0.7:
        t = json.dumps(d)
        return 'v-truncated', t[:rng.randint(0, len(t) - 1)].encode()
    return 'v-plain', d


def wire(rng, item, delim=b'~~~'):
    b = item if isinstance(item, bytes) else json.dumps(item).encode()
    return b + delim


def raising(rng, events):
    """make one or two events of the case fail on the peer: a handler raises at once ('boom'), one of two handlers
    raises ('mix'), a generator handler raises after a yield ('boomgen': at most one per case - the order in which the
    manager resumes several suspended handlers in one tick is the iteration order of a set)"""
    names = ['boom', 'mix', 'boomgen']
    for i in rng.sample(range(len(events)), min(len(events), rng.randint(1, 2))):
        n = rng.choice(names)
        if n == 'boomgen':
            names.remove(n)
        events[i]['name'] = n
        events[i]['notify'] = False


CUTS = [1, 2, 3, 4, 7, 20, 50, 90, 130, 200, 1000, 4096]
FLUSH = [['ab', 0], ['ba', 0], ['ab', 0], ['ba', 0]]
PROBE = {'name': 'e0', 'args': [['probe']], 'kwargs': {}, 'chan': None, 'failure': False, 'notify': False, 'attrs': {}}


class C19(Prop):
    id = 'C19'
    props_file = 'Props/C19.v'
    imports = ['Model.NodeProto', 'Model.NodeProtoObs']
    quick_n = 90
    thorough_n = 1200
    rule = ('two real circuits.node.Node objects (caller: Node.add -> Client -> Protocol; callee: Node(port) -> Server -> '
            'Protocol) in two managers, joined by fake transports; the harness moves the written bytes in reads of '
            'generated sizes (single cuts at every offset of a packet in the thorough tier, byte-at-a-time, > 4 KiB '
            'payloads), interleaves sends of several events with partial deliveries, applies firewall predicates, and '
            'mixes sends with and without result on one connection (node_without_result set; Server.send(no_result=True), '
            'send_to, send_all with the Server side as caller) with the replies in separate reads / one read / cut, '
            'injects hostile packets from a grammar (meta keys, wrong types, missing keys, truncated / garbage / oversized '
            'JSON, forged value packets); load_event / load_value / dump_event->load_event also directly. '
            'non-trivial = a proto case with a cut inside a packet or a hostile packet or >= 2 events, or a load case '
            'that is accepted')
    trusted_base = ['hand-written model Model/NodeProto.v (repaired add_buffer, send/process_packet/send_result, '
                    'dump/load, META_EXCLUDE filter) tied to the code by this correspondence run',
                    'json.dumps/json.loads are oracles: tables recorded from the very calls circuits.node made',
                    'fake transports replace TCPClient/TCPServer; kernel, sockets and Manager internals are not modelled '
                    '(only the attributes _dispatcher/_eventDone read from an event: dispatch_safe)']
    assumptions = ['json laws as explicit theorem premises: loads(escape(dumps j)) = j, no proper prefix of a packet '
                   'parses, packet + partial delimiter does not parse',
                   'the value of a failed remote event (type, exception, traceback as text) is opaque: one marker',
                   'not covered: invalid UTF-8, floats, recursion-depth errors of json, meta given as non-empty array, '
                   'both parties sending calls at the same time on one connection; several connections on one called side: hub model (C19_hub_*), honest schedules']

    def __init__(self):
        self.stats = {}
        self._tb = {}

    # ---------------------------------------------------------------- generation
    def generate(self, rng, n, tier):
        cases = []
        st = {'proto': 0, 'proto_hostile': 0, 'proto_big': 0, 'load': 0, 'loadv': 0, 'serial': 0, 'cut1': 0,
              'hostile_kinds': {}}
        if tier == 'thorough':      # every single cut of one call packet and of its result packet
            ev = dict(PROBE, args=[['#', 0], 'pay~load'], kwargs={'value': 1})
            for k in range(1, 150):
                cases.append({'k': 'proto', 'events': [ev], 'fws': None, 'fwr': None,
                              'ops': [['send', 0], ['ab', k], ['ab', 0], ['ba', k], ['ba', 0]] + FLUSH})
        for i in range(n):
            r = rng.random()
            if r < 0.45:
                cases.append(self.gen_proto(rng, st, tier))
            elif r < 0.63:
                if rng.random() < 0.5:
                    kind, d, _ = typed_call(rng)
                else:
                    kind, d = hostile_call(rng)
                if isinstance(d, bytes):
                    kind, d = 'plain', base_call(rng, 3)
                st['load'] += 1
                st['hostile_kinds'][kind] = st['hostile_kinds'].get(kind, 0) + 1
                cases.append({'k': 'load', 'j': d, 'hk': kind})
            elif r < 0.66:
                cases.append(self.gen_multi(rng, st))
            elif r < 0.70:
                st['run'] = st.get('run', 0) + 1
                pk = []
                for _ in range(rng.randint(1, 3)):
                    kind, d, _ = typed_call(rng)
                    st['hostile_kinds'][kind] = st['hostile_kinds'].get(kind, 0) + 1
                    pk.append(list(json.dumps(d).encode() + b'~~~'))
                cases.append({'k': 'run', 'pkts': pk})
            elif r < 0.82:
                kind, d = typed_value(rng) if rng.random() < 0.5 else hostile_value(rng)
                if isinstance(d, bytes):
                    kind, d = 'v-plain', {'id': 0, 'errors': False, 'value': 1, 'meta': {'tag': 1}}
                st['loadv'] += 1
                cases.append({'k': 'loadv', 'j': d, 'hk': kind})
            else:
                st['serial'] += 1
                sp = gen_event(rng, i)
                sp['channels'] = rng.choice([[], ['a'], ['a', 'b'], ['*'], ['c1', 'c2', 'c3']])
                sp['success'] = rng.random() < 0.5
                cases.append({'k': 'serial', 'ev': sp, 'id': rng.choice([0, 1, 5, 12345])})
        self.stats = {'distribution': st}
        return cases

    def gen_multi(self, rng, st):
        """two or three connections on one called side; every connection sends calls (ids 0, 1, .. on each), all are in
        flight together, deliveries interleaved"""
        st['multi'] = st.get('multi', 0) + 1
        hub = rng.choice(['server', 'node'])
        n = rng.choice([2, 2, 3])
        events, ops = [], []
        per = rng.randint(1, 2)
        for k in range(n):
            evs = []
            for i in range(per):
                sp = gen_event(rng, i)
                sp['name'] = rng.choice(ECHO + ECHO + NIL + ['boom'])
                sp['notify'] = False
                sp['args'][-1] = ['#', i, k]
                if hub == 'node':
                    sp['mode'] = 'call' if rng.random() < 0.8 else rng.choice(['api', 'attr'])
                evs.append(sp)
            evs.append(dict(PROBE, args=[['probe', k]]))
            events.append(evs)
        for i in range(per):
            for k in rng.sample(range(n), n):
                ops.append(['send', i, k])
        deliver = [['abp', k] if rng.random() < 0.3 else ['ab', 0, k] for k in range(n)]
        rng.shuffle(deliver)
        ops += deliver
        back = [k for k in range(n) for _ in range(per + 1)]
        rng.shuffle(back)
        ops += [['bap', k] for k in back]
        for k in range(n):
            ops += [['ab', 0, k], ['ba', 0, k], ['ab', 0, k], ['ba', 0, k]]
        for k in rng.sample(range(n), n):
            ops += [['send', per, k]]
        for k in range(n):
            ops += [['ab', 0, k], ['ba', 0, k], ['ab', 0, k], ['ba', 0, k]]
        return {'k': 'multi', 'hub': hub, 'events': events, 'ops': ops}

    def gen_mixed(self, rng, st):
        """sends with and without result mixed on one connection; replies in separate reads / one read / cut"""
        st['proto'] += 1
        st['mixed'] = st.get('mixed', 0) + 1
        s2c = rng.random() < 0.7
        modes = ['call', 'attr', 'api', 'send_to', 'send_all'] if s2c else ['call', 'attr']
        nev = rng.randint(2, 4)
        events = []
        for i in range(nev):
            sp = gen_event(rng, i)
            sp['name'] = rng.choice(ECHO)
            sp['mode'] = rng.choice(modes) if rng.random() < 0.6 else 'call'
            events.append(sp)
        if rng.random() < 0.3:
            raising(rng, events)
        if all(e['mode'] == 'call' for e in events):
            events[rng.randrange(nev - 1)]['mode'] = rng.choice(modes[1:])
        if events[-1]['mode'] != 'call' and rng.random() < 0.8:
            events[-1]['mode'] = 'call'         # a waiting call after a send without result
        fws = fwr = None
        if rng.random() < 0.2:
            fws = [rng.sample(['e1', 'e2'], 1), []]
        if rng.random() < 0.2:
            fwr = [rng.sample(['e1', 'e2'], 1), []]
        ops = []
        style = rng.random()
        for i in range(nev):
            ops.append(['send', i])
            if style < 0.25:                    # strictly one after the other
                ops += [['ab', 0], ['bap']]
            elif rng.random() < 0.3:
                ops.append(rng.choice([['abp'], ['ab', rng.choice(CUTS)], ['bap'], ['ba', rng.choice(CUTS)]]))
        how = rng.random()
        ops.append(['ab', 0])
        if how < 0.45:                          # every reply in its own read
            ops += [['bap']] * (nev + 1)
        elif how < 0.7:                         # all replies in one read
            ops += [['ba', 0]]
        else:                                   # cut somewhere
            ops += [['ba', rng.choice([60, 80, 90, 100, 110, 120, 130, 150, 180, 220])], ['bap'], ['ba', rng.choice(CUTS)]]
        ops += FLUSH
        events.append(dict(PROBE))
        ops += [['send', len(events) - 1]] + FLUSH
        return {'k': 'proto', 'dir': 's2c' if s2c else 'c2s', 'events': events, 'fws': fws, 'fwr': fwr, 'ops': ops}

    def gen_proto(self, rng, st, tier='quick'):
        if rng.random() < 0.3:
            return self.gen_mixed(rng, st)
        st['proto'] += 1
        r = rng.random()
        big = r < 0.08 and tier == 'thorough'      # quick tier: the > 4 KiB cases come from corpus/C19/big.json
        hostile = 0.08 <= r < 0.50
        nev = rng.randint(1, 3) if not big else 1
        events = [gen_event(rng, i, big and i == 0) for i in range(nev)]
        fws = fwr = None
        if rng.random() < 0.35:
            fws = [rng.sample(['e1', 'e2', 'zz'], rng.randint(0, 2)), rng.sample(['c1', 'c2'], rng.randint(0, 1))]
        if rng.random() < 0.35:
            fwr = [rng.sample(['e1', 'e2', 'zz'], rng.randint(0, 2)), rng.sample(['c1', 'c2'], rng.randint(0, 1))]
        if not hostile and rng.random() < 0.3:
            raising(rng, events)
        ops = []
        mode = rng.random()
        late_used = False       # at most one handler per case that finishes in a later tick (see raising())
        for i in range(nev):
            ops.append(['send', i])
            if hostile and rng.random() < 0.7:
                for _ in range(rng.randint(1, 2)):
                    if rng.random() < 0.5:
                        kind, d, late = typed_call(rng, late_ok=not late_used)
                        late_used = late_used or late
                    else:
                        kind, d = hostile_call(rng)
                    st['hostile_kinds'][kind] = st['hostile_kinds'].get(kind, 0) + 1
                    if isinstance(d, dict) and isinstance(d.get('channels'), (list, str)) and len(d['channels']) > 1:
                        d['channels'] = d['channels'][:1]   # one dispatch per channel: keep "once" observable
                    if kind == 'big-valid' and tier != 'thorough':
                        d['args'] = [['!', 0]]
                    ops.append(['iab', list(wire(rng, d))])
            if mode < 0.5 or rng.random() < 0.5:
                for _ in range(rng.randint(0, 3)):
                    ops.append([rng.choice(['ab', 'ab', 'ba']), rng.choice(CUTS)])
            if not hostile and rng.random() < 0.35:      # a read that ends inside the delimiter
                ops.append([rng.choice(['abm', 'bam']), rng.choice([1, 2])])
                if rng.random() < 0.5:
                    ops += [['ab', 0], ['bam', rng.choice([1, 2])]]
            if hostile and rng.random() < 0.4:
                kind, d = typed_value(rng, allow_true=False) if rng.random() < 0.5 else hostile_value(rng)
                st['hostile_kinds'][kind] = st['hostile_kinds'].get(kind, 0) + 1
                ops.append(['iba', list(wire(rng, d))])
        if big:
            st['proto_big'] += 1
            ops += [['ab', 4096]] * 3
        if mode > 0.85 and not big:     # byte-at-a-time for a while
            ops += [['ab', 1]] * 25 + [['ab', 0]] + [['ba', 1]] * 15
        if hostile:
            st['proto_hostile'] += 1
        else:
            st['cut1'] += 1
        ops += FLUSH
        # liveness probe: one more honest event after everything else.  Injected bytes may leave an unterminated
        # remainder in a buffer (e.g. garbage ending in '~' shifts the delimiter: '~' + '~~~' leaves '~'), which
        # legitimately swallows the next packet of that stream; one junk packet 'x~~~' per direction brings both
        # streams back in step before the probe is sent.
        if hostile:
            ops += [['iab', list(b'x~~~')], ['iba', list(b'x~~~')]] + FLUSH
        events.append(dict(PROBE))
        ops += [['send', len(events) - 1]] + FLUSH
        return {'k': 'proto', 'events': events, 'fws': fws, 'fwr': fwr, 'ops': ops}

    # ---------------------------------------------------------------- implementation driver
    def impl(self, c):
        TR.d, TR.l = [], []
        err = io.StringIO()
        self._resolved = []
        with contextlib.redirect_stderr(err):
            obs = self._impl(c)
        self._tb[canon(c)] = tables() + (list(self._resolved),)
        if len(self._tb) > 6000:
            self._tb.pop(next(iter(self._tb)))
        return obs

    def _impl(self, c):
        k = c['k']
        if k == 'load':
            try:
                e, ident = nutils.load_event(json.dumps(c['j']))
            except (TypeError, ValueError, LookupError):
                return {'r': None}
            return {'r': [snapshot(e), ident]}
        if k == 'loadv':
            try:
                v, ident, er, meta = nutils.load_value(json.dumps(c['j']))
            except (TypeError, ValueError, LookupError):
                return {'r': None}
            except AttributeError:
                return {'r': 'abort'}
            return {'r': [v, ident, er, meta]}
        if k == 'run':
            return self._impl_run(c)
        if k == 'multi':
            return self._impl_multi(c)
        if k == 'serial':
            sp = c['ev']
            e = mk_event(sp)
            e.success = bool(sp['success'])
            e.channels = tuple(sp['channels'])
            s = nutils.dump_event(e, c['id'])
            e2, ident = nutils.load_event(s)
            return {'text': s, 'r': [snapshot(e2), ident]}
        # ---- proto.  dir 'c2s': caller = Node.add -> Client -> Protocol, callee = Node(port) -> Server -> Protocol;
        #             dir 's2c': caller = the Server side (Server.send / send_to / send_all), callee = the Client side
        s2c = c.get('dir') == 's2c'
        fw_caller = {} if c['fws'] is None else {'send_event_firewall': mk_fw(c['fws'])}
        fw_callee = {} if c['fwr'] is None else {'receive_event_firewall': mk_fw(c['fwr'])}
        mA = Manager()
        nA = Node().register(mA)
        ch = nA.add('peer', 'h', 1, reconnect_delay=0, **(fw_callee if s2c else fw_caller))
        mB = Manager()
        nB = Node(port=1, **(fw_caller if s2c else fw_callee)).register(mB)
        app = AppB().register(mA if s2c else mB)
        ticks(mA)
        ticks(mB)
        S = 'SOCK'
        mB.fire(connect(S, 'h', 2), nB.channel)
        ticks(mB)
        client = nA.get_peer('peer')
        tA = [x for x in client.components if isinstance(x, FakeClientT)][0]
        tB = nB.server.server
        callerB = CallerB(nB.server, S).register(mB) if s2c else None
        ticks(mB)
        wab, wba = bytearray(), bytearray()     # caller -> callee, callee -> caller
        calls = []
        delim = nprotocol.DELIMITER

        def pump():
            out_caller, out_callee = (tB.out, tA.out) if s2c else (tA.out, tB.out)
            for d in out_caller:
                wab.extend(d)
            out_caller.clear()
            for d in out_callee:
                wba.extend(d)
            out_callee.clear()

        def to_side_a(d):
            mA.fire(read(d), ch)
            ticks(mA)

        def to_side_b(d):
            mB.fire(read(S, d), nB.channel)
            ticks(mB)

        to_callee, to_caller = (to_side_a, to_side_b) if s2c else (to_side_b, to_side_a)

        def one_packet(w):
            i = w.find(delim)
            return len(w) if i < 0 else i + len(delim)

        for op in c['ops']:
            if op[0] == 'send':
                sp = c['events'][op[1]]
                mode = sp.get('mode', 'call')
                ev = mk_event(sp)
                if mode == 'attr':
                    ev.node_without_result = True
                if s2c:
                    if sp['chan'] is not None:
                        ev.channels = (sp['chan'],)
                    v = mB.fire(Event.create('go', ev, mode), 'callerb')
                    ticks(mB)
                else:
                    v = mA.fire(remote(ev, 'peer', channel=sp['chan']))
                    ticks(mA)
                calls.append((ev, v))
            elif op[0] == 'conn':
                # one more peer connects to the server while calls may be in flight: the Server creates another Protocol
                # in the same process; nothing of the connection under test may change (no-op in the model)
                mB.fire(connect('SOCK%d' % (2 + len([x for x in nB.server.components
                                                      if isinstance(x, nprotocol.Protocol)])), 'h', 3), nB.channel)
                ticks(mB)
            elif op[0] == 'iab':
                wab.extend(bytes(op[1]))
            elif op[0] == 'iba':
                wba.extend(bytes(op[1]))
            elif op[0] in ('abm', 'bam'):
                # one packet minus its last k bytes (k = 1, 2: the read ends inside the delimiter); the byte
                # count is resolved here and handed to the model as an ordinary OAB n / OBA n
                w = wab if op[0] == 'abm' else wba
                n = max(one_packet(w) - op[1], 0) if delim in w else 0
                self._resolved.append(n)
                d, w[:] = bytes(w[:n]), w[n:]
                if d:
                    (to_callee if op[0] == 'abm' else to_caller)(d)
            elif op[0] in ('ab', 'abp'):
                n = one_packet(wab) if op[0] == 'abp' else (op[1] or len(wab))
                d, wab[:] = bytes(wab[:n]), wab[n:]
                if d:
                    to_callee(d)
            elif op[0] in ('ba', 'bap'):
                n = one_packet(wba) if op[0] == 'bap' else (op[1] or len(wba))
                d, wba[:] = bytes(wba[:n]), wba[n:]
                if d:
                    to_caller(d)
            pump()
        prot_a = [x for x in client.components if isinstance(x, nprotocol.Protocol)][0]
        prot_b = [x for x in nB.server.components if isinstance(x, nprotocol.Protocol)][0]
        prot_caller, prot_callee = (prot_b, prot_a) if s2c else (prot_a, prot_b)
        res = []
        for ev, v in calls:
            err = [getattr(ev, 'errors')] if hasattr(ev, 'errors') else []
            res.append({'fin': isinstance(v._value, Value), 'val': ERRV if (err and err[0] is True) else v.value,
                        'err': err, 'verr': bool(v.errors)})
        return {'log': app.log, 'calls': res, 'callee_chan': ch if s2c else nB.channel,
                'bufs': [len(getattr(prot_caller, '_Protocol__buffer', b'')),
                         len(getattr(prot_callee, '_Protocol__buffer', b''))]}

    @staticmethod
    def spoke_case(c, k):
        """connection k of a 'multi' case as a two-party case (what the model and the oracle are applied to)"""
        ops = [op[:-1] for op in c['ops'] if op[-1] == k]
        return {'k': 'proto', 'dir': 'c2s' if c['hub'] == 'server' else 's2c', 'events': c['events'][k], 'fws': None,
                'fwr': None, 'ops': ops, 'callee_chan': 'node' if c['hub'] == 'server' else 'node_client_p%d' % k}

    def _impl_multi(self, c):
        """several connections in one process on the called side: hub 'server' = one Server with a Protocol per connected
        client (the clients call), hub 'node' = one Node with a Client/Protocol per peer (the servers call); every
        connection has its own wires; equal call ids are in flight on different connections"""
        n = len(c['events'])
        mH = Manager()
        app = AppB()
        spokes = []
        if c['hub'] == 'server':
            nH = Node(port=1).register(mH)
            app.register(mH)
            ticks(mH)
            tH = nH.server.server
            for k in range(n):
                sock = 'SOCK%d' % k
                mH.fire(connect(sock, 'h', 2 + k), nH.channel)
                ticks(mH)
                mS = Manager()
                nS = Node().register(mS)
                ch = nS.add('peer%d' % k, 'h', 1, reconnect_delay=0)
                ticks(mS)
                cl = [x for x in nS.components if isinstance(x, nclient.Client)][0]
                tS = [x for x in cl.components if isinstance(x, FakeClientT)][0]
                spokes.append({
                    'm': mS, 'send': (lambda ev, sp, mS=mS, k=k: mS.fire(remote(ev, 'peer%d' % k, channel=sp['chan']))),
                    'out': tS.out, 'hub_out': tH.outs.setdefault(sock, []),
                    'to_hub': (lambda d, sock=sock: mH.fire(read(sock, d), nH.channel)),
                    'to_spoke': (lambda d, mS=mS, ch=ch: mS.fire(read(d), ch)),
                    'prot': [x for x in cl.components if isinstance(x, nprotocol.Protocol)][0]})
        else:
            nH = Node().register(mH)
            app.register(mH)
            for k in range(n):
                ch = nH.add('p%d' % k, 'h', 1, reconnect_delay=0)
                ticks(mH)
                cl = [x for x in nH.components if isinstance(x, nclient.Client) and x.channel == ch][0]
                tH = [x for x in cl.components if isinstance(x, FakeClientT)][0]
                mS = Manager()
                nS = Node(port=1).register(mS)
                ticks(mS)
                sock = 'MSOCK%d' % k
                mS.fire(connect(sock, 'h', 2), nS.channel)
                ticks(mS)
                CallerB(nS.server, sock).register(mS)
                ticks(mS)
                tS = nS.server.server
                spokes.append({
                    'm': mS, 'send': (lambda ev, sp, mS=mS: mS.fire(Event.create('go', ev, sp.get('mode', 'call')), 'callerb')),
                    'out': tS.outs.setdefault(sock, []), 'hub_out': tH.out,
                    'to_hub': (lambda d, ch=ch: mH.fire(read(d), ch)),
                    'to_spoke': (lambda d, mS=mS, nS=nS, sock=sock: mS.fire(read(sock, d), nS.channel)),
                    'prot': [x for x in nS.server.components if isinstance(x, nprotocol.Protocol)
                             and getattr(x, '_Protocol__sock', None) == sock][0]})
        ticks(mH)
        wab = [bytearray() for _ in range(n)]
        wba = [bytearray() for _ in range(n)]
        calls = [[] for _ in range(n)]
        delim = nprotocol.DELIMITER

        def pump():
            for k, sp in enumerate(spokes):
                for d in sp['out']:
                    wab[k].extend(d)
                sp['out'].clear()
                for d in sp['hub_out']:
                    wba[k].extend(d)
                sp['hub_out'].clear()

        for op in c['ops']:
            k = op[-1]
            sp = spokes[k]
            if op[0] == 'send':
                spec = c['events'][k][op[1]]
                ev = mk_event(spec)
                if spec.get('mode') == 'attr':
                    ev.node_without_result = True
                if c['hub'] == 'node' and spec['chan'] is not None:
                    ev.channels = (spec['chan'],)
                calls[k].append((ev, sp['send'](ev, spec)))
                ticks(sp['m'])
            elif op[0] in ('ab', 'abp'):
                w = wab[k]
                i = w.find(delim)
                m = (len(w) if i < 0 else i + len(delim)) if op[0] == 'abp' else (op[1] or len(w))
                d, w[:] = bytes(w[:m]), w[m:]
                if d:
                    sp['to_hub'](d)
                    ticks(mH)
            elif op[0] in ('ba', 'bap'):
                w = wba[k]
                i = w.find(delim)
                m = (len(w) if i < 0 else i + len(delim)) if op[0] == 'bap' else (op[1] or len(w))
                d, w[:] = bytes(w[:m]), w[m:]
                if d:
                    sp['to_spoke'](d)
                    ticks(sp['m'])
            pump()
        hub_prots = [x for x in (nH.server.components if c['hub'] == 'server' else
                                 [p for cl in nH.components if isinstance(cl, nclient.Client) for p in cl.components])
                     if isinstance(x, nprotocol.Protocol)]
        out = []
        for k in range(n):
            res = []
            for ev, v in calls[k]:
                err = [getattr(ev, 'errors')] if hasattr(ev, 'errors') else []
                res.append({'fin': isinstance(v._value, Value), 'val': ERRV if (err and err[0] is True) else v.value,
                            'err': err, 'verr': bool(v.errors)})
            log = [s for s in app.log if s['args'] and isinstance(s['args'][-1], list) and s['args'][-1][-1:] == [k]]
            out.append({'log': log, 'calls': res, 'callee_chan': 'node' if c['hub'] == 'server' else 'node_client_p%d' % k,
                        'bufs': [len(getattr(spokes[k]['prot'], '_Protocol__buffer', b'')),
                                 len(getattr(hub_prots[k], '_Protocol__buffer', b'')) if k < len(hub_prots) else 0]})
        return {'spokes': out}

    def _impl_run(self, c):
        """the callee under the real Manager.run() in a thread: hostile packets, then an ordinary call"""
        import time
        mB = Manager()
        nB = Node(port=1).register(mB)
        app = AppB().register(mB)
        mB.start()
        S = 'SOCK'
        probe = json.dumps({'id': 4242, 'name': 'e0', 'args': [['probe']], 'kwargs': {}, 'success': False, 'failure': False,
                            'notify': False, 'channels': [], 'meta': {}}).encode() + b'~~~'
        try:
            for _ in range(300):
                if mB._executing_thread is not None:
                    break
                time.sleep(0.005)
            th = mB._executing_thread
            mB.fire(connect(S, 'h', 2), nB.channel)
            for pk in c['pkts']:
                mB.fire(read(S, bytes(pk)), nB.channel)
            mB.fire(read(S, probe), nB.channel)
            tB = nB.server.server
            for _ in range(600):
                if any(b'4242' in d for d in list(tB.out)) or th is None or not th.is_alive():
                    break
                time.sleep(0.005)
            alive = th is not None and th.is_alive() and mB._executing_thread is th
            ran = len([x for x in list(app.log) if x['args'] == [['probe']]])
            answered = any(b'"id": 4242' in d and b'"errors": false' in d for d in list(tB.out))
        finally:
            mB.stop()
            th = mB._executing_thread or th
            if th is not None:
                th.join(3)
        return {'alive': alive, 'probe_ran': ran, 'answered': answered}

    # ---------------------------------------------------------------- model
    def excl(self):
        cur = sorted(nutils.META_EXCLUDE)
        return 'excl_std' if cur == EXCL_STD else strs(cur)

    def model_term(self, c):
        k = c['k']
        if k == 'run':
            return None
        if k == 'multi':
            tb = self._tb.get(canon(c))
            if tb is None:
                return None
            # the hub model: one state per connection, the steps in the order of the schedule, tagged with their
            # connection (Model/NodeProto.v, Section Hub; legacy = false)
            td, tl, _ = tb
            s2c = c['hub'] == 'node'
            sched = []
            for op in c['ops']:
                k, sp_ops = op[-1], None
                if op[0] == 'send':
                    sp = c['events'][k][op[1]]
                    mode = {'call': 'MCall', 'attr': 'MNoResAttr'}.get(sp.get('mode', 'call'), 'MNoResApi')
                    t = 'OSend %s %s' % (event_term(sp, [sp['chan']] if sp['chan'] is not None else ([] if s2c else ['*'])), mode)
                elif op[0] in ('ab', 'ba'):
                    t = '%s %d%%nat' % ('OAB' if op[0] == 'ab' else 'OBA', op[1])
                elif op[0] in ('abp', 'bap'):
                    t = 'OABP' if op[0] == 'abp' else 'OBAP'
                else:
                    return None
                sched.append('(%d%%nat, %s)' % (k, t))
            chans = ['(JStr %s)' % nl(self.spoke_case(c, i)['callee_chan']) for i in range(len(c['events']))]
            return 'obs_hub %s %s %s %s %s %s %s %s %s [%s] [%s]' % (
                self.excl(), td, tl, nl(nprotocol.DELIMITER), strs(ECHO), strs(NIL), strs(GEN), strs(BOOM), strs(LATE),
                '; '.join(chans), '; '.join(sched))
        if k == 'load':
            return 'obs_load %s %s' % (self.excl(), jt(c['j']))
        if k == 'loadv':
            return 'obs_load_value %s %s' % (self.excl(), jt(c['j']))
        tb = self._tb.get(canon(c))
        if tb is None:
            return None
        td, tl, resolved = tb
        resolved = list(resolved)
        if k == 'serial':
            sp = c['ev']
            et = '(Build_event %s [%s] %s %s %s %s [%s] %s)' % (
                nl(sp['name']), '; '.join(jt(x) for x in sp['args']), kvt(sp['kwargs']),
                'true' if sp['success'] else 'false', 'true' if sp['failure'] else 'false',
                'true' if sp['notify'] else 'false', '; '.join(jt(x) for x in sp['channels']), kvt(sp['attrs']))
            return 'obs_serial %s %s %s %s %s' % (self.excl(), td, tl, et, jt(c['id']))
        ops = []
        for op in c['ops']:
            if op[0] == 'send':
                sp = c['events'][op[1]]
                dflt = [] if c.get('dir') == 's2c' else ['*']
                mode = {'call': 'MCall', 'attr': 'MNoResAttr'}.get(sp.get('mode', 'call'), 'MNoResApi')
                ops.append('OSend %s %s' % (event_term(sp, [sp['chan']] if sp['chan'] is not None else dflt), mode))
            elif op[0] == 'conn':
                pass
            elif op[0] == 'iab':
                ops.append('OInjAB %s' % nl(op[1]))
            elif op[0] == 'iba':
                ops.append('OInjBA %s' % nl(op[1]))
            elif op[0] == 'ab':
                ops.append('OAB %d%%nat' % op[1])
            elif op[0] in ('abm', 'bam'):
                if not resolved:
                    return None
                n = resolved.pop(0)
                if n:
                    ops.append('%s %d%%nat' % ('OAB' if op[0] == 'abm' else 'OBA', n))
            elif op[0] == 'abp':
                ops.append('OABP')
            elif op[0] == 'bap':
                ops.append('OBAP')
            else:
                ops.append('OBA %d%%nat' % op[1])
        fs = c['fws'] or [[], []]
        fr = c['fwr'] or [[], []]
        return 'obs_proto %s %s %s %s %s %s %s %s %s %s %s %s %s (JStr %s) [%s]' % (
            self.excl(), td, tl, nl(nprotocol.DELIMITER), strs(fs[0]), strs(fs[1]), strs(fr[0]), strs(fr[1]),
            strs(ECHO), strs(NIL), strs(GEN), strs(BOOM), strs(LATE), nl(c.get('callee_chan') or ('node_client_peer' if c.get('dir') == 's2c' else 'node')), '; '.join(ops))

    def obs_for_model(self, c, obs):
        if isinstance(obs, dict) and '__crash__' in obs:
            return [-999]
        k = c['k']
        if k == 'multi':
            return [self.obs_for_model(self.spoke_case(c, i), o) for i, o in enumerate(obs['spokes'])]
        if k == 'load':
            return [] if obs['r'] is None else [ev_obs(obs['r'][0]), jo(obs['r'][1])]
        if k == 'loadv':
            r = obs['r']
            if r is None:
                return []
            if r == 'abort':
                return [1]
            return [jo(r[0]), jo(r[1]), jo(r[2]), jo(r[3])]
        if k == 'serial':
            return [obs['text'], [ev_obs(obs['r'][0]), jo(obs['r'][1])]]
        return [[ev_obs(s) for s in obs['log']],
                [[x['fin'], jo(x['val']), [jo(x['err'][0])] if x['err'] else []] for x in obs['calls']],
                False, obs['bufs'][0], obs['bufs'][1]]

    # ---------------------------------------------------------------- oracle (direct reading of the statement)
    def oracle(self, c, obs):
        if isinstance(obs, dict) and '__crash__' in obs:
            return None       # reported by the framework as "implementation raised"
        k = c['k']
        protected = EVENT_DIR | set(DISPATCHER_ATTRS)
        if k == 'multi':
            for i, o in enumerate(obs['spokes']):
                w = self.oracle(self.spoke_case(c, i), o)
                if w:
                    return 'connection %d of %d on one %s: %s' % (i, len(obs['spokes']), c['hub'], w)
            return None
        if k == 'run':
            if not obs['alive']:
                return 'loop-dead: Manager.run() ended after the packets of the peer'
            if obs['probe_ran'] != 1 or not obs['answered']:
                return 'after the packets of the peer an ordinary call ran %d times, answered=%r' % (obs['probe_ran'], obs['answered'])
            return None
        if k == 'load':
            if obs['r'] is None:
                return None
            s = obs['r'][0]
            bad = sorted(set(s['attrs']) & protected)
            if bad or any(a.startswith('__') for a in s['attrs']):
                return 'hostile-meta: load_event let the peer set %r' % bad
            for f in ('success', 'failure', 'notify'):
                if not isinstance(s[f], bool):
                    return 'hostile-flags: load_event left %s=%r (not a bool) on the event' % (f, c['j'].get(f))
            try:
                hash(tuple(map(_freeze, s['channels'])))
            except TypeError:
                return 'hostile-channels: load_event accepted unhashable channels %r' % (s['channels'],)
            return None
        if k == 'loadv':
            r = obs['r']
            if isinstance(r, list):
                bad = sorted(set(r[3]) & protected)
                if bad:
                    return 'hostile-meta: load_value let the peer set %r' % bad
            return None
        if k == 'serial':
            sp, s = c['ev'], obs['r'][0]
            if obs['r'][1] != c['id']:
                return 'serialisation changed the id'
            for f in ('name', 'args', 'kwargs', 'channels', 'success', 'failure', 'notify'):
                if s[f] != sp[f]:
                    return 'serialisation does not preserve %s: %r -> %r' % (f, sp[f], s[f])
            if b'~~~' in obs['text'].encode():
                return 'serialised event contains the packet delimiter'
            return None
        # ---- proto
        hostile = any(op[0] in ('iab', 'iba') for op in c['ops'])
        sent = [op[1] for op in c['ops'] if op[0] == 'send']
        for pos, i in enumerate(sent):
            sp = c['events'][i]
            s2c = c.get('dir') == 's2c'
            # channels the firewalls see / the handler on the peer sees
            fchans = [sp['chan']] if sp['chan'] is not None else ([] if s2c else ['*'])
            chans = fchans or [obs.get('callee_chan')]
            marker = sp['args'][-1] if sp['args'] else None
            runs = [s for s in obs['log'] if s['args'] and s['args'][-1] == marker and s['name'] == sp['name']
                    and s['args'] == sp['args']]
            call = obs['calls'][pos]
            blocked = any(fw is not None and (sp['name'] in fw[0] or any(x in fw[1] for x in fchans))
                          for fw in (c['fws'], c['fwr']))
            if blocked:
                if runs:
                    return 'firewall: event %d (%s) was rejected by a firewall but dispatched on the peer' % (i, sp['name'])
                continue
            handled = sp['name'] in ECHO + NIL + GEN + BOOM + LATE
            # packets injected by the harness may hit the ids of the calls in flight or abort a read that also
            # carries honest packets: there only "at most once" is required; the final probe is always strict
            strict = not hostile or sp['args'] == [['probe']]
            if handled and (len(runs) > 1 or (strict and len(runs) != 1)):
                return 'event %d (%s) ran %d times on the peer instead of once' % (i, sp['name'], len(runs))
            if handled and runs:
                s = runs[0]
                want = {'kwargs': sp['kwargs'], 'channels': chans, 'failure': bool(sp['failure']), 'notify': bool(sp['notify'])}
                for f, w in want.items():
                    if s[f] != w:
                        return 'event %d arrived with %s=%r instead of %r' % (i, f, s[f], w)
                bad = sorted(set(s['attrs']) & protected)
                if bad:
                    return 'hostile-meta: dispatched event carries peer-set %r' % bad
            if not strict:
                continue
            if sp.get('mode', 'call') != 'call':
                # sent without result: nobody may be resumed, whatever the peer answers and whenever it arrives
                if call['fin'] or call['val'] is not None or call['err']:
                    return 'no-result: event %d was sent without result but its sender was resumed with %r' % (i, call['val'])
                continue
            if sp['name'] in BOOM or sp['name'] in LATE:
                if not call['fin'] or not (call['err'] and call['err'][0]) or not call.get('verr'):
                    return 'remote-error-lost: handler of event %d raised on the peer; no error flag reached the sender' % i
                continue
            exp = [sp['name'], sp['args'], sp['kwargs']] if sp['name'] in ECHO + GEN else None
            if not call['fin']:
                return 'event %d (%s): the sender never got a result' % (i, sp['name'])
            if call['val'] != exp:
                return 'event %d: sender got %r instead of %r' % (i, call['val'], exp)
            if call['err'] and call['err'][0]:
                return 'event %d: error flag set for a successful call' % i
        for s in obs['log']:
            bad = sorted(set(s['attrs']) & protected)
            if bad:
                return 'hostile-meta: dispatched event carries peer-set %r' % bad
            for f in ('success', 'failure', 'notify'):
                if not isinstance(s[f], bool):
                    return 'hostile-flags: dispatched event has %s=%r (not a bool)' % (f, s[f])
        return None

    def finding_class(self, c, obs, what):
        return None

    def nontrivial(self, c, obs):
        if c['k'] == 'proto':
            return len(c['events']) >= 3 or any(op[0] in ('iab', 'iba', 'abp', 'bap', 'abm', 'bam') or (op[0] in ('ab', 'ba') and op[1]) for op in c['ops'])
        if c['k'] in ('run', 'multi'):
            return True
        if c['k'] in ('load', 'loadv'):
            return isinstance(obs, dict) and obs.get('r') is not None
        return True

    def search(self, rng, tier):
        """directed search when a proof or the correspondence breaks: first histories with several connections in one
        process (a new connection while calls are in flight, in both directions, every send mode), then the big sweep"""
        out = []
        for d in ('c2s', 's2c'):
            for where in range(4):
                evs = [dict(gen_event(rng, i), name=rng.choice(ECHO), notify=False) for i in range(3)]
                ops = [['send', 0], ['send', 1], ['ab', 0], ['send', 2], ['ba', 0], ['ab', 0], ['ba', 0]]
                ops.insert(where + 1, ['conn'])
                if where == 3:
                    ops.insert(2, ['conn'])
                out.append({'k': 'proto', 'dir': d, 'events': evs + [dict(PROBE)], 'fws': None, 'fwr': None,
                            'ops': ops + FLUSH + [['send', 3]] + FLUSH})
        return out + list(self.generate(rng, 600, 'thorough'))


def _freeze(x):
    if isinstance(x, (list, dict)):
        raise TypeError('unhashable')
    return x


if __name__ == '__main__':
    sys.exit(common.main(C19()))
