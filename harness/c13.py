"""C13 — HTTP messages are parsed identically however the stream is segmented.

Three drivers of the real code, all in-process:
  'parser' : circuits.web.parsers.http.HttpParser fed read by read (kind 0 = request, 1 = response)
  'server' : circuits.web.http.HTTP + fake socket (subclass of socket.socket), request handler echoing
             everything it sees into the response
  'client' : circuits.web.client.Client (which owns protocols.http.HTTP) fed `read` events
The correspondence compares, after every read, the parser state of the connection and the events fired with the
Coq model (Model/HttpFraming.v); the oracle compares segmented delivery with one-piece delivery of the same bytes
and with what the generator knows it put into the message.
"""
import sys, os, socket
sys.path.insert(0, os.path.dirname(os.path.abspath(__file__)))
import common
from common import Prop, nlist, nlistlist

from circuits import Manager, BaseComponent, handler
from circuits.net.events import read
import circuits.web.parsers as parsers_pkg
import circuits.web.parsers.http as parser_mod
import circuits.web.http as webhttp
from circuits.web.http import HTTP as ServerHTTP
from circuits.protocols.http import HTTP as ClientHTTP
from circuits.web.client import Client

RealParser = parser_mod.HttpParser
CRLF = '\r\n'


# ----------------------------------------------------------------------------- tracing parser (driver side only)
# Observation policy: parser internals are read through the public API (execute, is_headers_complete,
# is_message_complete, is_chunked, recv_body, get_*, errno).  The two private call sites _parse_firstline /
# _parse_headers are hooked when they exist (they are the mechanism the property anchors); when they do not, the
# first line and the header block are derived from the bytes fed.  The carried-over buffer `_buf` is compared only
# when it can be read; otherwise that field is dropped on BOTH sides (flag wbuf of the model encoder).  Something
# that cannot be observed is counted in stats['degraded'] and never becomes a violation.
HOOKS = hasattr(RealParser, '_parse_firstline') and hasattr(RealParser, '_parse_headers')
DEGRADED = {}


def degraded(what):
    DEGRADED[what] = DEGRADED.get(what, 0) + 1


class TParser(RealParser):
    """the real parser plus a record of the bytes it was fed and of what its two content-parsing call sites were given"""
    created = []

    def __init__(self, kind=2, decompress=False):
        super().__init__(kind, decompress)
        self.t_kind = kind
        self.t_fed = []
        self.t_fl = None          # first line (str) handed to _parse_firstline, if accepted or not
        self.t_fl_ok = None
        self.t_blk = None         # header block handed to the header parser
        self.t_crash = False
        TParser.created.append(self)

    def execute(self, data, length):
        self.t_fed.append(bytes(data[:length]))
        return super().execute(data, length)

    def _parse_firstline(self, line):
        r = super()._parse_firstline(line)
        self.t_fl, self.t_fl_ok = line, r
        return r

    def _parse_headers(self, data):
        before = self.is_headers_complete()
        try:
            r = super()._parse_headers(data)
        except parser_mod.InvalidHeader:
            if not before and self.t_blk is None:
                i = data.find(b'\r\n\r\n')
                self.t_blk = data[:i] if i >= 0 else data
            raise
        if not before and self.is_headers_complete() and self.t_blk is None:
            i = data.find(b'\r\n\r\n')
            self.t_blk = b'' if data[:2] == b'\r\n' else data[:i]
        return r


def l1(b):
    return bytes(b).decode('latin-1')


def seen_head(p):
    """(first line str | None, accepted?, header block bytes | None): from the hooks, else derived from the bytes fed"""
    if HOOKS:
        return p.t_fl, p.t_fl_ok, p.t_blk
    degraded('first line / header block derived from the bytes fed (private call sites not found)')
    stream = b''.join(p.t_fed)
    i = stream.find(b'\r\n')
    if i < 0:
        return None, None, None
    fl = stream[:i].decode('latin-1')
    ok = p.errno != parser_mod.BAD_FIRST_LINE
    blk = None
    if ok and (p.is_headers_complete() or p.errno == parser_mod.INVALID_HEADER):
        after = stream[i + 2:]
        if after[:2] == b'\r\n':
            blk = b''
        else:
            k = after.find(b'\r\n\r\n')
            blk = after[:k] if k >= 0 else after
    return fl, ok, blk


def carried(p):
    """the carried-over bytes (anchored attribute _buf), or None when they cannot be read"""
    x = getattr(p, '_buf', None)
    try:
        if isinstance(x, (bytes, bytearray)):
            return bytes(x)
        if isinstance(x, (list, tuple)):
            return b''.join(x)
    except TypeError:
        pass
    return None


def body_so_far(p):
    """body bytes parsed so far, read through the public recv_body() on a copy (non-destructive)"""
    import copy
    try:
        q = copy.deepcopy(p)
    except Exception:
        q = copy.copy(p)
    return q.recv_body()


def pstate(p, flags=None):
    """canonical state of a real parser, same shape as Model/HttpFramingObs.obs_state"""
    if p is None:
        return [0, '']
    raw = carried(p)
    if raw is None:
        degraded('carried-over buffer not readable: field dropped from the comparison')
        if flags is not None:
            flags['wbuf'] = False
        raw = b''
    buf = l1(raw)
    fl, fl_ok, blk = seen_head(p)
    fl = fl or ''
    blk = l1(blk or b'')
    if p.t_crash:
        return [6]
    hc = p.is_headers_complete()
    if p.errno is not None and not hc:
        return [5, p.errno]
    body = l1(body_so_far(p))
    if p.is_message_complete():
        return [4, fl, blk, body]
    if hc:
        if p.is_chunked():
            return [3, fl, blk, body, buf]
        return [2, fl, blk, body]
    if fl_ok:
        return [1, fl, buf]
    return [0, buf]


def containers(obj):
    """the dict / set attributes of a component: per-connection tables are found by content, not by name"""
    try:
        return [v for v in vars(obj).values() if isinstance(v, (dict, set))]
    except TypeError:
        return None


def find_parser(obj, key=None):
    """the parser a component holds: an attribute that is an HttpParser, or (for key) the HttpParser stored under key
    in one of its dicts"""
    try:
        vals = list(vars(obj).values())
    except TypeError:
        return None
    if key is not None:
        for v in vals:
            if isinstance(v, dict):
                try:
                    w = v.get(key)
                except TypeError:
                    continue
                if isinstance(w, RealParser):
                    return w
        return None
    for v in vals:
        if isinstance(v, RealParser):
            return v
    return None


def conn_entries(http, sock):
    """how many of the component's tables still hold something for this connection (None: cannot be observed)"""
    cs = containers(http)
    if cs is None:
        degraded('component attributes not enumerable: per-connection tables not observed')
        return None
    n = 0
    for c in cs:
        try:
            if sock in c:
                n += 1
        except TypeError:
            pass
    return n


def tc(x):
    """byte strings up to 64 bytes are compared literally, longer ones by length and checksum (HttpFramingObs.Tc)"""
    if isinstance(x, str):
        x = x.encode('latin-1')
    if len(x) <= 64:
        return [0, x.decode('latin-1')]
    acc = 0
    for b in x:
        acc = (acc * 257 + b + 1) % 1000000007
    return [1, len(x), acc]


def kstate(st):
    """pstate -> the form compared with the model (strings replaced by length + checksum)"""
    return [tc(x) if isinstance(x, str) else x for x in st]


def pshort(p, flags=None):
    """tag, length of the carried-over buffer, length of the body so far (Model/HttpFramingObs.obs_short)"""
    st = pstate(p, flags)
    t = st[0]
    if t == 0:
        return [0, len(st[1]), 0]
    if t == 1:
        return [1, len(st[2]), 0]
    if t == 2:
        return [2, 0, len(st[3])]
    if t == 3:
        return [3, len(st[4]), len(st[3])]
    if t == 4:
        return [4, 0, len(st[3])]
    if t == 5:
        return [5, st[1], 0]
    return [t, 0, 0]


def compress(trace):
    """keep the reads after which the phase changed or an event was fired"""
    out, prev = [], 0
    for i, (short, evs) in enumerate(trace):
        if short[0] != prev or evs:
            out.append([i, short, evs])
        prev = short[0]
    return out


def fl_value(kind, line):
    """oracle table entry for a first line, evaluated by a fresh real parser through execute()"""
    p = RealParser(kind)
    try:
        p.execute(line.encode('latin-1') + b'\r\n', len(line) + 2)
    except UnicodeEncodeError:
        return None
    if p.errno is not None:
        return None
    return p.get_status_code() == 204


GOOD_FL = {0: b'GET / HTTP/1.1\r\n', 1: b'HTTP/1.1 200 OK\r\n'}


def hd_value(blk, kind=0):
    """oracle table entry for a header block, evaluated by a fresh real parser through execute()"""
    p = RealParser(kind)
    data = GOOD_FL[kind] + blk + b'\r\n\r\n'
    p.execute(data, len(data))
    if p.errno is not None and not p.is_headers_complete():
        return None
    raw = p.get_headers().get('content-length')
    try:
        clen = None if raw is None else int(raw)
    except ValueError:
        raise ValueError('unparsable Content-Length is outside the model')
    conn = p.get_headers().get('connection', '').lower()
    if 'upgrade' in conn:
        raise ValueError('Connection: upgrade is outside the model')
    return (clen, bool(p.is_chunked()))


# ----------------------------------------------------------------------------- doubles
class FakeSock(socket.socket):
    def __init__(self):
        pass

    def getpeername(self):
        return ('127.0.0.1', 5555)

    def __hash__(self):
        return id(self)

    def __eq__(self, o):
        return self is o

    def close(self):
        pass

    def __del__(self):
        pass

    def __repr__(self):
        return '<fake socket>'


class FakeServer(BaseComponent):
    channel = 'web'
    host = '127.0.0.1'
    port = 8000
    secure = False
    display_banner = False


class App(BaseComponent):
    channel = 'web'

    def __init__(self):
        super().__init__()
        self.log = []

    @handler('request', priority=0.5)
    def _on_request(self, event, req, res, *a):
        body = req.body.read()
        hdrs = sorted((k.lower(), v) for k, v in req.headers.items())
        rec = ['request', req.method, req.path, req.qs, list(req.protocol), [list(h) for h in hdrs], l1(body)]
        self.log.append(rec)
        return 'echo %r' % (rec[1:],)

    @handler('httperror', priority=100)
    def _on_httperror(self, event, req, res, code=None, **kw):
        self.log.append(['httperror', code])

    @handler('write', priority=100)
    def _on_write(self, sock, data):
        self.log.append(['write', l1(data)])

    @handler('close', priority=100)
    def _on_close(self, sock):
        self.log.append(['close'])


class ClientProbe(BaseComponent):
    channel = 'client'

    def __init__(self):
        super().__init__()
        self.log = []

    @handler('response', priority=10)
    def _on_response(self, res):
        hdrs = sorted((k.lower(), v) for k, v in res.headers.items())
        self.log.append(['response', res.status, list(res.version), [list(h) for h in hdrs], l1(res.body.getvalue())])

    @handler('exception', channel='*')
    def _on_exception(self, *args, **kw):
        pass    # exceptions in the read handler are observed through the parser double; keep stderr quiet


def drain(m):
    for _ in range(2000):
        if not len(m):
            return
        m.flush()
    raise RuntimeError('event queue does not drain')


def strip_date(data):
    """responses carry a Date header (wall clock): not an observable of this property"""
    out = []
    for line in data.split('\r\n'):
        if line.lower().startswith('date:'):
            continue
        out.append(line)
    return '\r\n'.join(out)


# ----------------------------------------------------------------------------- the three drivers
def reads_of(msg):
    b = msg['bytes'].encode('latin-1')
    pts = [0] + list(msg['cuts']) + [len(b)]
    return [b[pts[i]:pts[i + 1]] for i in range(len(pts) - 1)]


def drive_parser(kind, reads, tables):
    p = TParser(kind, True)
    trace = []
    for d in reads:
        if not (p.t_crash or (p.errno is not None and not p.is_headers_complete())):
            try:
                p.execute(d, len(d))
            except Exception:
                p.t_crash = True
        trace.append([pshort(p, tables), [[2]] if p.t_crash else []])
    note_tables(tables, [p])
    return [compress(trace), pstate(p, tables)]


def note_tables(tables, parsers):
    for p in parsers:
        fl, _, blk = seen_head(p)
        if fl is not None:
            tables['fl'][(p.t_kind, fl)] = fl_value(p.t_kind, fl)
        if blk:
            tables['hd'][bytes(blk)] = hd_value(bytes(blk), p.t_kind if p.t_kind in (0, 1) else 0)


def ev_msg(p, body):
    fl, _, blk = seen_head(p)
    return [0, fl or '', l1(blk or b''), body]


def drive_server(msgs_reads, tables):
    old = webhttp.HttpParser
    webhttp.HttpParser = TParser
    TParser.created = []
    try:
        m = Manager()
        srv = FakeServer().register(m)
        http = ServerHTTP(srv).register(m)
        srv.http = http
        app = App().register(m)
        sock = FakeSock()
        drain(m)
        trace, log = [], []
        for reads in msgs_reads:
            for d in reads:
                n0 = len(app.log)
                ncreated = len(TParser.created)
                p = find_parser(http, sock)
                m.fire(read(sock, d), 'web')
                drain(m)
                if p is None and len(TParser.created) > ncreated:
                    p = TParser.created[ncreated]
                new = app.log[n0:]
                evs = []
                for rec in new:
                    if rec[0] == 'request':
                        evs.append(ev_msg(p, rec[6]))
                    elif rec[0] == 'httperror' and rec[1] == 400 and not any(r[0] == 'request' for r in new):
                        evs.append([1])
                    elif rec[0] == 'httperror' and rec[1] in (500, None) and not any(r[0] == 'request' for r in new):
                        evs.append([2])
                trace.append([pshort(find_parser(http, sock), tables), evs])
                for rec in new:
                    if rec[0] == 'write':
                        log.append(['write', strip_date(rec[1])])
                    elif rec[0] != 'httperror':
                        log.append(rec)
        note_tables(tables, TParser.created)
        # adjacent writes are one byte stream
        flat = []
        for rec in log:
            if rec[0] == 'write' and flat and flat[-1][0] == 'write':
                flat[-1] = ['write', flat[-1][1] + rec[1]]
            else:
                flat.append(list(rec))
        return [compress(trace), pstate(find_parser(http, sock), tables)], flat, conn_entries(http, sock)
    finally:
        webhttp.HttpParser = old


def drive_client(msgs_reads, tables):
    old = parsers_pkg.HttpParser
    parsers_pkg.HttpParser = TParser
    TParser.created = []
    cl = None
    try:
        m = Manager()
        cl = Client().register(m)
        probe = ClientProbe().register(m)
        drain(m)
        def walk(c):
            yield c
            for k in list(c.components):
                yield from walk(k)
        comp = [c for c in walk(cl) if isinstance(c, ClientHTTP)][0]
        trace, log = [], []
        for reads in msgs_reads:
            for d in reads:
                n0 = len(probe.log)
                p = find_parser(comp)
                crashed = getattr(p, 't_crash', False)
                orig = p.execute

                def ex(data, length, _p=p, _orig=orig):
                    try:
                        return _orig(data, length)
                    except Exception:
                        _p.t_crash = True
                        raise
                p.execute = ex
                m.fire(read(d), 'client')
                drain(m)
                try:
                    del p.execute
                except AttributeError:
                    pass
                new = probe.log[n0:]
                evs = [ev_msg(p, rec[4]) for rec in new]
                if p.t_crash:
                    evs.append([2])
                trace.append([pshort(find_parser(comp), tables), evs])
                log.extend(new)
        note_tables(tables, TParser.created)
        last = cl.response
        return [compress(trace), pstate(find_parser(comp), tables)], log, None if last is None else [last.status, l1(last.body.getvalue())]
    finally:
        parsers_pkg.HttpParser = old
        try:
            for c in walk(cl):
                sk = getattr(c, '_sock', None)
                if sk is not None:
                    sk.close()
        except Exception:
            pass


# ----------------------------------------------------------------------------- generator (grammar of well-formed messages)
METHODS = ['GET', 'POST', 'PUT', 'DELETE', 'HEAD', 'OPTIONS', 'PATCH']
SEGS = ['a', 'b1', 'index.html', 'x-y', 'z_9', '~u', 'A']
QS = ['', '', 'x=1', 'x=1&y=2', 'q=a+b', 'k', 'e=%20f']
EXTRA_HDRS = [('User-Agent', 'ua/1.0'), ('Accept', '*/*'), ('X-Foo', 'bar baz'), ('Accept-Language', 'en, de;q=0.5'),
              ('X-Empty', ''), ('Cookie', 'a=1; b=2'), ('X-Colon', 'a:b:c'), ('Referer', 'http://h/p?q=1')]
BODY_ALPHA = ['a', 'bc', '\r', '\n', '\r\n', '\r\n\r\n', '0\r\n\r\n', '0', ';', ' ', '\x00', '\xff', 'GET / HTTP/1.1\r\n', 'Zz', '5\r\n']
STATUSES = [(200, 'OK'), (404, 'Not Found'), (201, 'Created'), (500, 'Internal Server Error'), (302, 'Found'),
            (204, 'No Content'), (304, 'Not Modified')]


def case_name(rng, name):
    r = rng.random()
    if r < 0.6:
        return name
    if r < 0.8:
        return name.lower()
    return name.upper()


def gen_headers(rng, base):
    """-> (raw header lines, expected {lower name: normalised value})"""
    hs = list(base)
    for h in rng.sample(EXTRA_HDRS, rng.randint(0, 3)):
        hs.append(h)
    rng.shuffle(hs)
    lines, exp = [], {}
    for (n, v) in hs:
        name = case_name(rng, n)
        sep = rng.choice([': ', ':', ':  ', ':\t'])
        if v and ' ' in v and rng.random() < 0.5 and n.startswith(('X-', 'Accept', 'Cookie')):
            # obs-fold: continuation line(s)
            a, b = v.split(' ', 1)
            line = name + sep + a + CRLF + rng.choice([' ', '\t', '  ']) + b
        else:
            line = name + sep + v
        lines.append(line)
        exp[n.lower()] = ' '.join(v.split())
    return lines, exp


def gen_body(rng, allow_empty=True):
    n = rng.choice([0, 1, 2, 3, 5, 8] if allow_empty else [1, 2, 3, 5, 8])
    return ''.join(rng.choice(BODY_ALPHA) for _ in range(n))


def gen_chunked(rng):
    """-> (wire bytes of the chunked body, decoded body, structure)"""
    body = gen_body(rng)
    parts, i = [], 0
    while i < len(body):
        k = rng.randint(1, max(1, min(20, len(body) - i)))
        parts.append(body[i:i + k])
        i += k
    wire = ''
    for p in parts:
        hx = '%x' % len(p)
        if rng.random() < 0.3:
            hx = hx.upper()
        if rng.random() < 0.2:
            hx = '0' * rng.randint(1, 2) + hx
        ext = rng.choice(['', '', ';x', ';x=1', ';a=b;c', ' ;q=1'])
        wire += hx + ext + CRLF + p + CRLF
    last = rng.choice(['0', '0', '00', '0;last', '0;x=y'])
    trailers = []
    if rng.random() < 0.4:
        trailers = rng.sample(['X-T: v', 'Etag: "abc"', 'X-Sum:1 2'], rng.randint(1, 2))
    wire += last + CRLF + ''.join(t + CRLF for t in trailers) + CRLF
    return wire, body, {'nchunks': len(parts), 'trailers': len(trailers)}


def gen_request(rng, features=None):
    method = rng.choice(METHODS)
    path = '/' + '/'.join(rng.sample(SEGS, rng.randint(0, 3)))
    if path != '/' and rng.random() < 0.2:
        path += '/'
    qs = rng.choice(QS)
    ver = rng.choice(['1.1', '1.1', '1.0'])
    target = path + ('?' + qs if qs else '')
    fl = '%s %s HTTP/%s' % (method, target, ver)
    base = []
    if ver == '1.1' or rng.random() < 0.5:
        base.append(('Host', rng.choice(['example.org', 'h:8000', 'localhost'])))
    bk = rng.choice(['none', 'none', 'cl', 'cl', 'chunked', 'chunked', 'cl0'])
    if features:
        bk = features
    info = {}
    if bk == 'cl':
        body = gen_body(rng)
        base.append(('Content-Length', str(len(body))))
        wire = body
    elif bk == 'cl0':
        body, wire = '', ''
        base.append(('Content-Length', '0'))
    elif bk == 'chunked':
        wire, body, info = gen_chunked(rng)
        base.append(('Transfer-Encoding', rng.choice(['chunked', 'chunked', 'Chunked', 'CHUNKED'])))
    else:
        body, wire = '', ''
    lines, exp_h = gen_headers(rng, base)
    if bk == 'none' and ver == '1.0' and rng.random() < 0.3:
        lines, exp_h = [], {}           # empty header section
    data = fl + CRLF + ''.join(l + CRLF for l in lines) + CRLF + wire
    return {'bytes': data, 'fl': fl, 'nh': len(lines), 'bk': bk, 'head_len': len(data) - len(wire),
            'expect': {'method': method, 'path': path, 'qs': qs, 'version': [1, int(ver[2])], 'headers': exp_h,
                       'body': body}, 'info': info}


def gen_response(rng, features=None):
    code, reason = rng.choice(STATUSES)
    ver = rng.choice(['1.1', '1.1', '1.0'])
    fl = 'HTTP/%s %d %s' % (ver, code, reason)
    base = [('Server', 'srv/0.1')]
    if rng.random() < 0.5:
        base.append(('Content-Type', 'text/plain; charset=utf-8'))
    if code in (204, 304):
        bk = rng.choice(['nobody', 'nobody', 'cl0'])
    else:
        bk = rng.choice(['cl', 'cl', 'chunked', 'chunked', 'cl0', 'eof'])
    if features:
        bk = features
    info = {}
    if bk == 'cl':
        body = gen_body(rng)
        wire = body
        base.append(('Content-Length', str(len(body))))
    elif bk == 'cl0':
        body, wire = '', ''
        base.append(('Content-Length', '0'))
    elif bk == 'chunked':
        wire, body, info = gen_chunked(rng)
        base.append(('Transfer-Encoding', rng.choice(['chunked', 'Chunked'])))
    elif bk == 'eof':
        body = gen_body(rng)
        wire = body
    else:
        body, wire = '', ''
    lines, exp_h = gen_headers(rng, base)
    completes = bk in ('cl', 'cl0', 'chunked')
    if bk in ('eof', 'nobody') and rng.random() < 0.25:
        lines, exp_h = [], {}           # empty header section; a 204 without fields is complete by itself
        completes = code == 204 and not wire
    data = fl + CRLF + ''.join(l + CRLF for l in lines) + CRLF + wire
    return {'bytes': data, 'fl': fl, 'nh': len(lines), 'bk': bk, 'head_len': len(data) - len(wire),
            'expect': {'status': code, 'version': [1, int(ver[2])], 'headers': exp_h, 'body': body,
                       'completes': completes}, 'info': info}


def interesting_cuts(data):
    """cut positions next to every CR / LF (the places where the framing searches can go wrong)"""
    pts = set()
    for i, ch in enumerate(data):
        if ch in '\r\n':
            pts.update((i, i + 1))
    return sorted(p for p in pts if 0 < p < len(data))


def gen_cuts(rng, data, mode):
    n = len(data)
    if n <= 1:
        return []
    if mode == 'bytes':
        return list(range(1, n))
    if mode == 'single':
        return [rng.randint(1, n - 1)]
    if mode == 'crlf':
        ic = interesting_cuts(data)
        k = rng.randint(1, min(4, len(ic)))
        return sorted(rng.sample(ic, k))
    if mode == 'one':
        return []
    k = rng.randint(1, min(8, n - 1))
    return sorted(rng.sample(range(1, n), k))


MODES = ['bytes', 'single', 'single', 'crlf', 'crlf', 'crlf', 'multi', 'multi', 'one']


class C13(Prop):
    id = 'C13'
    props_file = 'Props/C13.v'
    imports = ['Model.HttpFraming', 'Model.HttpFramingObs']
    quick_n = 230
    thorough_n = 2500
    rule = ('grammar-generated HTTP/1.0 and 1.1 requests (7 methods, paths with query, header sets with case variants, '
            'obs-fold continuation lines, bodies: none / Content-Length (incl. 0, bytes containing CRLF, "0 CRLF CRLF", '
            'request lines) / chunked with extensions, leading zeros, upper-case hex, trailers) and responses (status '
            'lines incl. 204/304, Content-Length, chunked, read-until-close; with header fields or with an empty header section), alone or as keep-alive sequences of 2-3 '
            'messages; cut byte-at-a-time, at one random point, next to CR/LF bytes, at several random points, or not at '
            'all; plus an exhaustive every-single-cut sweep of a few messages per run; driven through the raw HttpParser, '
            'through web.HTTP with a fake socket, and through web.client.Client. non-trivial = at least one cut.')
    trusted_base = ['hand-written model Model/HttpFraming.v tied to the current implementation by this correspondence run '
                    '(state of the connection parser and events after every read)',
                    'first-line and header-block content parsing are oracles (Section variables); for running the model '
                    'they are tables keyed by what the real parser was given (hooked call sites, else derived from the bytes fed) and evaluated by a fresh real parser through execute()',
                    'python oracle in harness/c13.py (one-piece vs segmented; generator knowledge of the message)']
    assumptions = ['reads are non-empty (the socket layer closes instead of firing read(b""))',
                   'no pipelining: a read never spans two messages',
                   'the client components never signal the end of the connection to the parser: responses delimited by it are never delivered, in any segmentation (C13_client_until_close)',
                   'Content-Encoding (decompression), Connection: upgrade, unparsable Content-Length are outside the model']

    def __init__(self):
        self._tables = {}
        self.stats = {'drivers': {}, 'cut_modes': {}, 'body_kinds': {}, 'reads_per_case_max': 0, 'final_tags': {},
                      'sweep_cases': 0}

    # ---- cases
    def _mk(self, k, msgs):
        return {'k': k, 'msgs': [{'bytes': m['bytes'], 'cuts': m['cuts'], 'bk': m['bk'], 'nh': m['nh'],
                                  'expect': m['expect']} for m in msgs]}

    def generate(self, rng, n, tier):
        cases = []
        for i in range(n):
            r = rng.random()
            if r < 0.22:
                k = 'parser0'
            elif r < 0.40:
                k = 'parser1'
            elif r < 0.75:
                k = 'server'
            else:
                k = 'client'
            resp = k in ('parser1', 'client')
            nm = 1 if k.startswith('parser') else rng.choice([1, 1, 2, 3])
            msgs = []
            for j in range(nm):
                m = gen_response(rng) if resp else gen_request(rng)
                if resp and j < nm - 1 and not m['expect']['completes']:
                    m = gen_response(rng, 'cl')
                m['cuts'] = gen_cuts(rng, m['bytes'], rng.choice(MODES))
                msgs.append(m)
            cases.append(self._mk(k, msgs))
        # a few malformed first lines / header blocks (errno path of the model)
        for _ in range(max(2, n // 60)):
            m = gen_request(rng)
            if rng.random() < 0.5:
                m['bytes'] = m['bytes'][0].lower() + m['bytes'][1:]
            else:
                m['bytes'] = m['bytes'].replace(CRLF, CRLF + 'nocolon' + CRLF, 1)
            m['expect'] = None
            m['bk'] = 'malformed'
            m['cuts'] = gen_cuts(rng, m['bytes'], rng.choice(MODES))
            cases.append(self._mk(rng.choice(['parser0', 'server']), [m]))
        return cases

    def extra_checks(self, tier, rng, results):
        """every single cut of a few messages (oracle only; the theorem covers all of them in the model)"""
        out = []
        nmsg = 3 if tier == 'quick' else 30
        for i in range(nmsg):
            for k in ('server', 'client', 'parser0'):
                resp = k == 'client'
                m = gen_response(rng) if resp else gen_request(rng)
                for p in range(1, len(m['bytes'])):
                    m2 = dict(m, cuts=[p])
                    c = self._mk(k, [m2])
                    obs = self.safe_impl(c)
                    what = self.oracle(c, obs)
                    self.stats['sweep_cases'] += 1
                    if what is None and isinstance(obs, dict) and '__crash__' in obs:
                        what = 'implementation raised %s' % obs['__crash__']
                    if what:
                        out.append((c, obs, what))
                        break
        return out

    def search(self, rng, tier):
        for i in range(600):
            k = rng.choice(['server', 'client', 'parser0', 'parser1'])
            resp = k in ('parser1', 'client')
            m = gen_response(rng) if resp else gen_request(rng)
            m['cuts'] = gen_cuts(rng, m['bytes'], rng.choice(['bytes', 'crlf', 'single', 'multi']))
            yield self._mk(k, [m])

    # ---- implementation
    def impl(self, c):
        k = c['k']
        tables = {'fl': {}, 'hd': {}, 'wbuf': True}
        seg = [reads_of(m) for m in c['msgs']]
        whole = [[m['bytes'].encode('latin-1')] for m in c['msgs']]
        st = self.stats
        st['drivers'][k] = st['drivers'].get(k, 0) + 1
        for m in c['msgs']:
            st['body_kinds'][m['bk']] = st['body_kinds'].get(m['bk'], 0) + 1
            n = len(m['cuts'])
            mode = 'none' if n == 0 else 'one cut' if n == 1 else 'byte-at-a-time' if n == len(m['bytes']) - 1 else 'multi'
            st['cut_modes'][mode] = st['cut_modes'].get(mode, 0) + 1
        st['reads_per_case_max'] = max(st['reads_per_case_max'], sum(len(r) for r in seg))
        if k in ('parser0', 'parser1'):
            kind = int(k[-1])
            tr = drive_parser(kind, seg[0], tables)
            tr1 = drive_parser(kind, whole[0], tables)
            obs = {'trace': tr, 'final': tr[1], 'final_whole': tr1[1]}
        elif k == 'server':
            tr, log, tabs = drive_server(seg, tables)
            tr1, log1, tabs1 = drive_server(whole, tables)
            obs = {'trace': tr, 'log': log, 'log_whole': log1, 'tabs': tabs, 'tabs_whole': tabs1}
        else:
            tr, log, last = drive_client(seg, tables)
            tr1, log1, last1 = drive_client(whole, tables)
            obs = {'trace': tr, 'log': log, 'log_whole': log1, 'last': last, 'last_whole': last1,
                   'final': tr[1], 'final_whole': tr1[1]}
        tag = obs['trace'][1][0]
        st['final_tags'][str(tag)] = st['final_tags'].get(str(tag), 0) + 1
        self._tables[common.canon(c)] = tables
        if DEGRADED:
            st['degraded'] = dict(DEGRADED)
        return obs

    # ---- model
    def model_term(self, c):
        tables = self._tables.get(common.canon(c))
        if tables is None:
            self.safe_impl(c)
            tables = self._tables.get(common.canon(c), {'fl': {}, 'hd': {}, 'wbuf': True})
        k = c['k']
        kind = 1 if k in ('parser1', 'client') else 0
        mode = 0 if k.startswith('parser') else 1 if k == 'server' else 2
        msg = b''.join(m['bytes'].encode('latin-1') for m in c['msgs'])
        cuts, off = [], 0
        for m in c['msgs']:
            if off:
                cuts.append(off)
            cuts.extend(off + p for p in m['cuts'])
            off += len(m['bytes'])

        def entries(items, fmt):
            sl, lit = [], []
            for key, v in items:
                o = msg.find(key)
                if o >= 0:
                    sl.append('(%d%%N, %d%%N, %s)' % (o, len(key), fmt(v)))
                else:
                    lit.append('(%s, %s)' % (nlist(key), fmt(v)))
            return '[%s]' % '; '.join(sl), '[%s]' % '; '.join(lit)

        def fmt_fl(v):
            return 'None' if v is None else 'Some %s' % ('true' if v else 'false')

        def fmt_hd(v):
            if v is None:
                return 'None'
            clen, ch = v
            return 'Some (%s, %s)' % ('None' if clen is None else 'Some (%d)%%Z' % clen, 'true' if ch else 'false')
        fl_items = []
        for (kd, line), v in sorted(tables['fl'].items()):
            if kd != kind:
                continue
            try:
                fl_items.append((line.encode('latin-1'), v))
            except UnicodeEncodeError:
                continue
        sfl, lfl = entries(fl_items, fmt_fl)
        shd, lhd = entries(sorted(tables['hd'].items()), fmt_hd)
        ranges = []
        for x in cuts:
            if ranges and ranges[-1][1] == x - 1:
                ranges[-1][1] = x
            else:
                ranges.append([x, x])
        return 'obs_run %d%%nat %s %s %s [%s] %s %s %s %s' % (
            mode, 'true' if kind else 'false', 'true' if tables.get('wbuf', True) else 'false', '[%s]' % ';'.join('x%02x' % b for b in msg),
            ';'.join('(%d%%N,%d%%N)' % (a, b) for a, b in ranges), sfl, lfl, shd, lhd)

    def obs_for_model(self, c, obs):
        if isinstance(obs, dict) and '__crash__' in obs:
            return [-999]
        tr, fin = obs['trace']
        tr = [[i, short, [kstate(e) for e in evs]] for (i, short, evs) in tr]
        return [tr, kstate(fin)]

    # ---- oracle (independent of the model: one-piece delivery and the generator's knowledge)
    def oracle(self, c, obs):
        if isinstance(obs, dict) and '__crash__' in obs:
            return None
        k = c['k']
        if any(m['expect'] is None for m in c['msgs']):
            return None        # malformed input: outside this property (C14); correspondence only
        if k.startswith('parser'):
            m = c['msgs'][0]
            a, b = obs['final'], obs['final_whole']
            if a != b:
                return 'segmentation: parser ends in state %r when the message is cut at %r, in %r when delivered whole' % (
                    a, m['cuts'], b)
            e = m['expect']
            if e is not None:
                done = a[0] == 4
                should = e.get('completes', True)
                if done != should:
                    return 'expectation: message %s complete' % ('is not' if should else 'is unexpectedly')
                if done and a[3] != e['body']:
                    return 'expectation: body %r differs from the body sent %r' % (a[3], e['body'])
            return None
        if k == 'server':
            tabs_differ = None not in (obs['tabs'], obs['tabs_whole']) and obs['tabs'] != obs['tabs_whole']
            if obs['log'] != obs['log_whole'] or tabs_differ:
                return 'segmentation: requests seen / bytes written %r differ from one-piece delivery %r' % (
                    trim(obs['log']), trim(obs['log_whole']))
            reqs = [r for r in obs['log_whole'] if r[0] == 'request']
            exp = [m['expect'] for m in c['msgs']]
            if all(e is not None for e in exp):
                if len(reqs) != len(exp):
                    return 'expectation: %d request events for %d requests sent' % (len(reqs), len(exp))
                for r, e in zip(reqs, exp):
                    w = match_request(r, e)
                    if w:
                        return 'expectation: ' + w
                if obs['tabs_whole'] is not None and obs['tabs_whole'] != 0:
                    return ('expectation: %d of the component tables still hold an entry for the connection after the last '
                            'response' % obs['tabs_whole'])
            return None
        # client
        if obs['log'] != obs['log_whole'] or obs['last'] != obs['last_whole'] or obs['final'] != obs['final_whole']:
            return 'segmentation: responses seen %r (parser %r) differ from one-piece delivery %r (parser %r)' % (
                trim(obs['log']), obs['final'], trim(obs['log_whole']), obs['final_whole'])
        exp = [m['expect'] for m in c['msgs']]
        want = [e for e in exp if e['completes']]
        got = obs['log_whole']
        if len(got) != len(want):
            return 'expectation: %d response events for %d complete responses sent' % (len(got), len(want))
        for r, e in zip(got, want):
            if r[1] != e['status'] or r[2] != e['version'] or r[4] != e['body']:
                return 'expectation: response %r differs from the one sent %r' % (r, e)
            hs = {n: ' '.join(v.split()) for n, v in r[3]}
            if hs != e['headers']:
                return 'expectation: response headers %r differ from those sent %r' % (hs, e['headers'])
        return None

    def finding_class(self, c, obs, what):
        return None      # no open finding

    def nontrivial(self, c, obs):
        return any(m['cuts'] for m in c['msgs'])


def trim(log):
    s = repr(log)
    return s if len(s) < 700 else s[:700] + '...'


def match_request(r, e):
    _, method, path, qs, proto, hdrs, body = r
    if method != e['method'] or path != e['path'] or qs != e['qs'] or proto != e['version']:
        return 'request line seen as %r, sent %r' % ((method, path, qs, proto), (e['method'], e['path'], e['qs'], e['version']))
    hs = {n: ' '.join(v.split()) for n, v in hdrs}
    if hs != e['headers']:
        return 'headers seen %r, sent %r' % (hs, e['headers'])
    if body != e['body']:
        return 'body seen %r, sent %r' % (body, e['body'])
    return None


if __name__ == '__main__':
    sys.exit(common.main(C13()))
