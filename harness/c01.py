"""C01 — events reach exactly the matching handlers, once, using the live handler set."""
import sys, os
sys.path.insert(0, os.path.dirname(os.path.abspath(__file__)))
import common
from common import Prop, natlit

from circuits import BaseComponent, Component, Event, handler

NAMES = ['ea', 'eb', 'ec', 'ed']
CHANS = ['*', 'a', 'b']
EVCLS = {n: type(n, (Event,), {}) for n in NAMES}


class vtrig(Event):
    """carries a structural operation that its handler performs at the moment the event is dispatched"""

NCOMP = 5


def build_classes(case, log):
    """dynamic class hierarchy from the case description; returns the most derived class"""
    root = Component if case['root'] == 'Component' else BaseComponent
    classes = []
    for ci, kd in enumerate(case['classes']):
        ns = {}
        for d in kd['defs']:
            def mk(fid):
                def f(self, *args, **kwargs):
                    log.append(fid)
                return f
            f = mk(d['fid'])
            f.__name__ = d['attr']
            if d['kind'] == 'explicit':
                f = handler(*d['names'], override=d['override'])(f)
            elif d['kind'] == 'nonhandler':
                f = handler(False)(f)
            ns[d['attr']] = f          # 'implicit' / 'plain': left to the metaclass (or not a handler at all)
        bases = tuple(classes[b] for b in kd['bases']) or (root,)
        classes.append(type('K%d' % ci, bases, ns))
    return classes


def class_mro_term(case, classes):
    """the MRO of the most derived class restricted to the generated classes, as a Coq (list klass)"""
    idx = {c: i for i, c in enumerate(classes)}
    implicit_ok = case['root'] == 'Component'
    ks = []
    for c in classes[-1].__mro__:
        if c not in idx:
            continue
        ds = []
        for d in case['classes'][idx[c]]['defs']:
            if d['kind'] == 'explicit':
                hd, ov, names = True, d['override'], d['names']
            elif d['kind'] == 'implicit' and implicit_ok and not d['attr'].startswith('_'):
                hd, ov, names = True, False, [d['attr']]
            else:
                hd, ov, names = False, False, []
            ds.append('{| m_attr := %s; m_fid := %s; m_handler := %s; m_override := %s; m_names := [%s]%%nat |}' % (
                natlit(ATTRS.index(d['attr'])), natlit(d['fid']), str(hd).lower(), str(ov).lower(),
                ';'.join(str(ATTRS.index(n)) for n in names)))
        ks.append('[%s]' % '; '.join(ds))
    return '[%s]' % '; '.join(ks)


ATTRS = NAMES + ['_p', 'other']


def chan_term(ch):
    if ch == '*':
        return 'CStar'
    if isinstance(ch, str):
        return '(CStr %s)' % natlit(CHANS.index(ch))
    return '(CComp %s)' % natlit(ch['comp'])


def hdecl_term(h):
    names = '[%s]%%nat' % ';'.join(str(NAMES.index(n)) for n in h['names'])
    hc = 'None' if h['chan'] is None else '(Some %s)' % chan_term(h['chan'])
    return '{| hid := %s; hnames := %s; hchan := %s; hprio := %d%%Z |}' % (natlit(h['hid']), names, hc, h['prio'])


class World:
    """the real thing: a pool of BaseComponents driven through the public API"""

    def __init__(self, case):
        self.log = []
        self.comps = []
        for i, ch in enumerate(case['comps']):
            c = BaseComponent(channel=ch)
            c._vid = i
            self.comps.append(c)
        self.methods = {}
        self.funcs = {}
        world = self
        for c in self.comps:
            # addressed to the component instance: performs the operation it carries when it is DISPATCHED, i.e. in
            # the middle of a flush batch (not a handler of the model: the name is none of NAMES)
            @handler('vtrig', channel=c)
            def _vtrig(self, event, op):
                world.apply(op)
            _vtrig.__name__ = 'vtrig_handler'
            c.addHandler(_vtrig)
        for h in case['handlers']:
            self.funcs[h['hid']] = self.mk(h)

    def real_chan(self, ch):
        if isinstance(ch, dict):
            return self.comps[ch['comp']]
        return ch

    def mk(self, h):
        log = self.log
        hid = h['hid']
        kw = {'priority': h['prio']}
        if h['chan'] is not None:
            kw['channel'] = self.real_chan(h['chan'])
        else:
            kw['channel'] = None

        @handler(*h['names'], **kw)
        def f(self, event, *args, **kwargs):
            if event.name in NAMES:
                log.append((event.args[0], hid))
        f.__name__ = 'vh_%d' % hid
        return f

    def apply(self, o):
        """perform an add / remove operation (only valid ones are generated for in-flush use)"""
        c = self.comps[o['c']]
        if o['op'] == 'add':
            self.methods[(o['c'], o['h'])] = c.addHandler(self.funcs[o['h']])
        else:
            m = self.methods.get((o['c'], o['h']))
            if m is None:
                import types
                m = types.MethodType(self.funcs[o['h']], c)
            if o['ev'] is None:
                c.removeHandler(m)
            else:
                c.removeHandler(m, o['ev'])

    def subtree(self, c):
        out = [c._vid]
        for k in c.components:
            out.extend(self.subtree(k))
        return out

    def check_graph(self):
        """forest consistency of the real object graph (what the model abstracts away)"""
        for c in self.comps:
            top = c
            n = 0
            while top.parent is not top:
                if top not in top.parent.components:
                    return 'parent/child links disagree at component %d' % top._vid
                top = top.parent
                n += 1
                if n > 20:
                    return 'cycle'
            if c.root is not top:
                return 'root attribute of %d is not the top of its tree' % c._vid
        return None


class C01(Prop):
    id = 'C01'
    props_file = 'Props/C01.v'
    imports = ['Model.Handlers', 'Model.HandlersObs', 'Model.ClassHandlers', 'Model.ClassHandlersObs']
    quick_n = 500
    thorough_n = 6000
    rule = ('random forests over a pool of 5 BaseComponents (channels *, a, b), 8 handler declarations (named / catch-all / global, '
            'channel override None / * / a / b / component instance, priorities) and histories of 6-40 operations '
            '(addHandler, removeHandler[event], register, unregister run to completion, fire on string / * / instance channels, '
            'flush); compared per fired event: the multiset of handlers invoked. non-trivial = history contains a structural '
            'operation (register/detach/add/remove) between two dispatches of the same (name, channel) key on the same root')
    trusted_base = ['hand-written model Model/Handlers.v (forest abstracted to the partition by root attribute) tied to /repo by this correspondence run',
                    'forest consistency of the real object graph is checked by the oracle after every operation (property C07 proves it)']
    assumptions = ['single-channel fires (the property says "a channel"); handlers only log; equal-priority invocation order is not compared (sets)']

    def generate(self, rng, n, tier):
        cases = []
        for i in range(n):
            cases.append(self.gen_classes(rng) if i % 4 == 3 else self.gen_one(rng))
        return cases

    def gen_classes(self, rng):
        root = rng.choice(['BaseComponent', 'Component'])
        ncls = rng.randint(1, 5)
        classes, fid = [], 0
        for ci in range(ncls):
            if ci == 0:
                bases = []
            elif ci >= 2 and rng.random() < 0.15 and ci - 1 != 0:
                bases = [ci - 1, rng.randrange(0, ci - 1)] if rng.random() < 0.5 else [ci - 1]
            else:
                bases = [ci - 1]
            # a mixin base must not be an ancestor of the other base (would make the MRO inconsistent)
            if len(bases) == 2:
                bases = [ci - 1]
            defs = []
            for attr in rng.sample(ATTRS, rng.randint(0, 3)):
                kind = rng.choice(['explicit', 'explicit', 'implicit', 'nonhandler'])
                d = {'attr': attr, 'fid': fid, 'kind': kind, 'names': [], 'override': False}
                if kind == 'explicit':
                    d['names'] = rng.sample(NAMES, rng.choice([1, 1, 2]))
                    d['override'] = rng.random() < 0.35
                defs.append(d)
                fid += 1
            classes.append({'bases': bases, 'defs': defs})
        return {'k': 'cls', 'root': root, 'classes': classes}

    def gen_one(self, rng):
        comps = [rng.choice(CHANS) for _ in range(NCOMP)]
        handlers = []
        for hid in range(8):
            kind = rng.random()
            if kind < 0.6:
                names = rng.sample(NAMES, rng.choice([1, 1, 1, 2, 3, 4]))
            else:
                names = []
            chs = [None, None, '*', 'a', 'b', {'comp': rng.randrange(NCOMP)}]
            handlers.append({'hid': hid, 'owner': rng.randrange(NCOMP), 'names': names, 'chan': rng.choice(chs),
                             'prio': rng.choice([0, 0, 1, -1, 5])})
        # shadow state to generate API-valid histories
        parent = {i: i for i in range(NCOMP)}
        regd = {i: set() for i in range(NCOMP)}      # (key, hid)

        def root(i):
            while parent[i] != i:
                i = parent[i]
            return i

        def sub(i):
            out = [i]
            for j in range(NCOMP):
                if j != i and parent[j] == i:
                    out.extend(sub(j))
            return out

        def keys(h, ev):
            if ev is not None:
                return [('n', ev)]
            if not h['names']:
                return [('g',)] if h['chan'] == '*' else [('a',)]
            return [('n', x) for x in h['names']]
        ops = []
        eid = 0
        recent = []
        for _ in range(rng.randint(6, 40)):
            r = rng.random()
            if r < 0.22:
                h = rng.choice(handlers)
                ops.append({'op': 'add', 'c': h['owner'], 'h': h['hid']})
                for k in keys(h, None):
                    regd[h['owner']].add((k, h['hid']))
            elif r < 0.34:
                h = rng.choice(handlers)
                ev = rng.choice(h['names']) if h['names'] and rng.random() < 0.3 else None
                ks = keys(h, ev)
                valid = all((k, h['hid']) in regd[h['owner']] or k == ('g',) for k in ks)
                if not valid and rng.random() < 0.9:
                    continue
                ops.append({'op': 'remove', 'c': h['owner'], 'h': h['hid'], 'ev': ev})
                if not valid:
                    break       # KeyError ends the history (model status 1)
                for k in ks:
                    regd[h['owner']].discard((k, h['hid']))
            elif r < 0.40:
                # staleness probe: a key is dispatched (and cached), then ONE structural change that affects it, then the
                # same key again with nothing else in between (any other change would refresh the cache and hide a miss)
                pool = [h for h in handlers if not h['names']] if rng.random() < 0.5 else handlers
                h = rng.choice(pool or handlers)
                c = h['owner']
                r0 = root(c)
                have = all((k, h['hid']) in regd[c] for k in keys(h, None))
                nm = rng.choice(h['names']) if h['names'] else rng.choice(NAMES)
                ch = rng.choice(['*', comps[c], {'comp': c}] + ([h['chan']] if h['chan'] not in (None,) else []))
                first, second = ('add', 'remove') if rng.random() < 0.5 else ('remove', 'add')
                if first == 'remove' and not have:
                    ops.append({'op': 'add', 'c': c, 'h': h['hid']})
                    for k in keys(h, None):
                        regd[c].add((k, h['hid']))
                if first == 'add' and have:
                    first = 'remove'
                ops.append({'op': 'fire', 'x': r0, 'e': eid, 'n': nm, 'ch': ch})
                eid += 1
                ops.append({'op': 'flush', 'r': r0})
                if first == 'add':
                    ops.append({'op': 'add', 'c': c, 'h': h['hid']})
                    for k in keys(h, None):
                        regd[c].add((k, h['hid']))
                else:
                    ops.append({'op': 'remove', 'c': c, 'h': h['hid'], 'ev': None})
                    for k in keys(h, None):
                        regd[c].discard((k, h['hid']))
                ops.append({'op': 'fire', 'x': r0, 'e': eid, 'n': nm, 'ch': ch})
                eid += 1
                ops.append({'op': 'flush', 'r': r0})
            elif r < 0.48:
                roots = [i for i in range(NCOMP) if parent[i] == i]
                c = rng.choice(roots)
                ps = [p for p in range(NCOMP) if root(p) != c]
                if not ps:
                    continue
                p = rng.choice(ps)
                ops.append({'op': 'register', 'c': c, 'p': p})
                parent[c] = p
            elif r < 0.58:
                att = [i for i in range(NCOMP) if parent[i] != i]
                if not att:
                    continue
                c = rng.choice(att)
                r0 = root(c)
                key = None
                if rng.random() < 0.6:
                    # an event still queued when the unregistration runs: it is dispatched (and cached) while c
                    # is still in the tree; the same key is fired again after c has left
                    nm = rng.choice(NAMES)
                    ch = rng.choice(['*', 'a', 'b', {'comp': c}])
                    key = (nm, ch)
                    ops.append({'op': 'fire', 'x': r0, 'e': eid, 'n': nm, 'ch': ch})
                    eid += 1
                ops.append({'op': 'detach', 'c': c, 'sub': sub(c)})
                parent[c] = c
                if key:
                    for x in (r0, c):
                        ops.append({'op': 'fire', 'x': x, 'e': eid, 'n': key[0], 'ch': key[1]})
                        eid += 1
                        ops.append({'op': 'flush', 'r': x})
            elif r < 0.65:
                # a handler changes the handler set in the MIDDLE of a flush batch, between two events of the same key
                h = rng.choice([h for h in handlers if not h['names']] or handlers) if rng.random() < 0.4 else rng.choice(handlers)
                c = h['owner']
                r0 = root(c)
                have = all((k, h['hid']) in regd[c] for k in keys(h, None))
                nm = rng.choice(h['names']) if h['names'] else rng.choice(NAMES)
                ch = rng.choice(['*', comps[c], {'comp': c}] + ([h['chan']] if h['chan'] is not None else []))
                if rng.random() < 0.5:
                    # make sure the key is cached by an earlier batch
                    ops.append({'op': 'fire', 'x': r0, 'e': eid, 'n': nm, 'ch': ch})
                    eid += 1
                    ops.append({'op': 'flush', 'r': r0})
                items = [{'op': 'fire', 'x': r0, 'e': eid, 'n': nm, 'ch': ch}]
                eid += 1
                if have:
                    items.append({'op': 'remove', 'c': c, 'h': h['hid'], 'ev': None})
                    for k in keys(h, None):
                        regd[c].discard((k, h['hid']))
                else:
                    items.append({'op': 'add', 'c': c, 'h': h['hid']})
                    for k in keys(h, None):
                        regd[c].add((k, h['hid']))
                items.append({'op': 'fire', 'x': r0, 'e': eid, 'n': nm, 'ch': ch})
                eid += 1
                ops.append({'op': 'inflush', 'r': r0, 'items': items})
            elif r < 0.86:
                if recent and rng.random() < 0.6:
                    x, nm, ch = rng.choice(recent)       # same cache key again, after whatever happened in between
                else:
                    x = rng.randrange(NCOMP)
                    ch = rng.choice(['*', 'a', 'b', 'a', 'b', {'comp': rng.randrange(NCOMP)}])
                    nm = rng.choice(NAMES)
                    recent.append((x, nm, ch))
                ops.append({'op': 'fire', 'x': x, 'e': eid, 'n': nm, 'ch': ch})
                eid += 1
                if rng.random() < 0.25:
                    # the same Event OBJECT fired again (mostly on another channel), before or after its first firing
                    # is dispatched: every firing is delivered to the handlers of the channel IT was fired on
                    if rng.random() < 0.4:
                        ops.append({'op': 'flush', 'r': root(x)})
                    x2 = x if rng.random() < 0.7 else rng.randrange(NCOMP)
                    ch2 = rng.choice([c for c in ['*', 'a', 'b', {'comp': rng.randrange(NCOMP)}] if c != ch] or [ch])
                    ops.append({'op': 'fire', 'x': x2, 'e': eid, 'n': nm, 'ch': ch2, 'same': eid - 1})
                    eid += 1
                if rng.random() < 0.5:
                    ops.append({'op': 'flush', 'r': root(x)})
            else:
                roots = [i for i in range(NCOMP) if parent[i] == i]
                ops.append({'op': 'flush', 'r': rng.choice(roots)})
        for i in range(NCOMP):
            if parent[i] == i:
                ops.append({'op': 'flush', 'r': i})
        return {'comps': comps, 'handlers': handlers, 'ops': ops}

    # ---- implementation driver
    def impl(self, case):
        if case.get('k') == 'cls':
            log = []
            classes = build_classes(case, log)
            inst = classes[-1]()
            out = []
            for n in NAMES:
                del log[:]
                inst.fire(EVCLS[n](0))
                for _ in range(4):
                    inst.flush()
                out.append(sorted(log))
            return {'per_event': out}
        w = World(case)
        hs = {h['hid']: h for h in case['handlers']}
        fired = {}
        evobj = {}
        status = 0
        graph_err = None
        snap = {}          # eid -> expected set computed from the live real graph at dispatch? (oracle uses its own shadow)
        for o in case['ops']:
            k = o['op']
            if k == 'add':
                c = w.comps[o['c']]
                w.methods[(o['c'], o['h'])] = c.addHandler(w.funcs[o['h']])
            elif k == 'remove':
                c = w.comps[o['c']]
                m = w.methods.get((o['c'], o['h']))
                if m is None:
                    import types
                    m = types.MethodType(w.funcs[o['h']], c)
                try:
                    if o['ev'] is None:
                        c.removeHandler(m)
                    else:
                        c.removeHandler(m, o['ev'])
                except KeyError:
                    status = 1
                    break
            elif k == 'register':
                w.comps[o['c']].register(w.comps[o['p']])
            elif k == 'detach':
                c = w.comps[o['c']]
                r = c.root
                c.unregister()
                for _ in range(50):
                    if c.parent is c and not c.unregister_pending:
                        break
                    r.flush()
                else:
                    raise RuntimeError('unregister never completed')
            elif k == 'fire':
                if 'same' in o:
                    ev = evobj[o['same']]               # the object of an earlier firing (its args carry that id)
                else:
                    ev = EVCLS[o['n']](o['e'])
                evobj[o['e']] = ev
                w.comps[o['x']].fire(ev, w.real_chan(o['ch']))
                fired[o['e']] = o
            elif k == 'flush':
                w.comps[o['r']].flush()
            elif k == 'inflush':
                # one batch: the events in order, the operations carried by trigger events between them
                r = w.comps[o['r']]
                for it in o['items']:
                    if it['op'] == 'fire':
                        ev = EVCLS[it['n']](it['e'])
                        evobj[it['e']] = ev
                        w.comps[it['x']].fire(ev, w.real_chan(it['ch']))
                        fired[it['e']] = it
                    else:
                        r.fire(vtrig(it), r)
                r.flush()
            graph_err = graph_err or w.check_graph()
        per = {}
        order = []
        for (e, hid) in w.log:
            if e not in per:
                per[e] = []
                order.append(e)
            per[e].append(hid)
        return {'deliveries': [[e, sorted(per[e])] for e in sorted(order)], 'status': status, 'graph': graph_err}

    # ---- model
    def model_term(self, case):
        if case.get('k') == 'cls':
            classes = build_classes(case, [])
            return 'obs_classes %s [0;1;2;3]%%nat' % class_mro_term(case, classes)
        hs = {h['hid']: h for h in case['handlers']}
        cs = '[%s]' % '; '.join('(%s, %s)' % (natlit(i), chan_term(ch)) for i, ch in enumerate(case['comps']))
        ops = []
        for o in self.expanded(case):
            k = o['op']
            if k == 'add':
                ops.append('OAdd %s %s' % (natlit(o['c']), hdecl_term(hs[o['h']])))
            elif k == 'remove':
                ev = 'None' if o['ev'] is None else '(Some %s)' % natlit(NAMES.index(o['ev']))
                ops.append('ORemove %s %s %s' % (natlit(o['c']), hdecl_term(hs[o['h']]), ev))
            elif k == 'register':
                ops.append('ORegister %s %s' % (natlit(o['c']), natlit(o['p'])))
            elif k == 'detach':
                ops.append('ODetach %s [%s]%%nat' % (natlit(o['c']), ';'.join(str(x) for x in o['sub'])))
            elif k == 'fire':
                ops.append('OFire %s %s %s %s' % (natlit(o['x']), natlit(o['e']), natlit(NAMES.index(o['n'])), chan_term(o['ch'])))
            elif k == 'flush':
                ops.append('OFlush %s' % natlit(o['r']))
        al = self.aliases(case)
        if al:
            return 'obs_nonempty_alias %s [%s] [%s]%%nat' % (cs, '; '.join(ops), '; '.join('(%d, %d)' % (e, a) for e, a in sorted(al.items())))
        return 'obs_nonempty %s [%s]' % (cs, '; '.join(ops))

    @staticmethod
    def expanded(case):
        """the history with every in-flush group written out: an operation performed by a handler in the middle of a
        batch acts exactly like flush(events before it); operation; flush(events after it) - deliveries depend only on
        the handler set in force when each event is dispatched"""
        out = []
        for o in case['ops']:
            if o['op'] != 'inflush':
                out.append(o)
                continue
            for it in o['items']:
                out.append(it)
                if it['op'] == 'fire':
                    out.append({'op': 'flush', 'r': o['r']})
        return out

    @staticmethod
    def aliases(case):
        """firing id -> id of the first firing of the same Event object (only for re-fired objects)"""
        al = {}
        for o in C01.expanded(case):
            if o['op'] == 'fire' and 'same' in o:
                al[o['e']] = al.get(o['same'], o['same'])
        return al

    def obs_for_model(self, case, obs):
        if isinstance(obs, dict) and '__crash__' in obs:
            return [-999]
        if case.get('k') == 'cls':
            return obs['per_event']
        return [[[e, hs] for e, hs in obs['deliveries']], obs['status']]

    # ---- oracle: independent shadow computation of "the matching handlers in the live tree at dispatch time"
    def oracle(self, case, obs):
        if isinstance(obs, dict) and '__crash__' in obs:
            return None
        if case.get('k') == 'cls':
            return self.oracle_classes(case, obs)
        if obs['graph']:
            return 'component graph inconsistent: ' + obs['graph']
        hs = {h['hid']: h for h in case['handlers']}
        comps = case['comps']
        parent = {i: i for i in range(NCOMP)}
        regd = {i: set() for i in range(NCOMP)}      # (hid, name or '*all*')
        queues = {i: [] for i in range(NCOMP)}
        expected = {}

        def root(i):
            while parent[i] != i:
                i = parent[i]
            return i

        def match(i, h, name, ch):
            hc = h['chan'] if h['chan'] is not None else comps[i]
            if not h['names'] and h['chan'] == '*':
                return True                                   # global: all events, all channels
            return ch == '*' or hc == '*' or hc == ch or ch == {'comp': i}

        def dispatch(r):
            q, queues[r] = queues[r], []
            for (e, name, ch) in q:
                exp = []
                for i in range(NCOMP):
                    if root(i) != r:
                        continue
                    for (hid, nm) in regd[i]:
                        if nm in ('*all*', name) and match(i, hs[hid], name, ch) and hid not in exp:
                            exp.append(hid)
                expected[e] = sorted(exp)
        for o in self.expanded(case):
            k = o['op']
            if k == 'add':
                h = hs[o['h']]
                for nm in (h['names'] or ['*all*']):
                    regd[o['c']].add((o['h'], nm))
            elif k == 'remove':
                h = hs[o['h']]
                nms = [o['ev']] if o['ev'] is not None else (h['names'] or ['*all*'])
                if not all((o['h'], nm) in regd[o['c']] for nm in nms) and not (not h['names'] and h['chan'] == '*' and o['ev'] is None):
                    break
                for nm in nms:
                    regd[o['c']].discard((o['h'], nm))
            elif k == 'register':
                queues[root(o['p'])].extend(queues[o['c']])
                queues[o['c']] = []
                parent[o['c']] = o['p']
            elif k == 'detach':
                dispatch(root(o['c']))
                parent[o['c']] = o['c']
            elif k == 'fire':
                queues[root(o['x'])].append((o['e'], o['n'], o['ch']))
            elif k == 'flush':
                dispatch(o['r'])
        got = {e: h for e, h in obs['deliveries']}
        al = self.aliases(case)
        if al:
            # per Event object: the handlers of all its firings together (a multiset); duplicates within ONE firing
            # show up as a count that is too high
            merged = {}
            for e, exp in expected.items():
                merged.setdefault(al.get(e, e), []).extend(exp)
            multi = set(al.values())
            for e in multi:
                g, exp = got.get(e, []), sorted(merged.pop(e, []))
                if g != exp:
                    return ('event object %d (fired %d times, each firing on its own channel) was delivered to handlers %r, '
                            'the handlers matching its firings are %r' % (e, 1 + sum(1 for v in al.values() if v == e), g, exp))
            expected = merged
        for e, exp in expected.items():
            g = got.get(e, [])
            if len(g) != len(set(g)):
                return 'event %d: a handler was invoked more than once: %r' % (e, g)
            if g != exp:
                return 'event %d delivered to handlers %r, matching live handlers are %r' % (e, g, exp)
        for e in got:
            if e not in expected and e not in set(al.values()):
                return 'event %d was delivered although never dispatched in the history' % e
        return None

    def oracle_classes(self, case, obs):
        """documented semantics of @handler / override / Component, computed from the description alone:
        walk the linearised ancestry of the most derived class; a handler definition is in force unless a more
        derived class redefines the attribute as a handler with override=True"""
        cl = case['classes']
        # linearisation: single inheritance chains only (the generator produces chains)
        order, i = [], len(cl) - 1
        while True:
            order.append(i)
            if not cl[i]['bases']:
                break
            i = cl[i]['bases'][0]
        implicit_ok = case['root'] == 'Component'
        exp = {n: [] for n in NAMES}
        overridden = set()
        for ci in order:
            for d in cl[ci]['defs']:
                if d['kind'] == 'explicit':
                    names, ov = d['names'], d['override']
                elif d['kind'] == 'implicit' and implicit_ok and not d['attr'].startswith('_'):
                    names, ov = [d['attr']], False
                else:
                    continue
                if d['attr'] not in overridden:
                    for n in names:
                        if n in exp:
                            exp[n].append(d['fid'])
            for d in cl[ci]['defs']:
                if d['kind'] == 'explicit' and d['override']:
                    overridden.add(d['attr'])
        want = [sorted(exp[n]) for n in NAMES]
        if obs['per_event'] != want:
            return 'class hierarchy: handlers invoked per event %r, handlers in force by the documented rule %r' % (obs['per_event'], want)
        return None

    def nontrivial(self, case, obs):
        if case.get('k') == 'cls':
            return len(case['classes']) >= 3

        ops = [o['op'] for o in case['ops']]
        return any(k in ops for k in ('register', 'detach')) and ops.count('fire') >= 2


if __name__ == '__main__':
    sys.exit(common.main(C01()))
