"""Shared machinery of the /verif checks (see DESIGN.md §3).

One check = proofs (Coq theorems about the model, re-checked by coqc) +
correspondence (model vs. the current /repo implementation on the same cases,
compared inside Coq by vm_compute) + implementation-side oracle (the property's
predicate evaluated on the real code) -> verdict, evidence file, replay.
"""
import concurrent.futures as cf
import fcntl
import hashlib
import json
import os
import random
import re
import subprocess
import sys
import time
import traceback

VERIF = os.path.dirname(os.path.dirname(os.path.abspath(__file__)))
COQ = os.path.join(VERIF, 'coq')
BUILD = os.path.join(VERIF, 'build')
REPO = os.environ.get('VERIF_REPO', '/repo')
SHARD = 300

ALLOWED_AXIOMS = {
    # standard-library axioms that may be pulled in by library tactics; each is
    # reported per theorem in the evidence file when it occurs.
    'functional_extensionality_dep', 'FunctionalExtensionality.functional_extensionality_dep',
    'Eqdep.Eq_rect_eq.eq_rect_eq', 'eq_rect_eq', 'JMeq_eq', 'JMeq.JMeq_eq',
    'proof_irrelevance', 'ProofIrrelevance.proof_irrelevance', 'classic', 'Classical_Prop.classic',
}
FORBIDDEN = re.compile(
    r'\b(Admitted|admit|Axiom|Axioms|Parameter|Parameters|Conjecture|Conjectures|Abort All)\b'
    r'|Admit Obligations|Unset Guard Checking|Unset Positivity Checking|Unset Universe Checking'
    r'|bypass_check|-type-in-type|-impredicative-set|native_compute')


def log(*a):
    print(*a, flush=True)


# ----------------------------------------------------------------------------- Coq side

def coq_literal(o):
    """python value -> Coq term of type Obs.T"""
    if o is None:
        return 'Tl []'
    if o is True:
        return 'Tn 1'
    if o is False:
        return 'Tn 0'
    if isinstance(o, int):
        return 'Tn (%d)' % o
    if isinstance(o, (bytes, bytearray)):
        return 'Tb [%s]%%N' % ';'.join(str(b) for b in o)
    if isinstance(o, str):
        return 'Tb [%s]%%N' % ';'.join(str(ord(c)) for c in o)
    if isinstance(o, (list, tuple)):
        return 'Tl [%s]' % '; '.join(coq_literal(x) for x in o)
    raise TypeError('cannot encode %r' % (o,))


def nlist(b):
    """bytes / str / list of ints -> Coq (list N) literal"""
    if isinstance(b, str):
        b = [ord(c) for c in b]
    return '[%s]%%N' % ';'.join(str(int(x)) for x in b)


def nlistlist(l):
    return '[%s]' % '; '.join(nlist(x) for x in l)


def natlit(n):
    return '%d%%nat' % n


def _run(cmd, cwd=None, timeout=600, env=None):
    try:
        p = subprocess.run(cmd, cwd=cwd, timeout=timeout, env=env, stdout=subprocess.PIPE,
                           stderr=subprocess.STDOUT, text=True, errors='replace')
        return p.returncode, p.stdout
    except subprocess.TimeoutExpired as e:
        return 124, 'TIMEOUT after %ss\n%s' % (timeout, (e.stdout or b'').decode('utf8', 'replace') if isinstance(e.stdout, bytes) else (e.stdout or ''))


def source_gate(only_integrated=False, files=None):
    """grep gate over the development (DESIGN §5): the given theories-relative files, or every .v file"""
    bad = []
    paths = []
    if files is not None:
        paths = [os.path.join(COQ, 'theories', f) for f in files]
    else:
        for root, _, fs in os.walk(os.path.join(COQ, 'theories')):
            paths += [os.path.join(root, f) for f in fs if f.endswith('.v')]
        if only_integrated:
            ids = open(os.path.join(VERIF, 'harness', 'integrated.txt')).read().split()
            seeds = ['Props/%s.v' % i for i in ids]
            # Obs encoders are reached through the harness imports, not through Props: include every Model file
            # imported by an integrated check is done by the caller of coq_build; here: closure of Props + all Model/*Obs.v
            paths = [os.path.join(COQ, 'theories', f) for f in _closure(seeds)]
    for p in paths:
        if not os.path.exists(p):
            continue
        txt = open(p).read()
        txt_nc = re.sub(r'\(\*.*?\*\)', '', txt, flags=re.S)
        for m in FORBIDDEN.finditer(txt_nc):
            bad.append('%s: %s' % (os.path.relpath(p, COQ), m.group(0)))
    return bad


def _closure(rel_files):
    """transitive `From Circ Require` closure of the given theories-relative .v files"""
    seen, todo = [], list(rel_files)
    while todo:
        f = todo.pop()
        if f in seen:
            continue
        p = os.path.join(COQ, 'theories', f)
        if not os.path.exists(p):
            continue
        seen.append(f)
        txt = re.sub(r'\(\*.*?\*\)', '', open(p).read(), flags=re.S)
        for m in re.finditer(r'From\s+Circ\s+Require\s+(?:Import\s+|Export\s+)?(.*?)\.(?=\s)', txt, flags=re.S):
            for mod in m.group(1).split():
                todo.append(mod.replace('.', '/') + '.v')
        for m in re.finditer(r'(?<!Circ\s)Require\s+(?:Import\s+|Export\s+)?(.*?)\.(?=\s)', txt, flags=re.S):
            for mod in m.group(1).split():
                if mod.startswith('Circ.'):
                    todo.append(mod[len('Circ.'):].replace('.', '/') + '.v')
    return sorted(seen)


def coq_build(targets=None, timeout=1500, tag='all'):
    """(re)build the development (or the closure of the given theories-relative .v files) under a lock.
    Returns (ok, log).  Each property builds through its own Makefile so that a broken file that it does not
    depend on cannot break its build."""
    os.makedirs(BUILD, exist_ok=True)
    with open(os.path.join(BUILD, '.lock'), 'w') as lk:
        fcntl.flock(lk, fcntl.LOCK_EX)
        try:
            import gen_consts
            ok, msg = gen_consts.regenerate()
            if not ok:
                return False, 'translator-broken: ' + msg
        except ImportError:
            pass
        if targets:
            vs = ['theories/' + f for f in _closure(targets)]
        else:
            vs = sorted(os.path.relpath(os.path.join(r, f), COQ)
                        for r, _, fs in os.walk(os.path.join(COQ, 'theories')) for f in fs if f.endswith('.v'))
        mk = 'Makefile.' + tag
        stamp = os.path.join(COQ, '.vfiles.' + tag)
        cur = '\n'.join(vs)
        if not os.path.exists(os.path.join(COQ, mk)) or not os.path.exists(stamp) or open(stamp).read() != cur:
            rc, out = _run(['coq_makefile', '-f', '_CoqProject', '-o', mk] + vs, cwd=COQ)
            if rc != 0:
                return False, out
            open(stamp, 'w').write(cur)
        rc, out = _run(['make', '-f', mk, '-j16'], cwd=COQ, timeout=timeout)
        return rc == 0, out


def check_props(props_rel):
    """Re-run coqc on the Props file: returns (ok, [(theorem, assumptions)], raw)."""
    path = os.path.join(COQ, 'theories', props_rel)
    src = open(path).read()
    src_nc = re.sub(r'\(\*.*?\*\)', '', src, flags=re.S)
    names = re.findall(r'^\s*(?:Theorem|Corollary)\s+(\w+)', src_nc, flags=re.M)
    printed = re.findall(r'Print Assumptions\s+(\w+)\s*\.', src_nc)
    # each theorem must be closed by `exact` and followed by Print Assumptions
    problems = []
    for n in names:
        if n not in printed:
            problems.append('theorem %s has no Print Assumptions' % n)
    rc, out = _run(['coqc', '-q', '-Q', 'theories', 'Circ', '-w', '-notation-overridden',
                    os.path.join('theories', props_rel)], cwd=COQ, timeout=900)
    if rc != 0:
        return False, [], out
    blocks = re.split(r'(?=Closed under the global context|Axioms:)', out)
    blocks = [b for b in blocks if b.startswith('Closed under') or b.startswith('Axioms:')]
    res = []
    ok = not problems
    for i, n in enumerate(printed):
        if i >= len(blocks):
            ok = False
            res.append((n, ['<no output>']))
            continue
        b = blocks[i]
        if b.startswith('Closed'):
            res.append((n, []))
        else:
            ax = re.findall(r'^([\w.\']+)\s*:', b[len('Axioms:'):], flags=re.M)
            res.append((n, ax))
            for a in ax:
                if a not in ALLOWED_AXIOMS and a.split('.')[-1] not in ALLOWED_AXIOMS:
                    ok = False
                    problems.append('theorem %s depends on non-allowed axiom %s' % (n, a))
    return ok, res, out + '\n'.join(problems)


def _coq_file(pid, name, text):
    # one scratch directory per process: concurrent runs of the same check must not clobber each other's cases files
    d = os.path.join(BUILD, pid, 'run_%d' % os.getpid())
    os.makedirs(d, exist_ok=True)
    p = os.path.join(d, name)
    with open(p, 'w') as f:
        f.write(text)
    return p


def _coqc_tmp(pid, name, text, timeout=600):
    p = _coq_file(pid, name, text)
    pre = 'ulimit -s unlimited 2>/dev/null; '
    rc, out = _run(['bash', '-c', pre + 'exec coqc -q -Q %s Circ -w -notation-overridden %s' % (
        os.path.join(COQ, 'theories'), p)], cwd=os.path.dirname(p), timeout=timeout)
    for ext in ('.vo', '.vok', '.vos', '.glob'):
        q = p[:-2] + ext
        if os.path.exists(q):
            os.remove(q)
    aux = os.path.join(os.path.dirname(p), '.' + name[:-2] + '.aux')
    if os.path.exists(aux):
        os.remove(aux)
    return rc, out


HEADER = ('From Coq Require Import List ZArith NArith Bool String.\n'
          'From Circ Require Import Lib.Obs %s.\nImport ListNotations.\nOpen Scope Z_scope.\n')


def coq_mismatches(pid, imports, pairs, shard=SHARD):
    """pairs: list of (model_term, obs_literal).  Returns (list of mismatching indices, errors)."""
    shards = [(k, pairs[k:k + shard]) for k in range(0, len(pairs), shard)]

    def one(arg):
        k, ps = arg
        body = HEADER % ' '.join(imports)
        body += 'Definition cases : list (T * T) := [\n'
        body += ';\n'.join('  (%s, %s)' % (m, o) for m, o in ps)
        body += '\n].\nEval vm_compute in (mismatches 0 cases).\n'
        rc, out = _coqc_tmp(pid, 'cases_%d.v' % k, body)
        if rc != 0:
            return k, None, out
        m = re.search(r'=\s*\[(.*?)\]\s*:\s*list nat', out, flags=re.S)
        if not m:
            return k, None, out
        idx = [int(x) for x in re.findall(r'\d+', m.group(1))]
        return k, [k + i for i in idx], ''

    bad, errs = [], []
    with cf.ThreadPoolExecutor(max_workers=8) as ex:
        for k, idx, err in ex.map(one, shards):
            if idx is None:
                errs.append('shard %d: %s' % (k, err[-2000:]))
            else:
                bad.extend(idx)
    return sorted(bad), errs


def coq_eval(pid, imports, term):
    body = HEADER % ' '.join(imports) + 'Eval vm_compute in (%s).\n' % term
    rc, out = _coqc_tmp(pid, 'eval_one.v', body)
    return ' '.join(out.split())[:4000]


# ----------------------------------------------------------------------------- findings

def load_findings(pid):
    """open/fixed findings of a property: known_findings.json plus per-property fragments findings.d/<pid>.json
    (fragments are merged into known_findings.json by harness/merge_findings.py when a property is integrated)"""
    out, seen = [], set()
    paths = [os.path.join(VERIF, 'known_findings.json'), os.path.join(VERIF, 'findings.d', pid + '.json')]
    for p in paths:
        if not os.path.exists(p):
            continue
        data = json.load(open(p))
        for f in data.get('findings', []):
            if f.get('property') == pid and f['id'] not in seen:
                seen.add(f['id'])
                out.append(f)
    return out


# ----------------------------------------------------------------------------- framework

class Prop:
    """Base class of one property's check.  Subclasses fill in the hooks."""
    id = 'C00'
    props_file = None        # e.g. 'Props/C18.v'
    imports = []             # Coq modules for the cases file
    quick_n = 400
    thorough_n = 4000
    trusted_base = []
    assumptions = []
    rule = ''

    # -- hooks
    def generate(self, rng, n, tier):
        """-> list of JSON-able cases"""
        raise NotImplementedError

    def impl(self, case):
        """run the real code on the case -> JSON-able canonical observable"""
        raise NotImplementedError

    def model_term(self, case):
        """-> Coq term (type Obs.T) computing the model's observable; None = case not modelled"""
        return None

    def obs_for_model(self, case, obs):
        """part of the implementation observable that the model predicts"""
        return obs

    def oracle(self, case, obs):
        """property predicate on the implementation trace -> None or str(what fails)"""
        return None

    def finding_class(self, case, obs, what):
        """-> id of the open known finding whose class covers this failing case, or None"""
        return None

    def nontrivial(self, case, obs):
        return True

    def search(self, rng, tier):
        """directed search used when a proof / the correspondence is broken -> iterable of cases"""
        return self.generate(rng, self.thorough_n, 'thorough')

    def extra_checks(self, tier, rng, ev):
        """optional additional machinery (exhaustive sweeps, ...) -> list of (case, obs, what) violations"""
        return []

    # -- helpers
    def corpus(self):
        d = os.path.join(VERIF, 'corpus', self.id)
        out = []
        if os.path.isdir(d):
            for f in sorted(os.listdir(d)):
                if f.endswith('.json'):
                    c = json.load(open(os.path.join(d, f)))
                    out.extend(c if isinstance(c, list) else [c])
        return out

    def safe_impl(self, case):
        try:
            return self.impl(case)
        except BaseException as e:  # the implementation crashed: that is an observable
            if isinstance(e, KeyboardInterrupt):
                raise
            return {'__crash__': type(e).__name__, 'msg': str(e)[:200],
                    'tb': traceback.format_exc()[-600:]}



# ---- the Manager's set of pending generator tasks, found by behaviour rather than by its private name -------------
_TASK_ATTR = {}


def task_attr(m):
    """name of the attribute of Manager `m` that holds the set of pending tasks (`_tasks` in the pinned source): the
    set-valued attribute that gains the triple handed to registerTask(). Falls back to '_tasks'."""
    key = type(m).__mro__[-2] if len(type(m).__mro__) > 1 else type(m)
    if key in _TASK_ATTR:
        return _TASK_ATTR[key]
    name = '_tasks'
    try:
        probe = (object(), object(), None)
        m.registerTask(probe)
        hits = [k for k, v in vars(m).items() if isinstance(v, (set, frozenset)) and probe in v]
        m.unregisterTask(probe)
        if len(hits) == 1:
            name = hits[0]
    except Exception:       # noqa: BLE001
        pass
    _TASK_ATTR[key] = name
    return name


def get_tasks(m, default=()):
    return getattr(m, task_attr(m), default)


def set_tasks(m, tasks):
    """install a double for the task set (same interface as set); returns False when the manager has no such set"""
    name = task_attr(m)
    if not hasattr(m, name):
        return False
    setattr(m, name, tasks)
    return True

def write_replay(pid, kind, payload):
    d = os.path.join(VERIF, 'replays', pid)
    os.makedirs(d, exist_ok=True)
    h = hashlib.sha1(json.dumps(payload, sort_keys=True, default=str).encode()).hexdigest()[:10]
    p = os.path.join(d, '%s_%s.json' % (kind, h))
    payload = dict(payload, property=pid, kind=kind)
    with open(p, 'w') as f:
        json.dump(payload, f, indent=1, default=str)
    return os.path.relpath(p, VERIF)


def write_evidence(prop, tier, seed, cov, wall, violations, assumptions):
    if os.environ.get('VERIF_NO_EVIDENCE'):   # runs against a scratch copy of /repo (seeded changes) leave the evidence alone
        return
    os.makedirs(os.path.join(VERIF, 'evidence'), exist_ok=True)
    ev = {'property_id': prop.id, 'tier': tier, 'seed': seed, 'level': 'proof', 'coverage': cov,
          'assumptions': assumptions, 'wall_s': round(wall, 2), 'violations': violations}
    with open(os.path.join(VERIF, 'evidence', prop.id + '.json'), 'w') as f:
        json.dump(ev, f, indent=1, default=str)


def canon(o):
    return json.dumps(o, sort_keys=True, default=str)


def run_cases(prop, cases):
    """impl + oracle on every case -> list of (case, obs, what|None)"""
    out = []
    for c in cases:
        obs = prop.safe_impl(c)
        what = None
        try:
            what = prop.oracle(c, obs)
        except Exception as e:
            what = 'oracle-error %s: %s' % (type(e).__name__, e)
        if what is None and isinstance(obs, dict) and '__crash__' in obs:
            what = 'implementation raised %s: %s' % (obs['__crash__'], obs.get('msg'))
        out.append((c, obs, what))
    return out


def correspondence(prop, results):
    """compare model and implementation inside Coq -> (n_compared, [index], errors)"""
    pairs, index = [], []
    for i, (c, obs, _) in enumerate(results):
        mt = prop.model_term(c)
        if mt is None:
            continue
        if isinstance(obs, dict) and '__crash__' in obs:
            o = prop.obs_for_model(c, obs)
            lit = coq_literal(o) if not isinstance(o, dict) else 'Tl [Tn (-999)]'
        else:
            lit = coq_literal(prop.obs_for_model(c, obs))
        pairs.append((mt, lit))
        index.append(i)
    if not pairs:
        return 0, [], []
    bad, errs = coq_mismatches(prop.id, prop.imports, pairs)
    return len(pairs), [index[b] for b in bad], errs


def main(prop, argv=None):
    """run the check; if the check's own code fails on this tree (an observation helper that no longer fits the
    code, a driver that trips over a changed signature...), the property is no longer shown to hold: report that as
    a violation without a failing input, naming what failed, instead of dying with a traceback"""
    try:
        return _main(prop, argv)
    except Exception as exc:       # noqa: BLE001 - deliberately everything but SystemExit/KeyboardInterrupt
        import traceback
        tb = traceback.format_exc()
        rp = write_replay(prop.id, 'check-could-not-run', {'broken': ['the check itself failed on this tree: %r' % (exc,)],
                                                           'traceback': tb[-4000:]})
        log('VIOLATION property=%s replay=%s no-failing-input-found' % (prop.id, rp))
        log('  broken: the check itself failed on this tree (%s: %s); see the traceback in the replay file' % (type(exc).__name__, exc))
        return 1


def _main(prop, argv=None):
    import argparse
    ap = argparse.ArgumentParser()
    ap.add_argument('--tier', default=os.environ.get('VERIF_TIER', 'quick'))
    ap.add_argument('--replay')
    ap.add_argument('--no-build', action='store_true')
    a = ap.parse_args(argv)
    tier = 'thorough' if a.tier == 'thorough' else 'quick'
    raw_seed = os.environ.get('VERIF_SEED', '0') or '0'
    try:
        seed = int(raw_seed)
    except ValueError:          # any string is a seed
        seed = int(hashlib.sha1(raw_seed.encode()).hexdigest()[:12], 16)
    rng = random.Random('%s-%d' % (prop.id, seed))
    t0 = time.time()
    pid = prop.id

    if a.replay:
        rp = json.load(open(a.replay if os.path.isabs(a.replay) else os.path.join(VERIF, a.replay)))
        case = rp.get('case')
        if case is None:
            log('replay names no concrete case (%s): %s' % (rp.get('kind'), rp.get('broken')))
            return 1
        obs = prop.safe_impl(case)
        what = prop.oracle(case, obs)
        log('case:', canon(case)[:2000])
        log('observed:', canon(obs)[:2000])
        if what is None and isinstance(obs, dict) and '__crash__' in obs:
            what = 'implementation raised %s' % obs['__crash__']
        mt = prop.model_term(case)
        if mt is not None:
            n, bad, errs = correspondence(prop, [(case, obs, what)])
            log('model agrees with implementation:', not bad and not errs)
        if what:
            log('VIOLATION property=%s replay=%s' % (pid, a.replay))
            log('what:', what)
            return 1
        log('replay passes')
        return 0

    # 1. proofs ------------------------------------------------------------------
    broken = []        # descriptions of broken proof obligations / correspondence
    gate = source_gate(files=_closure(([prop.props_file] if prop.props_file else []) + [m.replace('.', '/') + '.v' for m in prop.imports]))
    if gate:
        broken.append('source gate: ' + '; '.join(gate))
    targets = None
    if prop.props_file:
        targets = [prop.props_file] + [m.replace('.', '/') + '.v' for m in prop.imports]
    ok, blog = (True, '') if a.no_build else coq_build(targets, tag=pid)
    thms = []
    if not ok:
        broken.append('coq build failed: ' + blog[-1500:])
        model_ok = False
    else:
        model_ok = True
    if ok and prop.props_file:
        pok, thms, praw = check_props(prop.props_file)
        if not pok:
            broken.append('theorems in %s do not check: %s' % (prop.props_file, praw[-1500:]))
    obligations = len(thms) if thms else len(re.findall(
        r'^\s*Theorem\s', open(os.path.join(COQ, 'theories', prop.props_file)).read(), flags=re.M))
    discharged = len([t for t in thms]) if not [b for b in broken if 'theorems in' in b or 'build' in b] else 0

    # 2. cases: corpus first, then generated ------------------------------------------
    n = prop.thorough_n if tier == 'thorough' else prop.quick_n
    cases = prop.corpus()
    ncorpus = len(cases)
    cases += list(prop.generate(rng, n, tier))
    results = run_cases(prop, cases)
    extra = prop.extra_checks(tier, rng, results)

    # 3. correspondence ---------------------------------------------------------------
    ncmp, bad, cerrs = (0, [], [])
    if model_ok:
        ncmp, bad, cerrs = correspondence(prop, results)
        if cerrs:
            broken.append('correspondence could not be evaluated: ' + ' | '.join(cerrs)[-1500:])
    disagreements = []
    for i in bad[:5]:
        c, obs, _ = results[i]
        mv = coq_eval(pid, prop.imports, prop.model_term(c))
        disagreements.append({'case': c, 'impl': prop.obs_for_model(c, obs), 'model': mv})
    if bad:
        broken.append('correspondence: model and implementation disagree on %d of %d cases' % (len(bad), ncmp))

    # 4. oracle verdicts -----------------------------------------------------------
    findings = {f['id']: f for f in load_findings(pid) if f.get('status') == 'open'}
    known_hits, new = {}, []
    for (c, obs, what) in list(results) + list(extra):
        if not what:
            continue
        fid = prop.finding_class(c, obs, what)
        if fid is not None and fid in findings:
            known_hits.setdefault(fid, (c, what))
        else:
            new.append((c, obs, what))

    # 5. broken proof / correspondence and no direct violation: directed search --------
    searched = 0
    if broken and not new:
        srng = random.Random('%s-search-%d' % (pid, seed))
        cand = [results[i][0] for i in bad]
        for c in list(cand) + list(prop.search(srng, tier)):
            searched += 1
            obs = prop.safe_impl(c)
            what = prop.oracle(c, obs)
            if what is None and isinstance(obs, dict) and '__crash__' in obs:
                what = 'implementation raised %s: %s' % (obs['__crash__'], obs.get('msg'))
            if what:
                fid = prop.finding_class(c, obs, what)
                if fid is None or fid not in findings:
                    new.append((c, obs, what))
                    break

    # 6. report -----------------------------------------------------------------------
    rc = 0
    for fid, (c, what) in sorted(known_hits.items()):
        log('KNOWN-FINDING: property=%s %s [%s]' % (pid, findings[fid].get('text', fid), fid))
    if new:
        new.sort(key=lambda t: len(canon(t[0])))
        c, obs, what = new[0]
        rp = write_replay(pid, 'impl-violation', {'case': c, 'observed': obs, 'what': what,
                                                  'also_broken': broken})
        log('VIOLATION property=%s replay=%s' % (pid, rp))
        log('  what: %s' % what)
        rc = 1
    elif broken:
        rp = write_replay(pid, 'proof-or-correspondence-broken',
                          {'broken': broken, 'disagreements': disagreements, 'searched_cases': searched,
                           'theorems': [t for t, _ in thms]})
        log('VIOLATION property=%s replay=%s no-failing-input-found' % (pid, rp))
        for b in broken:
            log('  broken: %s' % b[:600])
        rc = 1

    distinct = {}
    for (c, obs, what) in results:
        if prop.nontrivial(c, obs):
            distinct[canon(c)] = 1
    samples = [{'case': c, 'observed': obs} for (c, obs, _) in results[ncorpus:ncorpus + 2]]
    cov = {
        'obligations': max(obligations, 1), 'discharged': discharged,
        'checker_cmd': 'make -C coq (coq_makefile, full .vo build) ; coqc theories/%s (Print Assumptions per theorem)' % prop.props_file,
        'trusted_base': ['Coq 8.16.1 kernel (coqc; vm_compute used by the correspondence evaluation and by Example/refuted witnesses; no native_compute)',
                         'axioms per theorem: ' + '; '.join('%s: %s' % (t, ', '.join(a) if a else 'closed under the global context') for t, a in thms)]
                        + list(prop.trusted_base),
        'theorems': [t for t, _ in thms],
        'evaluations': len(results) + len(extra) + searched, 'distinct_nontrivial': len(distinct),
        'rule': prop.rule, 'samples': json.loads(canon(samples))[:2] if samples else [],
        'traces_validated_against_impl': ncmp, 'disagreements_checked': len(bad),
        'corpus_cases': ncorpus, 'known_findings_hit': sorted(known_hits),
        'broken': broken,
    }
    cov.update(getattr(prop, 'stats', {}) or {})
    write_evidence(prop, tier, seed, cov, time.time() - t0, len(new) + (1 if broken and not new else 0),
                   list(prop.assumptions))
    import shutil
    shutil.rmtree(os.path.join(BUILD, pid, 'run_%d' % os.getpid()), ignore_errors=True)
    log('%s %s: theorems=%d/%d cases=%d compared=%d disagreements=%d violations=%d known=%d wall=%.1fs' % (
        pid, tier, discharged, obligations, len(results), ncmp, len(bad), len(new), len(known_hits), time.time() - t0))
    return rc
