"""Apply each seeded change (seeded/<name>/patch.diff) to /repo, run the check of the property it breaks,
undo it.  Usage: seeded_run.py [name ...].  Prints one line per seeded change: caught / MISSED."""
import json, os, subprocess, sys
V = os.path.dirname(os.path.dirname(os.path.abspath(__file__)))
names = sys.argv[1:] or sorted(os.listdir(os.path.join(V, 'seeded')))
st = subprocess.run(['git', '-C', '/repo', 'status', '--porcelain'], capture_output=True, text=True).stdout.strip()
if st:
    sys.exit('/repo has uncommitted changes; refusing to run')
for n in names:
    d = os.path.join(V, 'seeded', n)
    if not os.path.exists(os.path.join(d, 'patch.diff')):
        continue
    meta = json.load(open(os.path.join(d, 'meta.json')))
    pid = meta['property']
    r = subprocess.run(['git', '-C', '/repo', 'apply', os.path.join(d, 'patch.diff')], capture_output=True, text=True)
    if r.returncode != 0:
        print('%-28s %s patch does not apply: %s' % (n, pid, r.stderr.strip()[:200]))
        continue
    try:
        p = subprocess.run([os.path.join(V, 'check'), pid, '--tier', os.environ.get('SEEDED_TIER', 'quick')],
                           capture_output=True, text=True, timeout=3600)
        viol = [l for l in p.stdout.splitlines() if l.startswith('VIOLATION')]
        print('%-28s %s %s rc=%d %s' % (n, pid, 'caught' if p.returncode == 1 and viol else 'MISSED', p.returncode,
                                         (viol[0] if viol else '')[:150]))
    finally:
        subprocess.run(['git', '-C', '/repo', 'checkout', '--', '.'])
