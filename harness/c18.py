"""C18 — line protocol segmentation invariance, IRC one-line / round trip."""
import sys, os
sys.path.insert(0, os.path.dirname(os.path.abspath(__file__)))
import common
from common import Prop, nlist, nlistlist, natlit

from circuits import Component, Event
from circuits.protocols.line import Line
from circuits.protocols.irc import message as irc_message
from circuits.protocols.irc import commands as irc_commands
from circuits.protocols.irc import utils as irc_utils
from collections import defaultdict

WS = [9, 10, 11, 12, 13, 28, 29, 30, 31, 32, 133, 160, 5760] + list(range(8192, 8203)) + [8232, 8233, 8239, 8287, 12288]
WSSET = set(WS)


class read(Event):
    """read Event"""


class App(Component):
    def init(self):
        self.lines = []

    def line(self, *args):
        self.lines.append(args)


def drain(app):
    for _ in range(10000):
        if not len(app):
            return
        app.flush()
    raise RuntimeError('queue does not drain')


BYTE_ALPHA = [b'\r', b'\n', b'\r\n', b'a', b'b', b'', b'\xc3\xa9', b'\xe2\x82\xac', b'\r\r', b'\n\n', b' ', b'x\r']
STR_ALPHA = [' ', ':', '\r', '\n', '\0', 'a', 'b', '#', '\t', 'é', ' ', '!', '@', 'c ', ' :', 'x']
CTORS = {  # name -> (command, arity)
    'AWAY': 1, 'NICK': 2, 'USER': 4, 'PASS': 1, 'PONG': 2, 'QUIT': 1, 'JOIN': 2, 'PART': 2, 'PRIVMSG': 2,
    'NOTICE': 2, 'KICK': 3, 'TOPIC': 2, 'MODE': 3, 'INVITE': 2, 'NAMES': 1, 'WHOIS': 2, 'WHO': 2}
REQUIRED = {'NICK': 1, 'USER': 4, 'PASS': 1, 'PONG': 1, 'JOIN': 1, 'PART': 1, 'PRIVMSG': 2, 'NOTICE': 2, 'KICK': 2,
            'TOPIC': 1, 'MODE': 1, 'INVITE': 2, 'WHOIS': 1, 'AWAY': 0, 'QUIT': 0, 'NAMES': 0, 'WHO': 0}


def cut(rng, data, maxcuts):
    n = len(data)
    k = rng.randint(0, min(maxcuts, n))
    pts = sorted(rng.sample(range(n + 1), k)) if n else []
    out, prev = [], 0
    for p in pts + [n]:
        out.append(data[prev:p])
        prev = p
    return out


def canonical_msg(cmd, pfx, args):
    """class predicate of finding C18-irc-roundtrip: exactly the hypothesis `canonical` of theorem C18_roundtrip_partial"""
    def tok(s):
        return s != '' and not s.startswith(':') and not any(ord(c) in WSSET for c in s)
    if not tok(cmd):
        return False
    if not all(tok(a) for a in args[:-1]):
        return False
    if args:
        last = args[-1]
        if ' ' in last:
            return not last.startswith(':')
        return tok(last)
    return True


class C18(Prop):
    id = 'C18'
    props_file = 'Props/C18.v'
    imports = ['Model.Line', 'Model.LineObs', 'Model.Irc', 'Model.IrcObs']
    quick_n = 1200
    thorough_n = 12000
    rule = ('byte streams over {CR, LF, CRLF, empty, multi-byte UTF-8,...} cut at random points (client) and interleaved over '
            '3 sockets (server), run through the real Line component; IRC Message / command constructors over strings '
            'containing space, colon, CR, LF, NUL, tab, unicode spaces; parsemsg on serialised and random lines; streams of 1-4 serialised messages cut into reads of arbitrary sizes and received through the real Line component (one line per accepted message). '
            'non-trivial = stream contains a terminator and at least one cut, or message has >= 1 argument')
    trusted_base = ['hand-written models Model/Line.v, Model/Irc.v tied to /repo by this correspondence run',
                    'python oracle in harness/c18.py; re module semantics of \\r?\\n modelled as LF-split + strip one CR']
    assumptions = ['str.split() whitespace table as in CPython 3.12 (modelled by is_ws)',
                   'IRC round trip is proved/checked for canonical messages only; the rest is known finding C18-irc-roundtrip']

    def generate(self, rng, n, tier):
        cases = []
        for i in range(n):
            r = rng.random()
            if r < 0.08:
                # several IRC messages written one after the other, the byte stream cut anywhere, received through Line
                # (ASCII only so that code points = bytes; a few forbidden characters exercise the rejections)
                def tk():
                    return ''.join(rng.choice('ab#x!@:') for _ in range(rng.randint(1, 3)))
                msgs = []
                for _ in range(rng.randint(1, 4)):
                    args = [tk() for _ in range(rng.randint(0, 3))]
                    if args and rng.random() < 0.5:
                        args[-1] += ' ' + tk()
                    if args and rng.random() < 0.12:
                        j = rng.randrange(len(args))
                        args[j] += rng.choice(['\r', '\n', '\0', '\r\n', ' '])
                    msgs.append({'cmd': tk().lstrip(':') or 'x', 'pfx': None if rng.random() < 0.5 else tk(), 'args': args})
                total = sum(len(m['cmd']) + len(m['pfx'] or '') + sum(len(a) + 2 for a in m['args']) + 4 for m in msgs)
                sizes = [rng.choice([0, 1, 1, 2, 3, 5, 8]) for _ in range(rng.randint(0, 8))]
                if rng.random() < 0.15:
                    sizes = [1] * total
                cases.append({'k': 'irc_stream', 'msgs': msgs, 'sizes': sizes})
            elif r < 0.30:
                data = b''.join(rng.choice(BYTE_ALPHA) for _ in range(rng.randint(0, 14)))
                mode = rng.random()
                if mode < 0.2:
                    chunks = [data[i:i + 1] for i in range(len(data))]
                else:
                    chunks = cut(rng, data, 6)
                cases.append({'k': 'client', 'chunks': [list(c) for c in chunks]})
            elif r < 0.45:
                evs = []
                streams = {s: b''.join(rng.choice(BYTE_ALPHA) for _ in range(rng.randint(0, 10))) for s in (1, 2, 3)}
                parts = {s: cut(rng, d, 4) for s, d in streams.items()}
                while any(parts.values()):
                    s = rng.choice([s for s in parts if parts[s]])
                    evs.append([s, list(parts[s].pop(0))])
                cases.append({'k': 'server', 'evs': evs})
            elif r < 0.70:
                def s():
                    return ''.join(rng.choice(STR_ALPHA) for _ in range(rng.randint(0, 3)))
                def tokn():
                    return ''.join(rng.choice('ab#x!@é') for _ in range(rng.randint(1, 3)))
                mostly_valid = rng.random() < 0.6
                cmd = tokn() if mostly_valid or rng.random() < 0.5 else s()
                pfx = None if rng.random() < 0.5 else (tokn() if mostly_valid else s())
                if rng.random() < 0.2:
                    # prefixes that carry colons themselves (IPv6 hosts): only the FIRST colon of the line marks the prefix
                    pfx = rng.choice([':', '::', '::1', ':a', 'a:b', ':x!u@::1', 'n!u@2001:db8::1', ':::'])
                nargs = rng.randint(0, 4)
                args = [(tokn() if mostly_valid and rng.random() < 0.8 else s()) for _ in range(nargs)]
                if args and rng.random() < 0.5:
                    args[-1] = args[-1] + ' ' + s()
                if rng.random() < 0.04:
                    # long messages (around and beyond the 512 characters of RFC 1459): still exactly one terminated line
                    n = rng.choice([480, 495, 500, 503, 504, 505, 506, 507, 508, 509, 510, 511, 512, 513, 600, 1500])
                    long = (rng.choice(['x', 'é', 'ab ']) * n)[:n]
                    cmd, pfx = rng.choice(['PRIVMSG', 'TOPIC', 'x']), rng.choice([None, 'n!u@h'])
                    args = [rng.choice(['#c', 'a:b'])] + [long] if ' ' in long or rng.random() < 0.7 else [long, 'tail end']
                c = {'k': 'irc_str', 'cmd': cmd, 'pfx': pfx, 'args': args}
                self._decorate(rng, c)
                cases.append(c)
            elif r < 0.85:
                name = rng.choice(sorted(CTORS))
                ar = CTORS[name]
                req = REQUIRED[name]
                args = []
                for j in range(ar):
                    if j >= req and rng.random() < 0.4:
                        args.append(None)
                    elif rng.random() < 0.6:
                        args.append(''.join(rng.choice('ab#x') for _ in range(rng.randint(1, 3))))
                    else:
                        args.append(''.join(rng.choice(STR_ALPHA) for _ in range(rng.randint(0, 3))))
                c = {'k': 'irc_ctor', 'name': name, 'args': args}
                self._decorate(rng, c)
                c.pop('late', None)
                if 'enc' in c:
                    c['enc'] = 'utf-8'      # the constructors build the Message with the default encoding
                cases.append(c)
            else:
                line = ''.join(rng.choice(STR_ALPHA + ['PRIVMSG', ' ', ' ', 'nick!u@h']) for _ in range(rng.randint(0, 8)))
                if rng.random() < 0.35:
                    # structured lines: [':' prefix ' '] command {' ' middle} [' :' trailing], with colons in every part
                    pre = rng.choice(['', '', ':n!u@h ', '::1 ', ':: ', ':::a ', ':a:b ', ': '])
                    mids = ''.join(' ' + rng.choice(['#c', 'a:b', '::1', 'x', 'é', 'k:']) for _ in range(rng.randint(0, 3)))
                    trail = rng.choice(['', ' :hi there', ' ::', ' :a :b', ' : x'])
                    line = pre + rng.choice(['PRIVMSG', '001', 'x']) + mids + trail
                line = line.replace('\n', '').replace('\r', '') if rng.random() < 0.7 else line
                cases.append({'k': 'irc_parse', 'line': line})
        return cases

    @staticmethod
    def _decorate(rng, c):
        """ways of handing the same argument strings to Message: some as bytes (decoded with the message's encoding),
        some appended to .args after construction (the line is checked again when it is serialised)"""
        n = len(c['args'])
        if n and rng.random() < 0.35:
            c['bytes'] = [rng.random() < 0.6 for _ in range(n)]
            c['enc'] = rng.choice(['utf-8', 'utf-8', 'latin-1'])
            text = ''.join([c.get('cmd', ''), c.get('pfx') or ''] + [a for a in c['args'] if a])
            if any(ord(ch) > 255 for ch in text):
                c['enc'] = 'utf-8'           # an encoding that cannot express the message is the caller's mistake
        if n and rng.random() < 0.2:
            c['late'] = rng.randint(1, n)      # the last `late` arguments are appended after construction

    @staticmethod
    def _pyargs(c):
        enc = c.get('enc', 'utf-8')
        bs = c.get('bytes') or [False] * len(c['args'])
        return [(a.encode(enc) if (b and a is not None) else a) for a, b in zip(c['args'], bs)]

    # ---- implementation drivers
    def impl(self, c):
        k = c['k']
        if k == 'client':
            app = App()
            ln = Line().register(app)
            drain(app)
            for ch in c['chunks']:
                app.fire(read(bytes(ch)))
                drain(app)
            return [[list(a[0]) for a in app.lines], list(ln.buffer)]
        if k == 'server':
            app = App()
            buffers = defaultdict(bytes)
            Line(getBuffer=buffers.__getitem__, updateBuffer=buffers.__setitem__).register(app)
            drain(app)
            for s, ch in c['evs']:
                app.fire(read(s, bytes(ch)))
                drain(app)
            return [[[a[0], list(a[1])] for a in app.lines], [list(buffers[s]) for s in (1, 2, 3)]]
        if k == 'irc_stream':
            sers = []
            for m in c['msgs']:
                try:
                    kw = {} if m['pfx'] is None else {'prefix': m['pfx']}
                    sers.append(list(bytes(irc_message.Message(m['cmd'], *m['args'], **kw))))
                except irc_message.Error:
                    sers.append(None)
            data = bytes(b for s_ in sers if s_ is not None for b in s_)
            chunks = []
            for n in c['sizes']:
                chunks.append(data[:n])
                data = data[n:]
            chunks.append(data)
            app = App()
            ln = Line().register(app)
            drain(app)
            for ch in chunks:
                app.fire(read(ch))
                drain(app)
            return {'lines': [list(a[0]) for a in app.lines], 'tail': list(ln.buffer), 'sers': sers}
        if k in ('irc_str', 'irc_ctor'):
            try:
                enc = c.get('enc', 'utf-8')
                pyargs = self._pyargs(c)
                if k == 'irc_str':
                    kw = {} if c['pfx'] is None else {'prefix': c['pfx']}
                    if 'enc' in c:
                        kw['encoding'] = enc
                    late = c.get('late', 0)
                    m = irc_message.Message(c['cmd'], *pyargs[:len(pyargs) - late], **kw)
                    for a in pyargs[len(pyargs) - late:]:
                        m.args.append(a if isinstance(a, str) else a.decode(enc))
                else:
                    m = getattr(irc_commands, c['name'])(*pyargs).args[0]
                    if 'enc' in c:
                        m.encoding = enc      # what IRC.request() does before it serialises the message
                s = str(m)
                b = bytes(m)
            except irc_message.Error:
                return {'str': None}
            assert b == s.encode(enc)
            old = irc_utils.parseprefix
            irc_utils.parseprefix = lambda p: p
            try:
                try:
                    back = irc_utils.parsemsg(b[:-2] if b.endswith(b'\r\n') else b, enc)
                    back = [back[0], back[1], list(back[2])]
                except ValueError:
                    back = None
            finally:
                irc_utils.parseprefix = old
            return {'str': s, 'cmd': str(m.command), 'pfx': m.prefix, 'args': [a if isinstance(a, str) else bytes(a).decode(enc, 'replace') for a in m.args], 'back': back}
        if k == 'irc_parse':
            old = irc_utils.parseprefix
            irc_utils.parseprefix = lambda p: p
            try:
                try:
                    p, cmd, args = irc_utils.parsemsg(c['line'].encode('utf-8'))
                    return [p, [cmd] if cmd is not None else [], list(args)]
                except ValueError:
                    return []
            finally:
                irc_utils.parseprefix = old
        raise ValueError(k)

    # ---- model
    def model_term(self, c):
        k = c['k']
        if k == 'client':
            return 'obs_client %s' % nlistlist(c['chunks'])
        if k == 'server':
            evs = '[%s]' % '; '.join('(%s, %s)' % (natlit(s), nlist(ch)) for s, ch in c['evs'])
            return 'obs_server [1;2;3]%%nat %s' % evs
        if k == 'irc_str':
            pfx = 'None' if c['pfx'] is None else '(Some %s)' % nlist(c['pfx'])
            return 'obs_str %s %s %s' % (nlist(c['cmd']), pfx, nlistlist(c['args']))
        if k == 'irc_ctor':
            args = list(c['args'])
            if c['name'] == 'WHOIS':      # WHOIS(nickmasks, server) -> Message('WHOIS', server, nickmasks)
                args = [args[1], args[0]]
            args = [a for a in args if a is not None]
            return 'obs_str %s None %s' % (nlist(c['name']), nlistlist(args))
        if k == 'irc_parse':
            return 'obs_parse %s' % nlist(c['line'])
        if k == 'irc_stream':
            ms = '[%s]' % '; '.join('(%s, %s, %s)' % (nlist(m['cmd']), 'None' if m['pfx'] is None else '(Some %s)' % nlist(m['pfx']),
                                                     nlistlist(m['args'])) for m in c['msgs'])
            return 'obs_irc_stream %s [%s]' % (ms, '; '.join(natlit(n) for n in c['sizes']))

    def obs_for_model(self, c, obs):
        if c['k'] == 'irc_stream':
            if isinstance(obs, dict) and '__crash__' in obs:
                return [-999]
            return [obs['lines'], obs['tail']]
        if c['k'] in ('irc_str', 'irc_ctor'):
            if isinstance(obs, dict) and '__crash__' in obs:
                return [-999]
            return [] if obs['str'] is None else [obs['str']]
        return obs

    # ---- oracle: the property's predicate on the real code's behaviour
    def oracle(self, c, obs):
        k = c['k']
        if isinstance(obs, dict) and '__crash__' in obs:
            return None
        if k == 'client':
            whole = b''.join(bytes(ch) for ch in c['chunks'])
            parts = whole.split(b'\n')
            tail = parts.pop()
            exp = [p[:-1] if p.endswith(b'\r') else p for p in parts]
            if [bytes(l) for l in obs[0]] != exp:
                return 'lines emitted %r differ from the lines of the stream %r' % (obs[0], exp)
            if bytes(obs[1]) != tail:
                return 'held tail %r differs from the unterminated tail %r' % (obs[1], tail)
        if k == 'server':
            for idx, s in enumerate((1, 2, 3)):
                whole = b''.join(bytes(ch) for (t, ch) in c['evs'] if t == s)
                parts = whole.split(b'\n')
                tail = parts.pop()
                exp = [p[:-1] if p.endswith(b'\r') else p for p in parts]
                got = [bytes(l) for (t, l) in obs[0] if t == s]
                if got != exp or bytes(obs[1][idx]) != tail:
                    return 'socket %d: lines %r / tail %r differ from its own stream (%r, %r)' % (s, got, obs[1][idx], exp, tail)
        if k == 'irc_stream':
            exp = [bytes(s_[:-2]) for s_ in obs['sers'] if s_ is not None]
            got = [bytes(l) for l in obs['lines']]
            if got != exp or obs['tail']:
                return ('message stream: %d accepted messages %r were received as lines %r with held tail %r'
                        % (len(exp), exp, got, bytes(obs['tail'])))
            return None
        if k in ('irc_str', 'irc_ctor'):
            s = obs['str']
            if s is None:
                return None
            if not s.endswith('\r\n') or any(ch in s[:-2] for ch in '\r\n\0'):
                return 'serialised message %r is not exactly one CRLF-terminated line' % s
            if k == 'irc_ctor' and obs['cmd'] != c['name']:
                return 'constructor %s produced command %r' % (c['name'], obs['cmd'])
            exp = [obs['pfx'] or '', obs['cmd'], obs['args']]
            if obs['back'] != exp:
                return 'irc-roundtrip: parsing %r gives %r, message was %r' % (s, obs['back'], exp)
        return None

    def finding_class(self, c, obs, what):
        if what.startswith('irc-roundtrip') and not canonical_msg(obs['cmd'], obs['pfx'], obs['args']):
            return 'C18-irc-roundtrip'
        return None

    def nontrivial(self, c, obs):
        k = c['k']
        if k == 'client':
            return len(c['chunks']) > 1 and any(10 in ch for ch in c['chunks'])
        if k == 'server':
            return len(c['evs']) > 2
        if k in ('irc_str', 'irc_ctor'):
            return len(c['args']) >= 1
        if k == 'irc_stream':
            return len(c['msgs']) >= 2 and len(c['sizes']) >= 1
        return len(c['line']) > 2


if __name__ == '__main__':
    sys.exit(common.main(C18()))
