"""C02 — dispatch order: priority then FIFO per pass; handler priority; stop().

Cases are programs: a table of handlers (event name -> handlers with a priority and a straight-line
body of fire(name, priority) / event.stop() / flush() actions) and a main program of the same actions.
The same program is run through the real Manager (fire()/flush() only) and through the Coq model
(Model/DispatchOrder.v); the complete log of fire / dispatch / handler invocation (with nesting depth) /
stop / return / flush entry+exit is compared.  The oracle re-reads the property on the implementation log.
"""
import sys, os
sys.path.insert(0, os.path.dirname(os.path.abspath(__file__)))
import common
from common import Prop

from circuits import BaseComponent, Event, handler

# priority values used for events and handlers: ints, floats, negative, equal-but-different-type values
PRIOS = [-2, -1, -0.5, 0, 0.5, 1, 3, 1.0, -0.0, True, 0.0, -1.0, 2, False]
REG_NAME = 99            # model name of the handler-less `registered` event fired by register()
OBS_PRIO = 1000          # the harness' own dispatch observer runs before every generated handler


def key2(p):
    """order-preserving map of the generated priorities to integers (model keys)"""
    k = 2 * p
    assert k == int(k)
    return int(k)


def pack(e):
    """one log entry -> one integer, the same packing as Model/DispatchOrderObs.v pack"""
    t = e[0]
    a = b = c = 0
    if t == 0:
        a, b, c = e[1], e[2], e[3] + 1000
    elif t == 1:
        a, b, c = e[1], e[2], e[3]
    elif t in (2, 3):
        a, b = e[1], e[2]
    elif t == 6:
        a = e[1]
    elif t == 9:
        a, b = e[1], e[2]
    assert 0 <= a < 1024 and 0 <= b < 1024 and 0 <= c < 1024, e
    return t + 16 * (a + 1024 * (b + 1024 * c))


class Ctx:
    def __init__(self):
        self.log = []
        self.depth = 0
        self.next_id = 0
        self.reg_id = None


def do_fire(ctx, comp, name, prio):
    e = Event.create('e%d' % name)
    e.c02_id = ctx.next_id
    ctx.next_id += 1
    ctx.log.append([0, e.c02_id, name, key2(prio)])
    n = len(ctx.log)
    d = ctx.depth
    try:
        comp.fire(e, priority=prio)
    except Exception as ex:  # fire() must not fail
        ctx.log.append([8, type(ex).__name__])
    if len(ctx.log) != n or ctx.depth != d:
        ctx.log.append([7])      # something ran inside fire(): re-entrancy


def make_gen(nyields):
    """a trivial coroutine body: logs nothing, fires nothing"""
    for _ in range(nyields):
        yield


def run_body(ctx, comp, body, eid, hid, event):
    """-> None, or the generator object the handler returns (action 'g')"""
    for a in body:
        if a[0] == 'g':
            if event is None:
                continue
            ctx.log.append([9, eid, hid])
            return make_gen(a[1])      # `return <generator>`: the rest of the body never runs
        if a[0] == 'f':
            do_fire(ctx, comp, a[1], a[2])
        elif a[0] == 's':
            if event is not None:
                event.stop()
                ctx.log.append([2, eid, hid])
        elif a[0] == 'x':
            ctx.log.append([4])
            try:
                comp.flush()
            except Exception as ex:
                ctx.log.append([8, type(ex).__name__])
            ctx.log.append([5])
        else:
            raise ValueError(a)


def make_fn(ctx, hid, body):
    def fn(self, event, *args, **kw):
        eid = getattr(event, 'c02_id', None)
        ctx.depth += 1
        ctx.log.append([1, eid, hid, ctx.depth])
        try:
            return run_body(ctx, self, body, eid, hid, event)
        finally:
            ctx.log.append([3, eid, hid])
            ctx.depth -= 1
    fn.__name__ = 'h%d' % hid
    fn.c02_hid = hid
    return fn


def build(ctx, case):
    """-> (root, child, detached).  Handlers are spread over root (comp 0) and a registered child (comp 1)."""
    members = [{'channel': 'c'}, {'channel': 'c'}]
    for name, hs in case['handlers']:
        for hid, prio, comp, body in hs:
            members[comp]['h%d' % hid] = handler('e%d' % name, priority=prio)(make_fn(ctx, hid, body))

    def observer(self, event, *args, **kw):
        eid = getattr(event, 'c02_id', None)
        if eid is None and event.name == 'registered':
            eid = ctx.reg_id      # the `registered` event that register() fires takes part in the pass
        if eid is not None:
            ctx.log.append([6, eid])
    observer.__name__ = 'c02_observer'
    observer.c02_hid = -1
    members[0]['c02_observer'] = handler(priority=OBS_PRIO)(observer)
    R = type('R', (BaseComponent,), members[0])
    S = type('S', (BaseComponent,), members[1])
    D = type('D', (BaseComponent,), {'channel': 'c'})
    root = R()
    child = S().register(root)
    for _ in range(50):
        if not len(root):
            break
        root.flush()
    return root, child, D()


def base_order(root, case):
    """the order in which getHandlers hands the handlers of each event name to sorted(): python set
    iteration order, i.e. nondeterminism the property does not speak about; given to the model as input"""
    out = {}
    for name, hs in case['handlers']:
        ev = Event.create('e%d' % name)
        got = [getattr(h, 'c02_hid', None) for h in root.getHandlers(ev, 'c')]
        out[name] = [h for h in got if h is not None and h >= 0]
    return out


def est_events(case):
    """upper bound of the number of events of a program (ignores stop())"""
    table = {name: hs for name, hs in case['handlers']}
    memo = {}

    def cnt(n):
        if n not in memo:
            memo[n] = 1 + sum(cnt(a[1]) for (_, _, _, body) in table.get(n, []) for a in body if a[0] == 'f')
        return memo[n]
    return sum(cnt(a[1]) for a in case['prog'] if a[0] in ('f', 'cf')) + 1


def est_steps(case):
    table = {name: hs for name, hs in case['handlers']}
    per = {n: 3 + sum(3 + 2 * len(b) for (_, _, _, b) in hs) for n, hs in table.items()}
    memo = {}

    def cnt(n):
        if n not in memo:
            memo[n] = per.get(n, 3) + sum(cnt(a[1]) for (_, _, _, body) in table.get(n, []) for a in body if a[0] == 'f')
        return memo[n]
    return 50 + 4 * len(case['prog']) + sum(cnt(a[1]) for a in case['prog'] if a[0] in ('f', 'cf'))


class C02(Prop):
    id = 'C02'
    props_file = 'Props/C02.v'
    imports = ['Model.DispatchOrder', 'Model.DispatchOrderObs']
    quick_n = 260
    thorough_n = 9000
    rule = ('programs over <= 8 event names; handlers (0-3 per name, on two components) with priorities from '
            '{-2,-1,-0.5,0,0.5,1,3, 1.0,-0.0,True,False,...}, bodies of <= 5 actions fire(name,priority)/event.stop()/flush()/return <generator>, '
            'nesting to depth 7; main program of fires and flushes (+ fires on a not yet registered component followed by '
            'register()); run through the real Manager with fire()/flush() only. non-trivial = some handler fires during a '
            'pass and at least two distinct priority values occur, or a handler calls flush()')
    trusted_base = ['hand-written model Model/DispatchOrder.v tied to /repo by this correspondence run (complete '
                    'fire/dispatch/invoke/stop/return/flush log compared)',
                    'python oracle in harness/c02.py; heapq abstracted to "remove the minimum (priority, counter) key"',
                    'order of equal-priority handlers (python set iteration order) is read from Manager.getHandlers '
                    'and given to the model as input']
    assumptions = ['priorities compare as a total preorder under Python < and == (ints, bools, non-NaN floats)',
                   'all fire() calls come from the thread that flushes (other threads: C03)',
                   'handlers return None and do not raise (values/exceptions: C04); one root manager']

    def __init__(self):
        self._sched = {}
        self.stats = {'kinds': {}, 'events_per_case': {}, 'max_depth': {}, 'stops': 0, 'nested_flush_cases': 0,
                      'mixed_priority_cases': 0, 'drain_cases': 0}

    # ------------------------------------------------------------------ generator
    def gen_one(self, rng, tier, kind):
        while True:
            nn = rng.randint(2, 8)
            hid = 0
            handlers = []
            few = rng.random() < 0.3
            pr = rng.sample(PRIOS, rng.randint(2, 4)) if few else PRIOS
            for name in range(nn):
                r = rng.random()
                nh = 0 if r < 0.08 else (1 if r < 0.4 else (2 if r < 0.75 else 3))
                hs = []
                for _ in range(nh):
                    body = []
                    for _ in range(rng.choice([0, 1, 1, 2, 2, 3, 4])):
                        q = rng.random()
                        if q < 0.55 and name + 1 < nn:
                            tgt = rng.randint(name + 1, min(nn - 1, name + 2)) if rng.random() < 0.7 else rng.randint(name + 1, nn - 1)
                            body.append(['f', tgt, rng.choice(pr)])
                        elif q < 0.78:
                            body.append(['x'])
                        elif q < 0.92:
                            body.append(['s'])
                    # a handler that is a plain function and returns a generator object (coroutine hand-off),
                    # with and without a preceding stop(); sometimes in mid-body (the rest is dead code)
                    q = rng.random()
                    if q < 0.22 or (q < 0.45 and ['s'] in body):
                        g = ['g', rng.randint(0, 1)]
                        if body and rng.random() < 0.2:
                            body.insert(rng.randint(0, len(body) - 1), g)
                        else:
                            body.append(g)
                    hs.append([hid, rng.choice(pr), rng.randint(0, 1), body])
                    hid += 1
                handlers.append([name, hs])
            prog = []
            for _ in range(rng.randint(1, 7)):
                if rng.random() < 0.8:
                    prog.append(['f', rng.randint(0, min(nn - 1, 2)) if rng.random() < 0.7 else rng.randint(0, nn - 1),
                                 rng.choice(pr)])
                else:
                    prog.append(['x'])
            if kind == 'drain':
                pos = rng.randint(0, len(prog))
                seg = [['cf', rng.randint(0, nn - 1), rng.choice(pr)] for _ in range(rng.randint(1, 4))] + [['reg']]
                prog = prog[:pos] + seg + prog[pos:]
                for _ in range(rng.randint(0, 2)):
                    prog.append(['cf', rng.randint(0, nn - 1), rng.choice(pr)])
            prog += [['x']] * (nn + 2)
            case = {'k': kind, 'handlers': handlers, 'prog': prog}
            if est_events(case) <= (160 if tier == "thorough" else 45):
                return case

    def generate(self, rng, n, tier):
        cases = []
        for i in range(n):
            cases.append(self.gen_one(rng, tier, 'drain' if rng.random() < 0.15 else 'prog'))
        return cases

    # ------------------------------------------------------------------ implementation driver
    def impl(self, c):
        ctx = Ctx()
        root, child, det = build(ctx, c)
        order = base_order(root, c)
        if order != base_order(root, c):
            raise RuntimeError('getHandlers order is not reproducible')
        self._sched[common.canon(c)] = order
        ctx.log[:] = []
        registered = False
        for a in c['prog']:
            if a[0] == 'cf':
                do_fire(ctx, det, a[1], a[2])
            elif a[0] == 'reg':
                if not registered:
                    det.register(root)       # drains det's queue into root's, then fires registered(det, root)
                    registered = True
                    ctx.reg_id = ctx.next_id
                    ctx.next_id += 1
                    ctx.log.append([0, ctx.reg_id, REG_NAME, 0])
            else:
                run_body(ctx, root, [a], None, None, None)
        for _ in range(3):           # let the returned generators (tasks) run to their end
            root.tick(0)
        final = [0, 0, len(root)]   # [model crashed, model stack left, queue length]
        st = self.stats
        st['kinds'][c['k']] = st['kinds'].get(c['k'], 0) + 1
        ne = sum(1 for e in ctx.log if e[0] == 0)
        b = min(ne // 10 * 10, 90)
        st['events_per_case'][str(b)] = st['events_per_case'].get(str(b), 0) + 1
        md = max([e[3] for e in ctx.log if e[0] == 1] + [0])
        st['max_depth'][str(md)] = st['max_depth'].get(str(md), 0) + 1
        st['stops'] += sum(1 for e in ctx.log if e[0] == 2)
        st['generator_returns'] = st.get('generator_returns', 0) + sum(1 for e in ctx.log if e[0] == 9)
        stopped = {(e[1], e[2]) for e in ctx.log if e[0] == 2}
        st['stop_then_generator_return'] = st.get('stop_then_generator_return', 0) + sum(
            1 for e in ctx.log if e[0] == 9 and (e[1], e[2]) in stopped)
        if md > 1:
            st['nested_flush_cases'] += 1
        if len({e[3] for e in ctx.log if e[0] == 0}) > 1:
            st['mixed_priority_cases'] += 1
        if c['k'] == 'drain':
            st['drain_cases'] += 1
        return {'log': ctx.log, 'final': final}

    # ------------------------------------------------------------------ model
    @staticmethod
    def _acts(body, main=False):
        out = []
        for a in body:
            if a[0] in ('f', 'cf'):
                out.append('F %d (%d)' % (a[1], key2(a[2])))
            elif a[0] == 'x':
                out.append('X')
            elif a[0] == 's':
                out.append('P')
            elif a[0] == 'g':
                out.append('G')
            elif a[0] == 'reg':
                out.append('F %d 0' % REG_NAME)
        return '[%s]' % '; '.join(out)

    def model_term(self, c):
        key = common.canon(c)
        if key not in self._sched:
            self.safe_impl(c)
        order = self._sched.get(key)
        if order is None:
            return None
        rows = []
        for name, hs in c['handlers']:
            byid = {h[0]: h for h in hs}
            ids = [i for i in order.get(name, []) if i in byid]
            ids += [h[0] for h in hs if h[0] not in ids]      # (handlers the implementation did not report)
            hl = '; '.join('H %d (%d) %s' % (i, key2(byid[i][1]), self._acts(byid[i][3])) for i in ids)
            rows.append('R %d [%s]' % (name, hl))
        return 'obs_run [%s] %d%%nat %s' % ('; '.join(rows), est_steps(c) + 100, self._acts(c['prog'], True))

    def obs_for_model(self, c, obs):
        if isinstance(obs, dict) and '__crash__' in obs:
            return [-999]
        return [[pack(e) for e in obs['log'] if e[0] not in (3, 5)], obs['final']]

    # ------------------------------------------------------------------ oracle: the property read on the log
    def oracle(self, c, obs):
        if isinstance(obs, dict) and '__crash__' in obs:
            return None
        log = obs['log']
        hprio, hname, byname = {}, {}, {}
        for name, hs in c['handlers']:
            byname[name] = [h[0] for h in hs]
            for h in hs:
                hprio[h[0]] = h[1]
                hname[h[0]] = name
        evprio = {}
        for a in c['prog']:
            pass
        fired = {}            # eid -> (name, python priority, fire index)
        # priorities by fire order: replay the program text is not needed, the log entry carries 2*priority
        queued, pending = [], []
        dispatched, invoked, stopped_by, done_inv = [], {}, {}, set()
        frames = [{'h': None, 'inflush': 0}]
        for idx, e in enumerate(log):
            t = e[0]
            if t == 7:
                return 'fire() ran a handler re-entrantly (log entry %d)' % idx
            if t == 8:
                return 'fire()/flush() raised %s (log entry %d)' % (e[1], idx)
            if t == 0:
                if e[1] in fired:
                    return 'event id %d fired twice' % e[1]
                fired[e[1]] = (e[2], e[3], len(fired))
                queued.append(e[1])
            elif t == 4:
                frames[-1]['inflush'] += 1
                if not pending:           # a new pass begins: it takes what is queued now
                    pending = sorted(queued, key=lambda i: (fired[i][1], fired[i][2]))
                    queued = []
            elif t == 5:
                if pending:
                    return 'flush() returned while events %r of the current pass were not dispatched' % pending
                frames[-1]['inflush'] -= 1
            elif t == 6:
                eid = e[1]
                if not frames[-1]['inflush']:
                    return 'event %d dispatched outside of a flush() call (inside fire() or a handler body)' % eid
                if eid in dispatched:
                    return 'event %d dispatched twice' % eid
                if eid not in fired:
                    return 'event %d dispatched but never fired' % eid
                if not pending or pending[0] != eid:
                    if eid in queued and pending:
                        return ('event %d, fired after the current pass began, was dispatched before %r that were queued '
                                'when the pass began' % (eid, pending))
                    if eid in queued:
                        return ('event %d, fired after the current pass began, was dispatched by that same pass '
                                '(no new flush pass had begun)' % eid)
                    return 'event %d dispatched out of order: the pass requires %r next (priority, then fire order)' % (eid, pending[:3])
                pending.pop(0)
                dispatched.append(eid)
                invoked[eid] = []
            elif t == 1:
                eid, hid, d = e[1], e[2], e[3]
                if not frames[-1]['inflush']:
                    return 'handler %d invoked re-entrantly (not from a flush() call)' % hid
                if d != len(frames):
                    return 'handler %d runs at nesting depth %d, expected %d' % (hid, d, len(frames))
                if eid not in invoked:
                    return 'handler %d invoked for event %r that was not dispatched' % (hid, eid)
                if hname.get(hid) != fired[eid][0]:
                    return 'handler %d (for e%s) invoked for event %d named e%d' % (hid, hname.get(hid), eid, fired[eid][0])
                if eid in stopped_by:
                    g = stopped_by[eid]
                    if hprio[hid] < hprio[g]:
                        return 'handler %d (priority %r) ran for event %d after handler %d (priority %r) called stop()' % (
                            hid, hprio[hid], eid, g, hprio[g])
                    return 'handler %d ran for event %d after stop() was called by handler %d' % (hid, eid, g)
                if hid in invoked[eid]:
                    return 'handler %d invoked twice for event %d' % (hid, eid)
                if invoked[eid] and hprio[invoked[eid][-1]] < hprio[hid]:
                    return 'handler %d (priority %r) ran after handler %d (priority %r) for event %d' % (
                        hid, hprio[hid], invoked[eid][-1], hprio[invoked[eid][-1]], eid)
                invoked[eid].append(hid)
                frames.append({'h': (eid, hid), 'inflush': 0})
            elif t == 3:
                if frames[-1]['h'] != (e[1], e[2]):
                    return 'handler return does not match the running handler'
                frames.pop()
            elif t == 2:
                stopped_by.setdefault(e[1], e[2])
            elif t == 9:
                if frames[-1]['h'] != (e[1], e[2]):
                    return 'generator returned by a handler that is not the running one'
        if len(frames) != 1:
            return 'run ended inside a handler'
        for eid in fired:
            if eid not in invoked:
                return 'event %d was fired but not dispatched by the %d following flush passes' % (
                    eid, sum(1 for a in c['prog'] if a[0] == 'x'))
            name = fired[eid][0]
            want = byname.get(name, [])
            got = invoked[eid]
            if eid in stopped_by:
                g = stopped_by[eid]
                missing = [h for h in want if hprio[h] > hprio[g] and h not in got]
                if missing:
                    return 'handlers %r of higher priority than the stopping handler %d did not run for event %d' % (missing, g, eid)
            elif sorted(got) != sorted(want):
                return 'event %d (never stopped): handlers invoked %r, registered %r' % (eid, got, want)
        if obs['final'][2] != 0:
            return 'queue not empty after the final flushes'
        return None

    def nontrivial(self, c, obs):
        if isinstance(obs, dict) and '__crash__' in obs:
            return False
        log = obs['log']
        depth, inner_fire = 0, False
        for e in log:
            if e[0] == 1:
                depth += 1
            elif e[0] == 3:
                depth -= 1
            elif e[0] == 0 and depth > 0:
                inner_fire = True
        mixed = len({e[3] for e in log if e[0] == 0}) > 1
        nested = any(e[0] == 1 and e[3] > 1 for e in log)
        return (inner_fire and mixed) or nested

    def search(self, rng, tier):
        for i in range(3000):
            yield self.gen_one(rng, 'quick', 'drain' if i % 5 == 0 else 'prog')


if __name__ == '__main__':
    sys.exit(common.main(C02()))
