"""C02 — dispatch order: priority then FIFO per pass; handler priority; stop().

Cases are programs: a table of handlers (event name -> handlers with a priority and a straight-line body of
fire(name, priority[, cancelled | stopped-before-dispatch]) / event.stop() / flush() / return <generator> / raise
actions; events are delivered on 1-3 channels, components and handlers sit on different channels) and a main program of fires, flush()/tick() calls, fires on not yet registered components and register().
The same program is run through the real Manager and through the Coq model (Model/DispatchOrder.v); the complete log
of fire / dispatch / handler invocation (with nesting depth) / stop / generator return / raise / flush entry is
compared.  The oracle re-reads the property on the implementation log.

A second case kind, `burst`, queues thousands of events (see run_burst) and compares a digest of the dispatch order.

Definition used throughout (it is a definition, not a finding): the *fire order* of events that sat in the queue of a
not yet registered component is their *arrival order in the root queue*, i.e. they count as fired at the moment of
register(), in the order they were fired on that component, followed by the `registered` event.  The driver therefore
numbers and logs them at register() time; the model program has them at that point.
"""
import sys, os
sys.path.insert(0, os.path.dirname(os.path.abspath(__file__)))
import common
from common import Prop

from circuits import BaseComponent, Event, handler

# priority values used for events and handlers: ints, floats, negative, equal-but-different-type values
PRIOS = [-2, -1, -0.5, 0, 0.5, 1, 3, 1.0, -0.0, True, 0.0, -1.0, 2, False]
GE_NAME = 97             # model names of the events the core fires itself: generate_events (tick() while running),
EXC_NAME = 98            # exception (a handler raised),
REG_NAME = 99            # registered (register()),
FAIL_BASE = 100          # <name>_failure = FAIL_BASE + name (a handler raised and event.failure is set)
OBS_HID = 999            # the harness' dispatch observer: a catch-all handler that runs before every generated one
OBS_PRIO = 1000
# pairwise different values (ints, floats, negative) for the handlers of one event name in multi-channel cases
DPRIOS = [-2.5, -2, -1.5, -1, -0.5, 0, 0.5, 1, 2, 2.5, 3, 5.5, 7, 10]


def evname(n):
    if n == GE_NAME:
        return 'generate_events'
    if n == EXC_NAME:
        return 'exception'
    if n == REG_NAME:
        return 'registered'
    if n >= FAIL_BASE:
        return 'e%d_failure' % (n - FAIL_BASE)
    return 'e%d' % n


def key2(p):
    """order-preserving map of the generated priorities to integers (model keys)"""
    k = 2 * p
    assert k == int(k)
    return int(k)


def pack(e):
    """one log entry -> one integer, the same packing as Model/DispatchOrderObs.v pack"""
    t = e[0]
    a = b = c = 0
    if t in (0, 11, 12):
        a, b, c = e[1], e[2], e[3] + 1000
    elif t == 1:
        a, b, c = e[1], e[2], e[3]
    elif t in (2, 3, 9, 10):
        a, b = e[1], e[2]
    elif t == 6:
        a = e[1]
    assert 0 <= a < 1024 and 0 <= b < 1024 and 0 <= c < 2048, e
    return t + 16 * (a + 1024 * (b + 1024 * c))


def norm(c):
    """upgrade cases written in the earlier formats (one channel 'c', one detached component, no modes) to the current one:
    chan = channels of the three components; handlers [hid, prio, comp, body, handler channel or None];
    fires ['f', name, prio, mode or None, channels]; ['cf', d, name, prio, channels]; fail = [[name, channels]]"""
    if 'chan' in c:
        return c
    c = dict(c)
    c.setdefault('drv', 'flush')
    c.setdefault('obs', True)
    c['chan'] = ['c', 'c', 'c']
    c['fail'] = [[n, ['c']] if isinstance(n, int) else n for n in c.get('fail', [])]

    def act(a):
        if a[0] == 'f':
            return ['f', a[1], a[2], a[3] if len(a) > 3 else None, a[4] if len(a) > 4 else ['c']]
        if a[0] == 'cf':
            if len(a) == 3:
                a = ['cf', 0, a[1], a[2]]
            return a if len(a) > 4 else a + [['c']]
        if a[0] == 'reg' and len(a) == 1:
            return ['reg', 0]
        return a
    c['prog'] = [act(a) for a in c['prog']]
    c['handlers'] = [[name, [[h[0], h[1], h[2], [act(a) for a in h[3]], h[4] if len(h) > 4 else None] for h in hs]]
                     for name, hs in c['handlers']]
    return c


def matches(c, h, ch):
    """does handler h = [hid, prio, comp, body, handler channel] get an event delivered on channel ch?
    (the documented rule: the handler's channel, else its component's; '*' on either side matches everything)"""
    hch = h[4] if h[4] is not None else c['chan'][h[2]]
    return ch == '*' or hch == '*' or hch == ch


def chan_index(c):
    return {ch: i for i, ch in enumerate(sorted(set(c['chan']) | {'*'}))}


class C02Raise(Exception):
    pass


class Ctx:
    def __init__(self, case):
        self.log = []
        self.depth = 0
        self.next_id = 0
        self.reg_ids = {}        # id(component) -> id of the `registered` event its register() fired
        self.ge_id = None
        self.fail = {n: chs for n, chs in case['fail']}
        self.root_chan = case['chan'][0]
        self.seen = set()


def do_fire(ctx, comp, name, prio, mode=None, chans=('c',), log=True):
    e = Event.create(evname(name))
    e.args = [e]                  # the firing code hands a reference to the event along as its argument
    if name in ctx.fail:
        e.failure = True
    if mode == 's':
        e.stop()                  # stopped from outside, before it is dispatched
    if log:
        e.c02_id = ctx.next_id
        ctx.next_id += 1
        ctx.log.append([{None: 0, 'c': 11, 's': 12}[mode], e.c02_id, name, key2(prio), list(chans)])
    n = len(ctx.log)
    d = ctx.depth
    try:
        comp.fire(e, *chans, priority=prio)
    except Exception as ex:  # fire() must not fail
        ctx.log.append([8, type(ex).__name__])
    if len(ctx.log) != n or ctx.depth != d:
        ctx.log.append([7])      # something ran inside fire(): re-entrancy
    if mode == 'c':
        e.cancel()                # cancelled right after fire(), i.e. before any dispatch
    return e


def make_gen(nyields):
    """a trivial coroutine body: logs nothing, fires nothing"""
    for _ in range(nyields):
        yield


def do_flush(ctx, comp, how):
    ctx.log.append([4])
    try:
        if how == 'flush':
            comp.flush()
        else:
            comp.tick(0)          # tasks, [generate_events if running,] then one flush() if anything is queued
    except Exception as ex:
        ctx.log.append([8, type(ex).__name__])
    ctx.log.append([5])


def run_body(ctx, comp, body, eid, hid, event, name=None):
    """-> None, or the generator object the handler returns (action 'g'); action 'r' raises"""
    for a in body:
        if a[0] == 'g':
            if event is None:
                continue
            ctx.log.append([9, eid, hid])
            return make_gen(a[1])      # `return <generator>`: the rest of the body never runs
        if a[0] == 'r':
            if event is None:
                continue
            # the dispatcher's except clause fires [<name>_failure,] exception right after this raise; they are
            # numbered here (nothing can happen in between) and recognised by the ids the exception carries
            ctx.log.append([10, eid, hid])
            ex = C02Raise()
            ex.c02_fail_id = ex.c02_exc_id = None
            if name in ctx.fail:
                ex.c02_fail_id = ctx.next_id
                ctx.next_id += 1
                ctx.log.append([0, ex.c02_fail_id, FAIL_BASE + name, 0, list(ctx.fail[name])])
            ex.c02_exc_id = ctx.next_id
            ctx.next_id += 1
            ctx.log.append([0, ex.c02_exc_id, EXC_NAME, 0, [ctx.root_chan]])
            raise ex
        if a[0] == 'f':
            do_fire(ctx, comp, a[1], a[2], a[3], a[4])
        elif a[0] == 's':
            if event is not None:
                event.stop()
                ctx.log.append([2, eid, hid])
        elif a[0] == 'x':
            do_flush(ctx, comp, 'flush')
        else:
            raise ValueError(a)


def make_fn(ctx, hid, body, name, noev=False):
    def run(self, event):
        eid = getattr(event, 'c02_id', None)
        ctx.depth += 1
        ctx.log.append([1, eid, hid, ctx.depth])
        try:
            return run_body(ctx, self, body, eid, hid, event, name)
        finally:
            ctx.log.append([3, eid, hid])
            ctx.depth -= 1

    if noev:
        # a handler whose signature does not declare `event`: the dispatcher calls it with the event's arguments
        # only; it reaches the event through the reference the firing code put into those arguments (do_fire)
        def fn(self, ref=None, *args, **kw):
            return run(self, ref)
    else:
        def fn(self, event, *args, **kw):
            return run(self, event)
    fn.__name__ = 'h%d' % hid
    fn.c02_hid = hid
    return fn


def build(ctx, case):
    """-> (root, child, [detached components]).  Handlers are spread over root (comp 0) and a registered child."""
    members = [{'channel': ch} for ch in case['chan']]
    for name, hs in case['handlers']:
        for h in hs:
            hid, prio, comp, body, hch = h[:5]
            kw = {'priority': prio}
            if hch is not None:
                kw['channel'] = hch
            members[comp]['h%d' % hid] = handler(evname(name), **kw)(make_fn(ctx, hid, body, name, len(h) > 5 and bool(h[5])))

    def observer(self, event, *args, **kw):
        eid = getattr(event, 'c02_id', None)
        if eid is None:          # events fired by the core itself: find the id the driver gave them
            try:
                if event.name == 'registered':
                    eid = ctx.reg_ids.get(id(event.args[0]))
                elif event.name == 'generate_events':
                    eid = ctx.ge_id
                elif event.name == 'exception':
                    eid = getattr(event.args[1], 'c02_exc_id', None)
                elif event.name.endswith('_failure'):
                    eid = getattr(event.args[1][1], 'c02_fail_id', None)
            except Exception:
                eid = None
            if eid is not None:
                event.c02_id = eid
        if eid is not None and eid not in ctx.seen:
            # (an event delivered on several channels reaches this catch-all once per channel as long as
            # finding C02-multichannel-twice is open; the observer itself reports a dispatch once)
            ctx.seen.add(eid)
            ctx.log.append([6, eid])
    observer.__name__ = 'c02_observer'
    observer.c02_hid = -1
    if case['obs']:
        members[0]['c02_observer'] = handler(priority=OBS_PRIO, channel='*')(observer)
    R = type('R', (BaseComponent,), members[0])
    S = type('S', (BaseComponent,), members[1])
    T = type('T', (BaseComponent,), members[2])
    D = type('D', (BaseComponent,), {'channel': case['chan'][0]})
    root = R()
    child = S().register(root)
    T().register(root)
    for _ in range(50):
        if not len(root):
            break
        root.flush()
    return root, child, [D(), D(), D()]


def base_order(root, case):
    """the order in which getHandlers hands the handlers of each event name to sorted(): python set
    iteration order, i.e. nondeterminism the property does not speak about; given to the model as input"""
    out = {}
    for name, hs in case['handlers']:
        ev = Event.create(evname(name))
        for ch in chan_index(case):
            got = [getattr(h, 'c02_hid', None) for h in root.getHandlers(ev, ch)]
            out['%d/%s' % (name, ch)] = [h for h in got if h is not None and h >= 0]
    return out


def est_events(case):
    """upper bound of the number of events of a program (ignores stop(), dead code)"""
    table = {name: hs for name, hs in case['handlers']}
    memo = {}

    def cnt(n):
        if n not in memo:
            memo[n] = 1 + sum((cnt(a[1]) if a[0] == 'f' else 2 if a[0] == 'r' else 0)
                              for h in table.get(n, []) for a in h[3])
        return memo[n]
    tot = 0
    for a in case['prog']:
        if a[0] == 'f':
            tot += cnt(a[1])
        elif a[0] == 'cf':
            tot += cnt(a[2])
        elif a[0] in ('reg', 'x'):
            tot += 1
    return tot


def est_steps(case):
    worst = max([sum(5 + 2 * len(h[3]) for h in hs) for _, hs in case['handlers']] + [0])
    return 100 + 8 * len(case['prog']) + est_events(case) * (10 + worst)


# ----------------------------------------------------------------------------- large bursts
class c02job(Event):
    """burst member"""


class c02head(Event):
    """first burst member; its handler fires c02urg"""


class c02mark(Event):
    """distinguished burst member"""


class c02urg(Event):
    """fired by the handler of c02head during the pass"""


BURST_NAMES = {c02job: 0, c02mark: 1, c02urg: 2, c02head: 3}


def digest(seq):
    """dispatch order [(2*priority, id)] -> maximal runs of equal priority whose ids form an arithmetic progression,
    [priority, first id, step, count]; the same greedy rule as Model/DispatchOrderObs.v digest_go"""
    out, cur = [], None
    for k, i in seq:
        if cur is not None and k == cur[0] and (cur[3] == 1 or i == cur[1] + cur[2] * cur[3]):
            if cur[3] == 1:
                cur[2] = i - cur[1]
            cur[3] += 1
        else:
            if cur is not None:
                out.append(cur)
            cur = [k, i, 0, 1]
    if cur is not None:
        out.append(cur)
    return out


def run_burst(c):
    """n events queued from outside (priorities cyc[i mod len], marks at given positions, optionally a head whose
    handler fires an urgent event), then `flushes` flush() calls.  Returns a small observable: the digest of the
    dispatch order, the number of dispatches after each flush, the final queue length, and the verdict of the pass
    rule (each pass = what was queued when it began, by ascending priority value then fire order) on the FULL log."""
    log, late = [], []
    n, cyc, marks, urgent = c['n'], c['cyc'], {p: k for p, k in c['marks']}, c['urgent']
    prio = {}

    class B(BaseComponent):
        channel = 'c'

        @handler('c02job', 'c02mark', 'c02urg')
        def _on(self, event, *args):
            log.append(event.c02_id)

        @handler('c02head')
        def _on_head(self, event, *args):
            log.append(event.c02_id)
            e = c02urg()
            e.c02_id = n
            prio[n] = urgent
            late.append(n)
            self.fire(e, priority=urgent)

    root = B()
    for _ in range(50):
        if not len(root):
            break
        root.flush()
    queued = []
    for i in range(n):
        if i in marks:
            e, p = c02mark(), marks[i]
        else:
            e, p = (c02head() if (urgent is not None and i == 0) else c02job()), cyc[i % len(cyc)]
        e.c02_id = i
        prio[i] = p
        queued.append(i)
        root.fire(e, priority=p)
    passes, rule = [], None
    for j in range(c['flushes']):
        before, at = list(queued), len(log)
        del late[:]
        root.flush()
        got = log[at:]
        want = sorted(before, key=lambda i: (prio[i], i))
        if rule is None and got != want:
            pos = next((x for x in range(min(len(got), len(want))) if got[x] != want[x]), min(len(got), len(want)))
            rule = ('pass %d: %d events were queued when it began, %d were dispatched; at position %d of the pass event %s was '
                    'dispatched, the order (ascending priority value, then fire order) requires event %s (priority %r)' % (
                        j + 1, len(before), len(got), pos, got[pos] if pos < len(got) else None,
                        want[pos] if pos < len(want) else None, prio[want[pos]] if pos < len(want) else None))
        gs = set(got)
        queued = [i for i in before if i not in gs] + list(late)
        passes.append(len(log))
    if rule is None and len(set(log)) != len(log):
        rule = 'an event was dispatched twice'
    return {'digest': digest([(key2(prio[i]), i) for i in log]), 'passes': passes, 'final': [0, 0, len(root)],
            'pass_rule': rule}


class C02(Prop):
    id = 'C02'
    props_file = 'Props/C02.v'
    imports = ['Model.DispatchOrder', 'Model.DispatchOrderObs']
    quick_n = 260
    thorough_n = 9000
    rule = ('programs over <= 8 event names (+ the reserved exception / <name>_failure / registered / generate_events); '
            'handlers (0-3 per name, on two components) with priorities from {-2,-1,-0.5,0,0.5,1,3, 1.0,-0.0,True,False,...}, '
            'bodies of <= 5 actions fire(name,priority[,cancelled|stopped before dispatch]) / event.stop() / flush() / '
            'return <generator> / raise, nesting to depth 7+; main program of fires and flush() or tick() (not running / '
            'running, i.e. with generate_events) calls, fires on up to 3 not yet registered components at arbitrary points '
            'and their register(); half of the cases with components on different channels and events delivered on 1-3 channels; '
            'with and without the dispatch observer handler. non-trivial = some handler fires during '
            'a pass and at least two distinct priority values occur, or a handler calls flush()')
    trusted_base = ['hand-written model Model/DispatchOrder.v tied to /repo by this correspondence run (complete '
                    'fire/dispatch/invoke/stop/generator-return/raise/flush-entry log compared)',
                    'python oracle in harness/c02.py; heapq abstracted to "remove the minimum (priority, counter) key"',
                    'order of equal-priority handlers (python set iteration order) is read from Manager.getHandlers '
                    'and given to the model as input',
                    'definition: fire order of events drained from a registering component = arrival order in the root queue']
    assumptions = ['priorities compare as a total preorder under Python < and == (ints, bools, non-NaN floats)',
                   'all fire() calls come from the thread that flushes (other threads: C03)',
                   'handlers return None or a trivial generator, or raise an Exception (values, task stepping: C04-C06); one root manager']

    def __init__(self):
        self._sched = {}
        self.stats = {'kinds': {}, 'drivers': {}, 'events_per_case': {}, 'max_depth': {}, 'stops': 0,
                      'nested_flush_cases': 0, 'mixed_priority_cases': 0, 'drain_cases': 0, 'generator_returns': 0,
                      'stop_then_generator_return': 0, 'raises': 0, 'cancelled_fires': 0, 'prestopped_fires': 0,
                      'no_observer_cases': 0, 'drained_events': 0}

    # ------------------------------------------------------------------ generator
    def gen_one(self, rng, tier, kind):
        while True:
            nn = rng.randint(2, 8)
            obs = rng.random() < 0.75
            drv = rng.choice(['flush'] * 11 + ['tick'] * 5 + ['tickrun'] * 4)
            raises = obs and rng.random() < 0.45
            modes = rng.random() < 0.5
            # channels: half of the cases put the three components on different channels and deliver events on
            # 1-3 channels (a small pool of channel tuples per name, so that the same (name, channels) cache key
            # recurs, also with the channels in the other order); 'dupy' cases additionally let a handler match
            # several of an event's channels ('*' handlers, '*' or a repeated channel among the channels)
            multi = rng.random() < 0.5
            dupy = multi and rng.random() < 0.2
            if multi:
                chan = rng.sample(['a', 'b', 'd'], 3)
                if rng.random() < 0.2:
                    chan[2] = chan[0]
            else:
                chan = ['c', 'c', 'c']
            distinct = sorted(set(chan))
            pool = {}
            for name in range(nn):
                tuples = []
                for _ in range(rng.randint(1, 3) if multi else 1):
                    q = rng.random()
                    k = 1 if q < 0.45 else (2 if q < 0.85 else 3)
                    t = rng.sample(distinct, min(k, len(distinct)))
                    if dupy and rng.random() < 0.4:
                        t.insert(rng.randint(0, len(t)), rng.choice(['*', t[0]]))
                    elif multi and k == 1 and rng.random() < 0.15:
                        t = ['*']
                    tuples.append(t)
                    if len(t) > 1 and rng.random() < 0.5:
                        tuples.append(t[::-1])
                pool[name] = tuples
            fail = [[n, pool[n][0]] for n in range(nn) if raises and rng.random() < 0.4]
            for n, t in fail:
                pool[n] = [t]
            hid = 0
            handlers = []
            few = rng.random() < 0.3
            pr = rng.sample(PRIOS, rng.randint(2, 4)) if few else PRIOS

            def hprios(k):
                # handlers of one event name: with several channels in play the order of equal-priority handlers is
                # not determined by the property (nor stable under repairs of the union), so they get distinct values
                return rng.sample(DPRIOS, k) if multi else [rng.choice(pr) for _ in range(k)]

            # (handlers sit on the third component only when priorities are distinct: the iteration order of the
            # root's set of children, hence the order of equal-priority handlers, changes when components register)
            def hchan():
                q = rng.random()
                if dupy and q < 0.2:
                    return '*'
                if multi and q < 0.3:
                    return rng.choice(distinct)
                return None

            def fire(tgt):
                a = ['f', tgt, rng.choice(pr), None, rng.choice(pool[tgt])]
                if modes:
                    q = rng.random()
                    if q < 0.12:
                        a[3] = 'c'
                    elif q < 0.24:
                        a[3] = 's'
                return a

            for name in range(nn):
                r = rng.random()
                nh = 0 if r < 0.08 else (1 if r < 0.4 else (2 if r < 0.75 else 3))
                hs = []
                for hp in hprios(nh):
                    body = []
                    for _ in range(rng.choice([0, 1, 1, 2, 2, 3, 4])):
                        q = rng.random()
                        if q < 0.55 and name + 1 < nn:
                            tgt = rng.randint(name + 1, min(nn - 1, name + 2)) if rng.random() < 0.7 else rng.randint(name + 1, nn - 1)
                            body.append(fire(tgt))
                        elif q < 0.78:
                            body.append(['x'])
                        elif q < 0.92:
                            body.append(['s'])
                    # a handler that is a plain function and returns a generator object (coroutine hand-off), or
                    # raises; with and without a preceding stop(); sometimes in mid-body (the rest is dead code)
                    q = rng.random()
                    end = None
                    if raises and q < 0.3:
                        end = ['r']
                    elif q < 0.22 or (q < 0.45 and ['s'] in body):
                        end = ['g', rng.randint(0, 1)]
                    if end:
                        if body and rng.random() < 0.2:
                            body.insert(rng.randint(0, len(body) - 1), end)
                        else:
                            body.append(end)
                    # every third handler does not declare `event` (it stops / hands on the event through the reference)
                    hs.append([hid, hp, rng.randint(0, 2 if multi else 1), body, hchan(), rng.random() < 0.35])
                    hid += 1
                handlers.append([name, hs])
            if raises:      # handlers of the reserved events: they fire nothing (termination) and do not raise
                for rn in [EXC_NAME] + [FAIL_BASE + n for n, _ in fail]:
                    hs = []
                    for hp in hprios(rng.choice([0, 1, 1, 2])):
                        body = [rng.choice([['x'], ['s'], ['g', 1], ['x']]) for _ in range(rng.randint(0, 2))]
                        hs.append([hid, hp, rng.randint(0, 2 if multi else 1), body, hchan()])
                        hid += 1
                    handlers.append([rn, hs])
            prog = []
            for _ in range(rng.randint(1, 7)):
                if rng.random() < 0.8:
                    prog.append(fire(rng.randint(0, min(nn - 1, 2)) if rng.random() < 0.7 else rng.randint(0, nn - 1)))
                else:
                    prog.append(['x'])
            if kind == 'drain':
                # fires on up to three detached components at arbitrary points, each registered later on (or never)
                def cfire(d):
                    n = rng.randint(0, nn - 1)
                    return ['cf', d, n, rng.choice(pr), rng.choice(pool[n])]
                for d in range(rng.randint(1, 3)):
                    pos = sorted(rng.randint(0, len(prog)) for _ in range(rng.randint(1, 4)))
                    for i, p in enumerate(pos):
                        prog.insert(p + i, cfire(d))
                    if rng.random() < 0.9:
                        last = max(i for i, a in enumerate(prog) if a[0] == 'cf' and a[1] == d)
                        prog.insert(rng.randint(last + 1, len(prog)), ['reg', d])
                        if rng.random() < 0.4:
                            prog.append(cfire(d))
            prog += [['x']] * (nn + 3)
            case = {'k': kind, 'obs': obs, 'drv': drv, 'chan': chan, 'fail': fail, 'handlers': handlers, 'prog': prog}
            if est_events(case) <= (160 if tier == "thorough" else 45):
                return case

    def gen_burst(self, rng, n):
        """a burst of n queued events: priorities follow a cycle of 1-3 distinct values; one or two distinguished events
        at the batch-size boundaries / the end with a smaller or larger priority; optionally the first event's handler
        fires an urgent event during the pass"""
        cyc = rng.sample([-1, -0.5, 0, 0.5, 1, 2], rng.choice([1, 1, 2, 3]))
        urgent = rng.choice([-7, -2.5, 0.5]) if rng.random() < 0.65 else None
        spots = [p for p in {n - 1, n // 2, 1022, 1023, 1024, 1025, 2047, 2048, 4095, 4096, 1, 7} if (0 if urgent is None else 1) <= p < n]
        marks = []
        for p in rng.sample(sorted(spots), min(len(spots), rng.choice([1, 1, 2]))):
            marks.append([p, rng.choice([min(cyc) - 1, min(cyc) - 2.5, max(cyc) + 1, cyc[0]])])
        return {'k': 'burst', 'n': n, 'cyc': cyc, 'marks': sorted(marks), 'urgent': urgent, 'flushes': rng.choice([2, 3])}

    def generate(self, rng, n, tier):
        cases = []
        for i in range(n):
            cases.append(self.gen_one(rng, tier, 'drain' if rng.random() < 0.2 else 'prog'))
        # large batches ("any number of events"): a handful per run, at the end of the list
        big = [1000, 1023, 1024, 1025, 2048, 5000]
        sizes = rng.sample(big, 4) + [rng.randint(8, 64) for _ in range(2)]
        if tier == 'thorough':
            sizes = big * 5 + [rng.randint(1026, 6000) for _ in range(10)] + [rng.randint(2, 64) for _ in range(20)]
        for b in sizes:
            cases.append(self.gen_burst(rng, b))
        return cases

    # ------------------------------------------------------------------ implementation driver
    def impl(self, c0):
        if c0.get('k') == 'burst':
            self.stats['burst_cases'] = self.stats.get('burst_cases', 0) + 1
            self.stats['burst_events'] = self.stats.get('burst_events', 0) + c0['n']
            return run_burst(c0)
        c = norm(c0)
        ctx = Ctx(c)
        root, child, dets = build(ctx, c)
        order = base_order(root, c)
        if order != base_order(root, c):
            raise RuntimeError('getHandlers order is not reproducible')
        self._sched[common.canon(c0)] = order
        self._ge = getattr(self, '_ge', {})
        ctx.log[:] = []
        registered = [False] * len(dets)
        pend = [[] for _ in dets]
        drained = 0
        running = c['drv'] == 'tickrun' and hasattr(root, '_running')
        self._ge[common.canon(c0)] = running
        try:
            if running:
                root._running = True          # what run() does before its tick() loop
            for a in c['prog']:
                if a[0] == 'cf':
                    d = a[1]
                    if registered[d]:
                        do_fire(ctx, dets[d], a[2], a[3], None, a[4])
                    else:                     # sits in the component's own queue until register()
                        pend[d].append((do_fire(ctx, dets[d], a[2], a[3], None, a[4], log=False), a[2], a[3], a[4]))
                elif a[0] == 'reg':
                    d = a[1]
                    if not registered[d]:
                        dets[d].register(root)    # drains its queue into root's, then fires registered(det, root)
                        registered[d] = True
                        for e, name, prio, chans in pend[d]:     # arrival in the root queue = their fire order
                            e.c02_id = ctx.next_id
                            ctx.next_id += 1
                            ctx.log.append([0, e.c02_id, name, key2(prio), list(chans)])
                            drained += 1
                        pend[d] = []
                        ctx.reg_ids[id(dets[d])] = ctx.next_id
                        ctx.log.append([0, ctx.next_id, REG_NAME, 0, [c['chan'][0]]])
                        ctx.next_id += 1
                elif a[0] == 'x':
                    if running:               # tick() fires generate_events before it flushes
                        ctx.ge_id = ctx.next_id
                        ctx.next_id += 1
                        ctx.log.append([0, ctx.ge_id, GE_NAME, 0, ['*']])
                    do_flush(ctx, root, 'flush' if c['drv'] == 'flush' else 'tick')
                else:
                    run_body(ctx, root, [a], None, None, None)
        finally:
            if running:
                root._running = False
        for _ in range(3):           # let the returned generators (tasks) run to their end
            root.tick(0)
        final = [0, 0, len(root)]   # [model crashed, model stack left, queue length]
        st = self.stats
        log = ctx.log
        st['kinds'][c['k']] = st['kinds'].get(c['k'], 0) + 1
        st['drivers'][c['drv']] = st['drivers'].get(c['drv'], 0) + 1
        ne = sum(1 for e in log if e[0] in (0, 11, 12))
        b = min(ne // 10 * 10, 90)
        st['events_per_case'][str(b)] = st['events_per_case'].get(str(b), 0) + 1
        md = max([e[3] for e in log if e[0] == 1] + [0])
        st['max_depth'][str(md)] = st['max_depth'].get(str(md), 0) + 1
        st['stops'] += sum(1 for e in log if e[0] == 2)
        st['generator_returns'] += sum(1 for e in log if e[0] == 9)
        stopped = {(e[1], e[2]) for e in log if e[0] == 2}
        st['stop_then_generator_return'] += sum(1 for e in log if e[0] == 9 and (e[1], e[2]) in stopped)
        st['raises'] += sum(1 for e in log if e[0] == 10)
        st['cancelled_fires'] += sum(1 for e in log if e[0] == 11)
        st['prestopped_fires'] += sum(1 for e in log if e[0] == 12)
        st['drained_events'] += drained
        noev = {h[0] for _, hs in c['handlers'] for h in hs if len(h) > 5 and h[5]}
        st['stops_by_handlers_without_event_param'] = st.get('stops_by_handlers_without_event_param', 0) + sum(1 for e in log if e[0] == 2 and e[2] in noev)
        st['multichannel_fires'] = st.get('multichannel_fires', 0) + sum(1 for e in log if e[0] in (0, 11, 12) and len(e[4]) > 1)
        st['multichannel_cases'] = st.get('multichannel_cases', 0) + (1 if len(set(c['chan'])) > 1 else 0)
        if not c['obs']:
            st['no_observer_cases'] += 1
        if md > 1:
            st['nested_flush_cases'] += 1
        if len({e[3] for e in log if e[0] in (0, 11, 12)}) > 1:
            st['mixed_priority_cases'] += 1
        if c['k'] == 'drain':
            st['drain_cases'] += 1
        res = {'log': log, 'final': final}
        self._obs = getattr(self, '_obs', {})
        self._obs[common.canon(c0)] = res
        return res

    # ------------------------------------------------------------------ model
    @staticmethod
    def _chs(idx, chans):
        return '[%s]' % ';'.join(str(idx[ch]) for ch in chans)

    def _fire(self, idx, name, prio, mode, chans):
        return '%s %d (%d) %s' % ({None: 'F', 'c': 'FC', 's': 'FS'}[mode], name, key2(prio), self._chs(idx, chans))

    def _body(self, c, idx, body, name, fail):
        out = []
        for a in body:
            if a[0] == 'f':
                out.append(self._fire(idx, a[1], a[2], a[3], a[4]))
            elif a[0] == 'x':
                out.append('X')
            elif a[0] == 's':
                out.append('P')
            elif a[0] == 'g':
                out.append('G')
            elif a[0] == 'r':
                fs = ['(%d, %s)' % (FAIL_BASE + name, self._chs(idx, fail[name]))] if name in fail else []
                fs.append('(%d, %s)' % (EXC_NAME, self._chs(idx, [c['chan'][0]])))
                out.append('RA [%s]' % '; '.join(fs))
        return '[%s]' % '; '.join(out)

    def _prog(self, c, idx, running):
        """the main program in arrival order: fires on a detached component count at its register()"""
        out = []
        registered, pend = {}, {}
        for a in c['prog']:
            if a[0] == 'f':
                out.append(self._fire(idx, a[1], a[2], a[3], a[4]))
            elif a[0] == 'cf':
                if registered.get(a[1]):
                    out.append(self._fire(idx, a[2], a[3], None, a[4]))
                else:
                    pend.setdefault(a[1], []).append(self._fire(idx, a[2], a[3], None, a[4]))
            elif a[0] == 'reg':
                if not registered.get(a[1]):
                    registered[a[1]] = True
                    out.extend(pend.pop(a[1], []))
                    out.append('F %d 0 %s' % (REG_NAME, self._chs(idx, [c['chan'][0]])))
            elif a[0] == 'x':
                if running:
                    out.append('F %d 0 %s' % (GE_NAME, self._chs(idx, ['*'])))
                out.append('X')
        return '[%s]' % '; '.join(out)

    def model_term(self, c0):
        if c0.get('k') == 'burst':
            zl = lambda l: '[%s]' % '; '.join('(%d)' % key2(x) for x in l)
            marks = '[%s]' % '; '.join('(%d, (%d))' % (p, key2(k)) for p, k in c0['marks'])
            urg = 'None' if c0['urgent'] is None else '(Some (%d))' % key2(c0['urgent'])
            args = '%d%%N %s %s %s %d%%nat' % (c0['n'], zl(c0['cyc']), marks, urg, c0['flushes'])
            if c0['n'] <= 64:         # small bursts run the machine itself; large ones its specification (C02_pass_exact)
                return 'obs_burst %s 100000%%N' % args
            return 'obs_burst_spec %s' % args
        key = common.canon(c0)
        if key not in self._sched:
            self.safe_impl(c0)
        order = self._sched.get(key)
        if order is None:
            return None
        obsd = getattr(self, '_obs', {}).get(key)
        if obsd is not None:
            # a case on which the implementation shows the recorded open finding is not compared with the model of
            # the repaired dispatcher; it is reported through the oracle as KNOWN-FINDING (DESIGN 3.5)
            w = self.oracle(c0, obsd)
            if w and self.finding_class(c0, obsd, w):
                return None
        c = norm(c0)
        idx = chan_index(c)
        fail = {n: chs for n, chs in c['fail']}
        obs = 'H %d (%d) []' % (OBS_HID, key2(OBS_PRIO))
        names = []
        rows, ords = [], []
        for name, hs in c['handlers']:
            names.append(name)
            hl = ['H %d (%d) %s' % (h[0], key2(h[1]), self._body(c, idx, h[3], name, fail)) for h in hs]
            if c['obs']:
                hl.insert(0, obs)
            rows.append('R %d [%s]' % (name, '; '.join(hl)))
        if c['obs']:          # the observer is a handler of every event, also of the ones the core fires
            for name in [GE_NAME, EXC_NAME, REG_NAME] + [FAIL_BASE + n for n in sorted(fail)]:
                if name not in names:
                    names.append(name)
                    rows.append('R %d [%s]' % (name, obs))
        for name in names:     # getHandlers(event, channel) order per (name, channel), as read from the implementation
            for ch, i in sorted(idx.items(), key=lambda t: t[1]):
                ids = list(order.get('%d/%s' % (name, ch), []))
                if c['obs']:
                    ids.insert(0, OBS_HID)
                if ids:
                    ords.append('O %d %d [%s]' % (name, i, ';'.join(map(str, ids))))
        return 'obs_run [%s] [%s] %d%%nat %s' % ('; '.join(rows), '; '.join(ords), est_steps(c),
                                                 self._prog(c, idx, self._ge.get(key, c['drv'] == 'tickrun')))

    def obs_for_model(self, c, obs):
        if isinstance(obs, dict) and '__crash__' in obs:
            return [-999]
        if c.get('k') == 'burst':
            return [obs['digest'], obs['passes'], obs['final']]
        return [[pack(e) for e in obs['log'] if e[0] not in (3, 5)], obs['final']]

    # ------------------------------------------------------------------ oracle: the property read on the log
    def oracle(self, c0, obs):
        if isinstance(obs, dict) and '__crash__' in obs:
            return None
        if c0.get('k') == 'burst':
            if obs['pass_rule']:
                return obs['pass_rule']
            return 'queue not empty after the flushes' if obs['final'][2] else None
        c = norm(c0)
        log = obs['log']
        has_obs = c['obs']
        hprio, hname, byname = {}, {}, {}
        for name, hs in c['handlers']:
            byname[name] = [h[0] for h in hs]
            for h in hs:
                hprio[h[0]] = h[1]
                hname[h[0]] = name
        hrec = {h[0]: h for _, hs in c['handlers'] for h in hs}
        fired = {}            # eid -> (name, 2*priority, fire index, mode)
        chans_of = {}         # eid -> channels the event is delivered on

        def want(eid):
            # the handlers of the event: those of its name that listen on at least one of its channels
            return [h for h in byname.get(fired[eid][0], []) if any(matches(c, hrec[h], ch) for ch in chans_of[eid])]
        queued, pending = [], []
        dispatched, invoked, stopped_by = set(), {}, {}
        frames = [{'h': None, 'inflush': 0}]

        def invisible(eid):
            # a cancelled event is popped without any handler; without the observer an event that has no
            # handler is popped unseen as well.  Nothing of the program runs while that happens.
            name, _, _, mode = fired[eid]
            return mode == 'c' or (not has_obs and not want(eid))

        def strip():
            while pending and invisible(pending[0]):
                dispatched.add(pending.pop(0))

        def dispatch(eid):
            if not frames[-1]['inflush']:
                return 'event %d dispatched outside of a flush() call (inside fire() or a handler body)' % eid
            if eid in dispatched:
                return 'event %d dispatched twice' % eid
            if eid not in fired:
                return 'event %d dispatched but never fired' % eid
            if fired[eid][3] == 'c':
                return 'a handler ran for event %d although it was cancelled before its dispatch' % eid
            strip()
            if not pending or pending[0] != eid:
                if eid in queued and pending:
                    return ('event %d, fired after the current pass began, was dispatched before %r that were queued '
                            'when the pass began' % (eid, pending))
                if eid in queued:
                    return ('event %d, fired after the current pass began, was dispatched by that same pass '
                            '(no new flush pass had begun)' % eid)
                return 'event %d dispatched out of order: the pass requires %r next (priority, then fire order)' % (eid, pending[:3])
            pending.pop(0)
            dispatched.add(eid)
            invoked[eid] = []
            return None

        for idx, e in enumerate(log):
            t = e[0]
            if t == 7:
                return 'fire() ran a handler re-entrantly (log entry %d)' % idx
            if t == 8:
                return 'fire()/flush()/tick() raised %s (log entry %d)' % (e[1], idx)
            if t in (0, 11, 12):
                if e[1] in fired:
                    return 'event id %d fired twice' % e[1]
                fired[e[1]] = (e[2], e[3], len(fired), {0: None, 11: 'c', 12: 's'}[t])
                chans_of[e[1]] = e[4] if len(e) > 4 else ['c']
                queued.append(e[1])
            elif t == 4:
                frames[-1]['inflush'] += 1
                if not pending:           # a new pass begins: it takes what is queued now
                    pending = sorted(queued, key=lambda i: (fired[i][1], fired[i][2]))
                    queued = []
            elif t == 5:
                strip()
                if pending:
                    return 'flush() returned while events %r of the current pass were not dispatched' % pending
                frames[-1]['inflush'] -= 1
            elif t == 6:
                what = dispatch(e[1])
                if what:
                    return what
            elif t == 1:
                eid, hid, d = e[1], e[2], e[3]
                if eid is None:
                    return 'handler %d invoked for an event the driver did not fire' % hid
                if not has_obs and eid not in invoked:
                    what = dispatch(eid)      # without the observer the first handler shows the dispatch
                    if what:
                        return what
                if not frames[-1]['inflush']:
                    return 'handler %d invoked re-entrantly (not from a flush() call)' % hid
                if d != len(frames):
                    return 'handler %d runs at nesting depth %d, expected %d' % (hid, d, len(frames))
                if eid not in invoked:
                    return 'handler %d invoked for event %r that was not dispatched' % (hid, eid)
                if hname.get(hid) != fired[eid][0]:
                    return 'handler %d (for %s) invoked for event %d named %s' % (
                        hid, evname(hname.get(hid, 0)), eid, evname(fired[eid][0]))
                if eid in stopped_by:
                    g = stopped_by[eid]
                    if hprio[hid] < hprio[g]:
                        return 'handler %d (priority %r) ran for event %d after handler %d (priority %r) called stop()' % (
                            hid, hprio[hid], eid, g, hprio[g])
                    return 'handler %d ran for event %d after stop() was called by handler %d' % (hid, eid, g)
                if hid in invoked[eid]:
                    return 'handler %d invoked twice for event %d' % (hid, eid)
                if hid not in want(eid):
                    return 'handler %d invoked for event %d delivered on %r, none of which it listens on' % (hid, eid, chans_of[eid])
                if invoked[eid] and hprio[invoked[eid][-1]] < hprio[hid]:
                    return 'handler %d (priority %r) ran after handler %d (priority %r) for event %d' % (
                        hid, hprio[hid], invoked[eid][-1], hprio[invoked[eid][-1]], eid)
                invoked[eid].append(hid)
                frames.append({'h': (eid, hid), 'inflush': 0})
            elif t == 3:
                if frames[-1]['h'] != (e[1], e[2]):
                    return 'handler return does not match the running handler'
                frames.pop()
            elif t == 2:
                stopped_by.setdefault(e[1], e[2])
            elif t in (9, 10):
                if frames[-1]['h'] != (e[1], e[2]):
                    return 'generator returned / exception raised by a handler that is not the running one'
        if len(frames) != 1:
            return 'run ended inside a handler'
        strip()
        for eid in fired:
            name, _, _, mode = fired[eid]
            if eid not in dispatched:
                return 'event %d (%s) was fired but not dispatched by the %d following flush passes' % (
                    eid, evname(name), sum(1 for a in c['prog'] if a[0] == 'x'))
            want_ = want(eid)
            got = invoked.get(eid, [])
            if mode == 'c':
                if got:
                    return 'handlers %r ran for the cancelled event %d' % (got, eid)
            elif mode == 's':
                pass      # stop() from outside before the dispatch: the statement does not speak about it
            elif eid in stopped_by:
                g = stopped_by[eid]
                missing = [h for h in want_ if hprio[h] > hprio[g] and h not in got]
                if missing:
                    return 'handlers %r of higher priority than the stopping handler %d did not run for event %d' % (missing, g, eid)
            elif sorted(got) != sorted(want_):
                return 'event %d (never stopped) on %r: handlers invoked %r, listening %r' % (eid, chans_of[eid], got, want_)
        if obs['final'][2] != 0:
            return 'queue not empty after the final flushes'
        return None

    def finding_class(self, c0, obs, what):
        if c0.get('k') == 'burst':
            return None
        """C02-multichannel-twice: a handler that matches several of the channels an event is delivered on (a '*'
        handler, '*' or a repeated channel among the channels) is invoked once per matching channel"""
        import re
        m = re.match(r'handler (\d+) invoked twice for event (\d+)$', what or '')
        if not m or isinstance(obs, dict) and '__crash__' in obs:
            return None
        c = norm(c0)
        hid, eid = int(m.group(1)), int(m.group(2))
        hrec = {h[0]: h for _, hs in c['handlers'] for h in hs}
        chans = next((e[4] for e in obs['log'] if e[0] in (0, 11, 12) and e[1] == eid and len(e) > 4), None)
        if hid in hrec and chans and sum(1 for ch in chans if matches(c, hrec[hid], ch)) >= 2:
            return 'C02-multichannel-twice'
        return None

    def nontrivial(self, c, obs):
        if isinstance(obs, dict) and '__crash__' in obs:
            return False
        if c.get('k') == 'burst':
            return True
        log = obs['log']
        depth, inner_fire = 0, False
        for e in log:
            if e[0] == 1:
                depth += 1
            elif e[0] == 3:
                depth -= 1
            elif e[0] in (0, 11, 12) and depth > 0:
                inner_fire = True
        mixed = len({e[3] for e in log if e[0] in (0, 11, 12)}) > 1
        nested = any(e[0] == 1 and e[3] > 1 for e in log)
        return (inner_fire and mixed) or nested

    def search(self, rng, tier):
        for b in (1025, 2048, 1024, 5000, 40):
            yield self.gen_burst(rng, b)
        for i in range(3000):
            yield self.gen_one(rng, 'quick', 'drain' if i % 5 == 0 else 'prog')


if __name__ == '__main__':
    sys.exit(common.main(C02()))
