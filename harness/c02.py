"""C02 — dispatch order: priority then FIFO per pass; handler priority; stop().

Cases are programs: a table of handlers (event name -> handlers with a priority and a straight-line body of
fire(name, priority[, cancelled | stopped-before-dispatch]) / event.stop() / flush() / return <generator> / raise
actions) and a main program of fires, flush()/tick() calls, fires on not yet registered components and register().
The same program is run through the real Manager and through the Coq model (Model/DispatchOrder.v); the complete log
of fire / dispatch / handler invocation (with nesting depth) / stop / generator return / raise / flush entry is
compared.  The oracle re-reads the property on the implementation log.

Definition used throughout (it is a definition, not a finding): the *fire order* of events that sat in the queue of a
not yet registered component is their *arrival order in the root queue*, i.e. they count as fired at the moment of
register(), in the order they were fired on that component, followed by the `registered` event.  The driver therefore
numbers and logs them at register() time; the model program has them at that point.
"""
import sys, os
sys.path.insert(0, os.path.dirname(os.path.abspath(__file__)))
import common
from common import Prop

from circuits import BaseComponent, Event, handler

# priority values used for events and handlers: ints, floats, negative, equal-but-different-type values
PRIOS = [-2, -1, -0.5, 0, 0.5, 1, 3, 1.0, -0.0, True, 0.0, -1.0, 2, False]
GE_NAME = 97             # model names of the events the core fires itself: generate_events (tick() while running),
EXC_NAME = 98            # exception (a handler raised),
REG_NAME = 99            # registered (register()),
FAIL_BASE = 100          # <name>_failure = FAIL_BASE + name (a handler raised and event.failure is set)
OBS_HID = 999            # the harness' dispatch observer: a catch-all handler that runs before every generated one
OBS_PRIO = 1000


def evname(n):
    if n == GE_NAME:
        return 'generate_events'
    if n == EXC_NAME:
        return 'exception'
    if n == REG_NAME:
        return 'registered'
    if n >= FAIL_BASE:
        return 'e%d_failure' % (n - FAIL_BASE)
    return 'e%d' % n


def key2(p):
    """order-preserving map of the generated priorities to integers (model keys)"""
    k = 2 * p
    assert k == int(k)
    return int(k)


def pack(e):
    """one log entry -> one integer, the same packing as Model/DispatchOrderObs.v pack"""
    t = e[0]
    a = b = c = 0
    if t in (0, 11, 12):
        a, b, c = e[1], e[2], e[3] + 1000
    elif t == 1:
        a, b, c = e[1], e[2], e[3]
    elif t in (2, 3, 9, 10):
        a, b = e[1], e[2]
    elif t == 6:
        a = e[1]
    assert 0 <= a < 1024 and 0 <= b < 1024 and 0 <= c < 2048, e
    return t + 16 * (a + 1024 * (b + 1024 * c))


def norm(c):
    """upgrade cases written in the first format (one detached component, no modes) to the current one"""
    if 'drv' in c and 'obs' in c and 'fail' in c:
        return c
    c = dict(c)
    c.setdefault('drv', 'flush')
    c.setdefault('obs', True)
    c.setdefault('fail', [])
    prog = []
    for a in c['prog']:
        if a[0] == 'cf' and len(a) == 3:
            a = ['cf', 0, a[1], a[2]]
        elif a[0] == 'reg' and len(a) == 1:
            a = ['reg', 0]
        prog.append(a)
    c['prog'] = prog
    return c


class C02Raise(Exception):
    pass


class Ctx:
    def __init__(self, case):
        self.log = []
        self.depth = 0
        self.next_id = 0
        self.reg_ids = {}        # id(component) -> id of the `registered` event its register() fired
        self.ge_id = None
        self.fail = set(case['fail'])


def do_fire(ctx, comp, name, prio, mode=None, log=True):
    e = Event.create(evname(name))
    if name in ctx.fail:
        e.failure = True
    if mode == 's':
        e.stop()                  # stopped from outside, before it is dispatched
    if log:
        e.c02_id = ctx.next_id
        ctx.next_id += 1
        ctx.log.append([{None: 0, 'c': 11, 's': 12}[mode], e.c02_id, name, key2(prio)])
    n = len(ctx.log)
    d = ctx.depth
    try:
        comp.fire(e, priority=prio)
    except Exception as ex:  # fire() must not fail
        ctx.log.append([8, type(ex).__name__])
    if len(ctx.log) != n or ctx.depth != d:
        ctx.log.append([7])      # something ran inside fire(): re-entrancy
    if mode == 'c':
        e.cancel()                # cancelled right after fire(), i.e. before any dispatch
    return e


def make_gen(nyields):
    """a trivial coroutine body: logs nothing, fires nothing"""
    for _ in range(nyields):
        yield


def do_flush(ctx, comp, how):
    ctx.log.append([4])
    try:
        if how == 'flush':
            comp.flush()
        else:
            comp.tick(0)          # tasks, [generate_events if running,] then one flush() if anything is queued
    except Exception as ex:
        ctx.log.append([8, type(ex).__name__])
    ctx.log.append([5])


def run_body(ctx, comp, body, eid, hid, event, name=None):
    """-> None, or the generator object the handler returns (action 'g'); action 'r' raises"""
    for a in body:
        if a[0] == 'g':
            if event is None:
                continue
            ctx.log.append([9, eid, hid])
            return make_gen(a[1])      # `return <generator>`: the rest of the body never runs
        if a[0] == 'r':
            if event is None:
                continue
            # the dispatcher's except clause fires [<name>_failure,] exception right after this raise; they are
            # numbered here (nothing can happen in between) and recognised by the ids the exception carries
            ctx.log.append([10, eid, hid])
            ex = C02Raise()
            ex.c02_fail_id = ex.c02_exc_id = None
            if name in ctx.fail:
                ex.c02_fail_id = ctx.next_id
                ctx.next_id += 1
                ctx.log.append([0, ex.c02_fail_id, FAIL_BASE + name, 0])
            ex.c02_exc_id = ctx.next_id
            ctx.next_id += 1
            ctx.log.append([0, ex.c02_exc_id, EXC_NAME, 0])
            raise ex
        if a[0] == 'f':
            do_fire(ctx, comp, a[1], a[2], a[3] if len(a) > 3 else None)
        elif a[0] == 's':
            if event is not None:
                event.stop()
                ctx.log.append([2, eid, hid])
        elif a[0] == 'x':
            do_flush(ctx, comp, 'flush')
        else:
            raise ValueError(a)


def make_fn(ctx, hid, body, name):
    def fn(self, event, *args, **kw):
        eid = getattr(event, 'c02_id', None)
        ctx.depth += 1
        ctx.log.append([1, eid, hid, ctx.depth])
        try:
            return run_body(ctx, self, body, eid, hid, event, name)
        finally:
            ctx.log.append([3, eid, hid])
            ctx.depth -= 1
    fn.__name__ = 'h%d' % hid
    fn.c02_hid = hid
    return fn


def build(ctx, case):
    """-> (root, child, [detached components]).  Handlers are spread over root (comp 0) and a registered child."""
    members = [{'channel': 'c'}, {'channel': 'c'}]
    for name, hs in case['handlers']:
        for hid, prio, comp, body in hs:
            members[comp]['h%d' % hid] = handler(evname(name), priority=prio)(make_fn(ctx, hid, body, name))

    def observer(self, event, *args, **kw):
        eid = getattr(event, 'c02_id', None)
        if eid is None:          # events fired by the core itself: find the id the driver gave them
            try:
                if event.name == 'registered':
                    eid = ctx.reg_ids.get(id(event.args[0]))
                elif event.name == 'generate_events':
                    eid = ctx.ge_id
                elif event.name == 'exception':
                    eid = getattr(event.args[1], 'c02_exc_id', None)
                elif event.name.endswith('_failure'):
                    eid = getattr(event.args[1][1], 'c02_fail_id', None)
            except Exception:
                eid = None
            if eid is not None:
                event.c02_id = eid
        if eid is not None:
            ctx.log.append([6, eid])
    observer.__name__ = 'c02_observer'
    observer.c02_hid = -1
    if case['obs']:
        members[0]['c02_observer'] = handler(priority=OBS_PRIO)(observer)
    R = type('R', (BaseComponent,), members[0])
    S = type('S', (BaseComponent,), members[1])
    D = type('D', (BaseComponent,), {'channel': 'c'})
    root = R()
    child = S().register(root)
    for _ in range(50):
        if not len(root):
            break
        root.flush()
    return root, child, [D(), D(), D()]


def base_order(root, case):
    """the order in which getHandlers hands the handlers of each event name to sorted(): python set
    iteration order, i.e. nondeterminism the property does not speak about; given to the model as input"""
    out = {}
    for name, hs in case['handlers']:
        ev = Event.create(evname(name))
        got = [getattr(h, 'c02_hid', None) for h in root.getHandlers(ev, 'c')]
        out[name] = [h for h in got if h is not None and h >= 0]
    return out


def est_events(case):
    """upper bound of the number of events of a program (ignores stop(), dead code)"""
    table = {name: hs for name, hs in case['handlers']}
    memo = {}

    def cnt(n):
        if n not in memo:
            memo[n] = 1 + sum((cnt(a[1]) if a[0] == 'f' else 2 if a[0] == 'r' else 0)
                              for (_, _, _, body) in table.get(n, []) for a in body)
        return memo[n]
    tot = 0
    for a in case['prog']:
        if a[0] == 'f':
            tot += cnt(a[1])
        elif a[0] == 'cf':
            tot += cnt(a[2])
        elif a[0] in ('reg', 'x'):
            tot += 1
    return tot


def est_steps(case):
    worst = max([sum(5 + 2 * len(b) for (_, _, _, b) in hs) for _, hs in case['handlers']] + [0])
    return 100 + 8 * len(case['prog']) + est_events(case) * (10 + worst)


class C02(Prop):
    id = 'C02'
    props_file = 'Props/C02.v'
    imports = ['Model.DispatchOrder', 'Model.DispatchOrderObs']
    quick_n = 260
    thorough_n = 9000
    rule = ('programs over <= 8 event names (+ the reserved exception / <name>_failure / registered / generate_events); '
            'handlers (0-3 per name, on two components) with priorities from {-2,-1,-0.5,0,0.5,1,3, 1.0,-0.0,True,False,...}, '
            'bodies of <= 5 actions fire(name,priority[,cancelled|stopped before dispatch]) / event.stop() / flush() / '
            'return <generator> / raise, nesting to depth 7+; main program of fires and flush() or tick() (not running / '
            'running, i.e. with generate_events) calls, fires on up to 3 not yet registered components at arbitrary points '
            'and their register(); with and without the dispatch observer handler. non-trivial = some handler fires during '
            'a pass and at least two distinct priority values occur, or a handler calls flush()')
    trusted_base = ['hand-written model Model/DispatchOrder.v tied to /repo by this correspondence run (complete '
                    'fire/dispatch/invoke/stop/generator-return/raise/flush-entry log compared)',
                    'python oracle in harness/c02.py; heapq abstracted to "remove the minimum (priority, counter) key"',
                    'order of equal-priority handlers (python set iteration order) is read from Manager.getHandlers '
                    'and given to the model as input',
                    'definition: fire order of events drained from a registering component = arrival order in the root queue']
    assumptions = ['priorities compare as a total preorder under Python < and == (ints, bools, non-NaN floats)',
                   'all fire() calls come from the thread that flushes (other threads: C03)',
                   'handlers return None or a trivial generator, or raise an Exception (values, task stepping: C04-C06); one root manager']

    def __init__(self):
        self._sched = {}
        self.stats = {'kinds': {}, 'drivers': {}, 'events_per_case': {}, 'max_depth': {}, 'stops': 0,
                      'nested_flush_cases': 0, 'mixed_priority_cases': 0, 'drain_cases': 0, 'generator_returns': 0,
                      'stop_then_generator_return': 0, 'raises': 0, 'cancelled_fires': 0, 'prestopped_fires': 0,
                      'no_observer_cases': 0, 'drained_events': 0}

    # ------------------------------------------------------------------ generator
    def gen_one(self, rng, tier, kind):
        while True:
            nn = rng.randint(2, 8)
            obs = rng.random() < 0.75
            drv = rng.choice(['flush'] * 11 + ['tick'] * 5 + ['tickrun'] * 4)
            raises = obs and rng.random() < 0.45
            modes = rng.random() < 0.5
            fail = [n for n in range(nn) if raises and rng.random() < 0.4]
            hid = 0
            handlers = []
            few = rng.random() < 0.3
            pr = rng.sample(PRIOS, rng.randint(2, 4)) if few else PRIOS

            def fire(tgt):
                a = ['f', tgt, rng.choice(pr)]
                if modes:
                    q = rng.random()
                    if q < 0.12:
                        a.append('c')
                    elif q < 0.24:
                        a.append('s')
                return a

            for name in range(nn):
                r = rng.random()
                nh = 0 if r < 0.08 else (1 if r < 0.4 else (2 if r < 0.75 else 3))
                hs = []
                for _ in range(nh):
                    body = []
                    for _ in range(rng.choice([0, 1, 1, 2, 2, 3, 4])):
                        q = rng.random()
                        if q < 0.55 and name + 1 < nn:
                            tgt = rng.randint(name + 1, min(nn - 1, name + 2)) if rng.random() < 0.7 else rng.randint(name + 1, nn - 1)
                            body.append(fire(tgt))
                        elif q < 0.78:
                            body.append(['x'])
                        elif q < 0.92:
                            body.append(['s'])
                    # a handler that is a plain function and returns a generator object (coroutine hand-off), or
                    # raises; with and without a preceding stop(); sometimes in mid-body (the rest is dead code)
                    q = rng.random()
                    end = None
                    if raises and q < 0.3:
                        end = ['r']
                    elif q < 0.22 or (q < 0.45 and ['s'] in body):
                        end = ['g', rng.randint(0, 1)]
                    if end:
                        if body and rng.random() < 0.2:
                            body.insert(rng.randint(0, len(body) - 1), end)
                        else:
                            body.append(end)
                    hs.append([hid, rng.choice(pr), rng.randint(0, 1), body])
                    hid += 1
                handlers.append([name, hs])
            if raises:      # handlers of the reserved events: they fire nothing (termination) and do not raise
                for rn in [EXC_NAME] + [FAIL_BASE + n for n in fail]:
                    hs = []
                    for _ in range(rng.choice([0, 1, 1, 2])):
                        body = [rng.choice([['x'], ['s'], ['g', 1], ['x']]) for _ in range(rng.randint(0, 2))]
                        hs.append([hid, rng.choice(pr), rng.randint(0, 1), body])
                        hid += 1
                    handlers.append([rn, hs])
            prog = []
            for _ in range(rng.randint(1, 7)):
                if rng.random() < 0.8:
                    prog.append(fire(rng.randint(0, min(nn - 1, 2)) if rng.random() < 0.7 else rng.randint(0, nn - 1)))
                else:
                    prog.append(['x'])
            if kind == 'drain':
                # fires on up to three detached components at arbitrary points, each registered later on (or never)
                for d in range(rng.randint(1, 3)):
                    pos = sorted(rng.randint(0, len(prog)) for _ in range(rng.randint(1, 4)))
                    for i, p in enumerate(pos):
                        prog.insert(p + i, ['cf', d, rng.randint(0, nn - 1), rng.choice(pr)])
                    if rng.random() < 0.9:
                        last = max(i for i, a in enumerate(prog) if a[0] == 'cf' and a[1] == d)
                        prog.insert(rng.randint(last + 1, len(prog)), ['reg', d])
                        if rng.random() < 0.4:
                            prog.append(['cf', d, rng.randint(0, nn - 1), rng.choice(pr)])
            prog += [['x']] * (nn + 3)
            case = {'k': kind, 'obs': obs, 'drv': drv, 'fail': fail, 'handlers': handlers, 'prog': prog}
            if est_events(case) <= (160 if tier == "thorough" else 45):
                return case

    def generate(self, rng, n, tier):
        cases = []
        for i in range(n):
            cases.append(self.gen_one(rng, tier, 'drain' if rng.random() < 0.2 else 'prog'))
        return cases

    # ------------------------------------------------------------------ implementation driver
    def impl(self, c0):
        c = norm(c0)
        ctx = Ctx(c)
        root, child, dets = build(ctx, c)
        order = base_order(root, c)
        if order != base_order(root, c):
            raise RuntimeError('getHandlers order is not reproducible')
        self._sched[common.canon(c0)] = order
        self._ge = getattr(self, '_ge', {})
        ctx.log[:] = []
        registered = [False] * len(dets)
        pend = [[] for _ in dets]
        drained = 0
        running = c['drv'] == 'tickrun' and hasattr(root, '_running')
        self._ge[common.canon(c0)] = running
        try:
            if running:
                root._running = True          # what run() does before its tick() loop
            for a in c['prog']:
                if a[0] == 'cf':
                    d = a[1]
                    if registered[d]:
                        do_fire(ctx, dets[d], a[2], a[3])
                    else:                     # sits in the component's own queue until register()
                        pend[d].append((do_fire(ctx, dets[d], a[2], a[3], log=False), a[2], a[3]))
                elif a[0] == 'reg':
                    d = a[1]
                    if not registered[d]:
                        dets[d].register(root)    # drains its queue into root's, then fires registered(det, root)
                        registered[d] = True
                        for e, name, prio in pend[d]:     # arrival in the root queue = their fire order
                            e.c02_id = ctx.next_id
                            ctx.next_id += 1
                            ctx.log.append([0, e.c02_id, name, key2(prio)])
                            drained += 1
                        pend[d] = []
                        ctx.reg_ids[id(dets[d])] = ctx.next_id
                        ctx.log.append([0, ctx.next_id, REG_NAME, 0])
                        ctx.next_id += 1
                elif a[0] == 'x':
                    if running:               # tick() fires generate_events before it flushes
                        ctx.ge_id = ctx.next_id
                        ctx.next_id += 1
                        ctx.log.append([0, ctx.ge_id, GE_NAME, 0])
                    do_flush(ctx, root, 'flush' if c['drv'] == 'flush' else 'tick')
                else:
                    run_body(ctx, root, [a], None, None, None)
        finally:
            if running:
                root._running = False
        for _ in range(3):           # let the returned generators (tasks) run to their end
            root.tick(0)
        final = [0, 0, len(root)]   # [model crashed, model stack left, queue length]
        st = self.stats
        log = ctx.log
        st['kinds'][c['k']] = st['kinds'].get(c['k'], 0) + 1
        st['drivers'][c['drv']] = st['drivers'].get(c['drv'], 0) + 1
        ne = sum(1 for e in log if e[0] in (0, 11, 12))
        b = min(ne // 10 * 10, 90)
        st['events_per_case'][str(b)] = st['events_per_case'].get(str(b), 0) + 1
        md = max([e[3] for e in log if e[0] == 1] + [0])
        st['max_depth'][str(md)] = st['max_depth'].get(str(md), 0) + 1
        st['stops'] += sum(1 for e in log if e[0] == 2)
        st['generator_returns'] += sum(1 for e in log if e[0] == 9)
        stopped = {(e[1], e[2]) for e in log if e[0] == 2}
        st['stop_then_generator_return'] += sum(1 for e in log if e[0] == 9 and (e[1], e[2]) in stopped)
        st['raises'] += sum(1 for e in log if e[0] == 10)
        st['cancelled_fires'] += sum(1 for e in log if e[0] == 11)
        st['prestopped_fires'] += sum(1 for e in log if e[0] == 12)
        st['drained_events'] += drained
        if not c['obs']:
            st['no_observer_cases'] += 1
        if md > 1:
            st['nested_flush_cases'] += 1
        if len({e[3] for e in log if e[0] in (0, 11, 12)}) > 1:
            st['mixed_priority_cases'] += 1
        if c['k'] == 'drain':
            st['drain_cases'] += 1
        return {'log': log, 'final': final}

    # ------------------------------------------------------------------ model
    @staticmethod
    def _fire(name, prio, mode=None):
        return '%s %d (%d)' % ({None: 'F', 'c': 'FC', 's': 'FS'}[mode], name, key2(prio))

    def _body(self, body, name, fail):
        out = []
        for a in body:
            if a[0] == 'f':
                out.append(self._fire(a[1], a[2], a[3] if len(a) > 3 else None))
            elif a[0] == 'x':
                out.append('X')
            elif a[0] == 's':
                out.append('P')
            elif a[0] == 'g':
                out.append('G')
            elif a[0] == 'r':
                out.append('RA (%d)' % (FAIL_BASE + name if name in fail else -1))
        return '[%s]' % '; '.join(out)

    def _prog(self, c, running):
        """the main program in arrival order: fires on a detached component count at its register()"""
        out = []
        registered, pend = {}, {}
        for a in c['prog']:
            if a[0] == 'f':
                out.append(self._fire(a[1], a[2], a[3] if len(a) > 3 else None))
            elif a[0] == 'cf':
                if registered.get(a[1]):
                    out.append(self._fire(a[2], a[3]))
                else:
                    pend.setdefault(a[1], []).append(self._fire(a[2], a[3]))
            elif a[0] == 'reg':
                if not registered.get(a[1]):
                    registered[a[1]] = True
                    out.extend(pend.pop(a[1], []))
                    out.append('F %d 0' % REG_NAME)
            elif a[0] == 'x':
                if running:
                    out.append('F %d 0' % GE_NAME)
                out.append('X')
        return '[%s]' % '; '.join(out)

    def model_term(self, c0):
        key = common.canon(c0)
        if key not in self._sched:
            self.safe_impl(c0)
        order = self._sched.get(key)
        if order is None:
            return None
        c = norm(c0)
        fail = set(c['fail'])
        obs = 'H %d (%d) []' % (OBS_HID, key2(OBS_PRIO))
        rows, seen = [], set()
        for name, hs in c['handlers']:
            seen.add(name)
            byid = {h[0]: h for h in hs}
            ids = [i for i in order.get(name, []) if i in byid]
            ids += [h[0] for h in hs if h[0] not in ids]      # (handlers the implementation did not report)
            hl = ['H %d (%d) %s' % (i, key2(byid[i][1]), self._body(byid[i][3], name, fail)) for i in ids]
            if c['obs']:
                hl.insert(0, obs)
            rows.append('R %d [%s]' % (name, '; '.join(hl)))
        if c['obs']:          # the observer is a handler of every event, also of the ones the core fires
            for name in [GE_NAME, EXC_NAME, REG_NAME] + [FAIL_BASE + n for n in sorted(fail)]:
                if name not in seen:
                    rows.append('R %d [%s]' % (name, obs))
        return 'obs_run [%s] %d%%nat %s' % ('; '.join(rows), est_steps(c), self._prog(c, self._ge.get(key, c['drv'] == 'tickrun')))

    def obs_for_model(self, c, obs):
        if isinstance(obs, dict) and '__crash__' in obs:
            return [-999]
        return [[pack(e) for e in obs['log'] if e[0] not in (3, 5)], obs['final']]

    # ------------------------------------------------------------------ oracle: the property read on the log
    def oracle(self, c0, obs):
        if isinstance(obs, dict) and '__crash__' in obs:
            return None
        c = norm(c0)
        log = obs['log']
        has_obs = c['obs']
        hprio, hname, byname = {}, {}, {}
        for name, hs in c['handlers']:
            byname[name] = [h[0] for h in hs]
            for h in hs:
                hprio[h[0]] = h[1]
                hname[h[0]] = name
        fired = {}            # eid -> (name, 2*priority, fire index, mode)
        queued, pending = [], []
        dispatched, invoked, stopped_by = set(), {}, {}
        frames = [{'h': None, 'inflush': 0}]

        def invisible(eid):
            # a cancelled event is popped without any handler; without the observer an event that has no
            # handler is popped unseen as well.  Nothing of the program runs while that happens.
            name, _, _, mode = fired[eid]
            return mode == 'c' or (not has_obs and not byname.get(name))

        def strip():
            while pending and invisible(pending[0]):
                dispatched.add(pending.pop(0))

        def dispatch(eid):
            if not frames[-1]['inflush']:
                return 'event %d dispatched outside of a flush() call (inside fire() or a handler body)' % eid
            if eid in dispatched:
                return 'event %d dispatched twice' % eid
            if eid not in fired:
                return 'event %d dispatched but never fired' % eid
            if fired[eid][3] == 'c':
                return 'a handler ran for event %d although it was cancelled before its dispatch' % eid
            strip()
            if not pending or pending[0] != eid:
                if eid in queued and pending:
                    return ('event %d, fired after the current pass began, was dispatched before %r that were queued '
                            'when the pass began' % (eid, pending))
                if eid in queued:
                    return ('event %d, fired after the current pass began, was dispatched by that same pass '
                            '(no new flush pass had begun)' % eid)
                return 'event %d dispatched out of order: the pass requires %r next (priority, then fire order)' % (eid, pending[:3])
            pending.pop(0)
            dispatched.add(eid)
            invoked[eid] = []
            return None

        for idx, e in enumerate(log):
            t = e[0]
            if t == 7:
                return 'fire() ran a handler re-entrantly (log entry %d)' % idx
            if t == 8:
                return 'fire()/flush()/tick() raised %s (log entry %d)' % (e[1], idx)
            if t in (0, 11, 12):
                if e[1] in fired:
                    return 'event id %d fired twice' % e[1]
                fired[e[1]] = (e[2], e[3], len(fired), {0: None, 11: 'c', 12: 's'}[t])
                queued.append(e[1])
            elif t == 4:
                frames[-1]['inflush'] += 1
                if not pending:           # a new pass begins: it takes what is queued now
                    pending = sorted(queued, key=lambda i: (fired[i][1], fired[i][2]))
                    queued = []
            elif t == 5:
                strip()
                if pending:
                    return 'flush() returned while events %r of the current pass were not dispatched' % pending
                frames[-1]['inflush'] -= 1
            elif t == 6:
                what = dispatch(e[1])
                if what:
                    return what
            elif t == 1:
                eid, hid, d = e[1], e[2], e[3]
                if eid is None:
                    return 'handler %d invoked for an event the driver did not fire' % hid
                if not has_obs and eid not in invoked:
                    what = dispatch(eid)      # without the observer the first handler shows the dispatch
                    if what:
                        return what
                if not frames[-1]['inflush']:
                    return 'handler %d invoked re-entrantly (not from a flush() call)' % hid
                if d != len(frames):
                    return 'handler %d runs at nesting depth %d, expected %d' % (hid, d, len(frames))
                if eid not in invoked:
                    return 'handler %d invoked for event %r that was not dispatched' % (hid, eid)
                if hname.get(hid) != fired[eid][0]:
                    return 'handler %d (for %s) invoked for event %d named %s' % (
                        hid, evname(hname.get(hid, 0)), eid, evname(fired[eid][0]))
                if eid in stopped_by:
                    g = stopped_by[eid]
                    if hprio[hid] < hprio[g]:
                        return 'handler %d (priority %r) ran for event %d after handler %d (priority %r) called stop()' % (
                            hid, hprio[hid], eid, g, hprio[g])
                    return 'handler %d ran for event %d after stop() was called by handler %d' % (hid, eid, g)
                if hid in invoked[eid]:
                    return 'handler %d invoked twice for event %d' % (hid, eid)
                if invoked[eid] and hprio[invoked[eid][-1]] < hprio[hid]:
                    return 'handler %d (priority %r) ran after handler %d (priority %r) for event %d' % (
                        hid, hprio[hid], invoked[eid][-1], hprio[invoked[eid][-1]], eid)
                invoked[eid].append(hid)
                frames.append({'h': (eid, hid), 'inflush': 0})
            elif t == 3:
                if frames[-1]['h'] != (e[1], e[2]):
                    return 'handler return does not match the running handler'
                frames.pop()
            elif t == 2:
                stopped_by.setdefault(e[1], e[2])
            elif t in (9, 10):
                if frames[-1]['h'] != (e[1], e[2]):
                    return 'generator returned / exception raised by a handler that is not the running one'
        if len(frames) != 1:
            return 'run ended inside a handler'
        strip()
        for eid in fired:
            name, _, _, mode = fired[eid]
            if eid not in dispatched:
                return 'event %d (%s) was fired but not dispatched by the %d following flush passes' % (
                    eid, evname(name), sum(1 for a in c['prog'] if a[0] == 'x'))
            want = byname.get(name, [])
            got = invoked.get(eid, [])
            if mode == 'c':
                if got:
                    return 'handlers %r ran for the cancelled event %d' % (got, eid)
            elif mode == 's':
                pass      # stop() from outside before the dispatch: the statement does not speak about it
            elif eid in stopped_by:
                g = stopped_by[eid]
                missing = [h for h in want if hprio[h] > hprio[g] and h not in got]
                if missing:
                    return 'handlers %r of higher priority than the stopping handler %d did not run for event %d' % (missing, g, eid)
            elif sorted(got) != sorted(want):
                return 'event %d (never stopped): handlers invoked %r, registered %r' % (eid, got, want)
        if obs['final'][2] != 0:
            return 'queue not empty after the final flushes'
        return None

    def nontrivial(self, c, obs):
        if isinstance(obs, dict) and '__crash__' in obs:
            return False
        log = obs['log']
        depth, inner_fire = 0, False
        for e in log:
            if e[0] == 1:
                depth += 1
            elif e[0] == 3:
                depth -= 1
            elif e[0] in (0, 11, 12) and depth > 0:
                inner_fire = True
        mixed = len({e[3] for e in log if e[0] in (0, 11, 12)}) > 1
        nested = any(e[0] == 1 and e[3] > 1 for e in log)
        return (inner_fire and mixed) or nested

    def search(self, rng, tier):
        for i in range(3000):
            yield self.gen_one(rng, 'quick', 'drain' if i % 5 == 0 else 'prog')


if __name__ == '__main__':
    sys.exit(common.main(C02()))
