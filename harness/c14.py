"""C14 — any bytes on an HTTP connection: wait, one valid (error) response, or close; never a crash;
nothing retained after disconnect.

Driver: the real circuits.web.http.HTTP component + Dispatcher + a Controller on a Manager that is flushed in the
checking thread; connections are fake sockets (subclass of socket.socket, as HTTP._on_exception demands).  The
partial operations on the read path are traced at their call sites (module globals of circuits.web.http are
shadowed for the duration of one case: is_ssl_handshake, HttpParser.execute, wrappers.Request, int) and the
recorded answers instantiate the oracles of Model/HttpRobust.v; the correspondence compares, per operation, the
sequence of call sites consulted, the effects (reject / response / close / dispatch) and the membership of the socket
in the component's per-connection tables (found behaviourally, not by attribute name: see `membership`).  The oracle reads the property statement directly off the bytes written to the
socket (decoded by http.client), the events, stderr and the tables, and knows nothing of the model.
"""
import sys, os, io, re, socket, collections, http.client
sys.path.insert(0, os.path.dirname(os.path.abspath(__file__)))
import common
from common import Prop

from circuits import Manager, BaseComponent, handler, Event
from circuits.net.events import read, disconnect
from circuits.web import Controller
from circuits.web.dispatchers import Dispatcher
import circuits.web.http as webhttp
from circuits.web.http import HTTP
from urllib.parse import quote

RealParser = webhttp.HttpParser
RealWrappers = webhttp.wrappers
RealSsl = webhttp.is_ssl_handshake

TAG = {'ssl': 1, 'exec': 2, 'errreq': 3, 'req': 4, 'int': 5, 'excreq': 6}


def l1(b):
    return bytes(b).decode('latin-1')


# ----------------------------------------------------------------------------- doubles
class FakeSock(socket.socket):
    calls = 0           # getpeername() calls in the current case
    gone_after = None   # fault injection: the peer has gone away, getpeername() raises ENOTCONN from this call on

    def __init__(self, n):
        self.n = n

    def getpeername(self):
        FakeSock.calls += 1
        if FakeSock.gone_after is not None and FakeSock.calls > FakeSock.gone_after:
            raise OSError(107, 'Transport endpoint is not connected')
        return ('127.0.0.1', 5000 + self.n)

    def __hash__(self):
        return id(self)

    def __eq__(self, o):
        return self is o

    def close(self):
        pass

    def __del__(self):
        pass

    def __repr__(self):
        return '<fake socket %d>' % self.n


class FakeServer(BaseComponent):
    channel = 'web'
    host = '127.0.0.1'
    port = 8000
    secure = False
    display_banner = False


class Root(Controller):
    def index(self, **k):          # exactly '/': other paths are answered 404 by the dispatcher
        return 'ok'

    def echo(self, *a, **k):
        return self.request.body.read() or b'-'


class ping(Event):
    """probe event: the loop still dispatches after the case"""


class Probe(BaseComponent):
    channel = 'web'

    def __init__(self):
        super().__init__()
        self.log = []
        self.keep = []

    @handler('request', priority=100)
    def _rq(self, event, req, res, *a):
        self.keep.append(req)              # keeps id(req) unique for the whole case
        self.log.append(['request', id(req), req.method, getattr(req.sock, 'n', -1)])

    @handler('httperror', priority=100)
    def _he(self, event, req, res, code=None, **kw):
        self.keep.append(req)
        self.log.append(['httperror', id(req), int(event.code), req.method, getattr(req.sock, 'n', -1)])

    @handler('response', priority=100)
    def _rs(self, res, *a):
        # runs before HTTP._on_response: the method decides whether a body follows the header section
        self.log.append(['response', getattr(res.request, 'method', None), getattr(res.request.sock, 'n', -1)])

    @handler('response', priority=-100)
    def _rs_after(self, res, *a):
        # runs after HTTP._on_response (which calls prepare()): the header fields the server meant to send, in order
        try:
            fields = [[str(k), str(v)] for k, v in res.headers.items()]
        except Exception:
            fields = None
        self.log.append(['sent', getattr(res.request.sock, 'n', -1), fields])

    @handler('write', priority=100)
    def _w(self, sock, data):
        self.log.append(['write', sock.n, bytes(data)])

    @handler('close', priority=100)
    def _c(self, sock):
        self.log.append(['close', sock.n])

    @handler('exception', channel='*', priority=100)
    def _e(self, etype, evalue, tb, handler=None, fevent=None):
        self.log.append(['exception', etype.__name__, getattr(fevent, 'name', None)])
        Trace.calls.append(['EXC', getattr(fevent, 'c14_index', -1)])
        Trace.phase = 'exc'

    @handler('read', priority=100)
    def _rd(self, event, sock, data):
        # bursts: everything the component consults until the next marker belongs to this read
        Trace.calls.append(['READ', getattr(event, 'c14_index', -1)])
        Trace.phase = 'read'

    @handler('ping')
    def _p(self):
        self.log.append(['pong'])


ROUNDS = 60         # flush rounds granted to one operation (a read settles in < 10)
QUEUE_MAX = 300     # ... and queue length: an exponential event storm is cut off early


def drain(m):
    for _ in range(ROUNDS):
        n = len(m)
        if not n:
            return True
        if n > QUEUE_MAX:
            return False
        m.flush()
    return not len(m)


# ----------------------------------------------------------------------------- tracing (driver side only)
class Trace:
    calls = []          # [tag, answer] in call order, for the current operation
    parser = None       # the parser whose execute() ran last
    req = None          # the Request built by the main path in this operation
    acc = False         # parser accessors were evaluated for a Request(...) call in this operation
    pcode = None        # head_code of the parser after the execute() of this operation
    phase = 'read'      # 'read' while a read event is being handled, 'exc' while an exception event is
    built = []          # every Request the component built in this case (kept alive)


def head_code(p, raised):
    """the parser's decision about the head of the message, as Model/HttpRobustObs.verdict_code numbers it"""
    if p.is_headers_complete():
        return 3
    if p.errno is not None:
        return 1 + int(p.errno) if int(p.errno) < 2 else 4
    return 9 if raised else 0


def classify_parser(pieces):
    """a fresh real parser fed piece by piece until it has decided"""
    p = RealParser(0, True)
    fed = b''
    code = 0
    for d in pieces:
        fed += d
        try:
            p.execute(d, len(d))
            code = head_code(p, False)
        except Exception:
            code = head_code(p, True)
        if code != 0:
            break
    return fed, code


class TParser(RealParser):
    def get_method(self):
        Trace.acc = True        # first accessor evaluated for the arguments of either Request(...) call in _on_read
        Trace.calls.append(['ACC', None])
        return super().get_method()

    def execute(self, data, length):
        Trace.parser = self
        try:
            r = super().execute(data, length)
        except BaseException:
            Trace.calls.append(['exec', None])
            Trace.pcode = head_code(self, True)
            raise
        Trace.pcode = head_code(self, False)
        e = self.errno
        Trace.calls.append(['exec', [bool(self.is_headers_complete()), [] if e is None else [int(e)],
                                      bool(self.is_message_complete())]])
        return r


def t_ssl(buf):
    try:
        r = RealSsl(buf)
    except BaseException:
        Trace.calls.append(['ssl', None])
        raise
    Trace.calls.append(['ssl', bool(r)])
    return r


def t_int(*a, **k):
    try:
        r = int(*a, **k)
    except BaseException:
        Trace.calls.append(['int', None])
        raise
    Trace.calls.append(['int', r])
    return r


# ----------------------------------------------------------------------------- per-connection state, name-independent
def _is_parser(v):
    return isinstance(v, RealParser) or (hasattr(v, 'execute') and hasattr(v, 'is_headers_complete'))


def _is_pair(v):
    return isinstance(v, (tuple, list)) and len(v) == 2 and \
        (isinstance(v[0], RealWrappers.Request) or isinstance(v[1], RealWrappers.Response))


def membership(component, sock):
    """-> (in the parser table, in the request/response table, anywhere, the pair if any).
    The tables are whatever container attributes of the component hold HttpParser instances resp. (request, response)
    pairs; `anywhere` = the socket is a key / member of ANY container attribute (the 'no state retained' clause)."""
    in_p = in_c = anywhere = False
    pair = None
    for name, val in list(vars(component).items()):
        try:
            if isinstance(val, dict):
                if sock in val:
                    anywhere = True
                    v = val[sock]
                    if _is_parser(v):
                        in_p = True
                    elif _is_pair(v):
                        in_c, pair = True, v
            elif isinstance(val, (list, set, frozenset, tuple, collections.deque)):
                if any(x is sock for x in val):
                    anywhere = True
        except Exception:
            continue
    return in_p, in_c, anywhere, pair


class WrappersShim:
    """stands for the module circuits.web.wrappers inside circuits.web.http"""

    def __getattr__(self, name):
        return getattr(RealWrappers, name)

    @staticmethod
    def Request(*a, **k):
        # call site: while an exception event is being handled -> the exception handler's Request; else, in a read handler,
        # with the parsed header table -> the main path, without -> the 400 path (no handler / helper names involved)
        tag = 'excreq' if Trace.phase == 'exc' else ('req' if k.get('headers') is not None else 'errreq')
        try:
            r = RealWrappers.Request(*a, **k)
        except BaseException:
            Trace.calls.append([tag, None])
            raise
        Trace.built.append(r)
        try:
            r.c14_tag = tag
        except Exception:
            pass
        if tag == 'req':
            p = Trace.parser
            te = r.headers.get('Transfer-Encoding')
            Trace.req = r
            hv = r.headers.get('Host', '') or ''
            Trace.calls.append([tag, [list(r.protocol) + [r.method == 'HEAD', any(c <= ' ' or c == '\x7f' for c in hv)],
                                      bool(r.headers.get('Host')),
                                      te is not None and te.lower() == 'chunked',
                                      bool(p.should_keep_alive()) if p is not None else False,
                                      False]])
        elif tag == 'errreq':
            Trace.calls.append([tag, list(r.protocol) + [r.method == 'HEAD']])
        else:
            Trace.calls.append([tag, True])
        return r


def install():
    webhttp.HttpParser = TParser
    webhttp.wrappers = WrappersShim()
    webhttp.is_ssl_handshake = t_ssl
    webhttp.int = t_int


def uninstall():
    webhttp.HttpParser = RealParser
    webhttp.wrappers = RealWrappers
    webhttp.is_ssl_handshake = RealSsl
    if 'int' in webhttp.__dict__:
        del webhttp.__dict__['int']


def path_answer(req, enc='utf-8'):
    """the path guard of _on_read replayed on the request the component built"""
    try:
        path, _path = req.path, req.uri._path
        canon = not ((path.encode(enc) != _path) and (quote(path).encode(enc) != _path))
    except Exception:
        return None
    return 'canon' if canon else 'redirect'


# ----------------------------------------------------------------------------- independent response decoder
class _Keep(io.BytesIO):
    def close(self):
        pass


class _FS:
    def __init__(self, f):
        self.f = f

    def makefile(self, *a, **k):
        return self.f


STATUS_LINE = re.compile(rb'^HTTP/(\d)\.(\d) (\d{3}) [^\r\n\x00]*$')
HEADER_LINE = re.compile(rb"^[!#$%&'*+\-.^_`|~0-9A-Za-z]+:[ \t]*[^\x00-\x08\x0a-\x1f\x7f]*$")


def decode_responses(data, methods, intended=None):
    """bytes written to one socket during one operation -> ([[status, major, minor, says_close, problem|None]...])"""
    out = []
    k = 0
    while data:
        problem = None
        head_end = data.find(b'\r\n\r\n')
        if head_end < 0:
            return out + [[0, 0, 0, False, 'no end of header section in %r' % data[:60], False]]
        lines = data[:head_end].split(b'\r\n')
        m = STATUS_LINE.match(lines[0])
        if not m:
            problem = 'status line %r is not HTTP/d.d ddd reason' % lines[0][:60]
        # the head carries exactly the header lines the server set: nothing reflected from the request adds a line
        if intended is not None and k < len(intended) and intended[k] is not None:
            exp = intended[k]
            if len(lines) - 1 != len(exp):
                problem = problem or ('header-injection: the response head has %d header lines but the server set %d fields; lines %r' % (
                    len(lines) - 1, len(exp), [ln[:40] for ln in lines[1:]][-4:]))
            else:
                for ln, (name, val) in zip(lines[1:], exp):
                    if not ln.lower().startswith(name.lower().encode('latin-1', 'replace') + b':'):
                        problem = problem or 'header-injection: header line %r is not the field %r the server set' % (ln[:60], name)
        for ln in lines[1:]:
            if not HEADER_LINE.match(ln):
                problem = problem or 'header line %r is not field-name: value' % ln[:60]
        f = _Keep(data)
        try:
            r = http.client.HTTPResponse(_FS(f), method=methods[k] if k < len(methods) else None)
            r.begin()
            body = r.read()
        except Exception as e:
            return out + [[int(m.group(3)) if m else 0, int(m.group(1)) if m else 0, int(m.group(2)) if m else 0,
                           False, problem or 'http.client rejects the response: %s %s' % (type(e).__name__, str(e)[:80]), False]]
        conn = (r.getheader('Connection') or '').lower()
        says_close = ('close' in conn) if r.version == 11 else ('keep-alive' not in conn)
        if r.getheader('Content-Length') is None and (r.getheader('Transfer-Encoding') or '').lower() != 'chunked' \
                and not says_close and r.status >= 200 and r.status not in (204, 304) and (k >= len(methods) or methods[k] != 'HEAD'):
            problem = problem or 'response is not self-delimiting and does not say close'
        # the body only has to be "some bytes of the announced length" (nothing is claimed about the error page's HTML)
        cl = r.getheader('Content-Length')
        head_only = k < len(methods) and methods[k] == 'HEAD'
        framed = head_only or (r.getheader('Transfer-Encoding') or '').lower() == 'chunked' or \
            (cl is not None and cl.isdigit() and int(cl) == len(body))
        if r.status >= 300 and not head_only and (cl is None or not cl.isdigit() or int(cl) != len(body)):
            problem = problem or 'error response announces Content-Length %r but carries %d body bytes' % (cl, len(body))
        out.append([r.status, int(m.group(1)) if m else 0, int(m.group(2)) if m else 0, bool(says_close), problem, bool(framed)])
        rest = f.read()
        data = rest
        k += 1
    return out


# ----------------------------------------------------------------------------- the driver
def run_case(case):
    install()
    FakeSock.calls, FakeSock.gone_after = 0, case.get('gone')
    Trace.built = []
    old_err = sys.stderr
    sys.stderr = err = io.StringIO()
    try:
        m = Manager()
        srv = FakeServer()
        srv.secure = bool(case.get('secure'))
        srv.register(m)
        httpc = HTTP(srv).register(m)
        srv.http = httpc
        Dispatcher().register(m)
        Root().register(m)
        probe = Probe().register(m)
        stuck = not drain(m)
        socks = {}
        steps = []
        dispatched = set()
        seen_bytes, poisoned = {}, {}
        todo = [list(o) for o in case['ops']]
        while todo:
            o = todo.pop(0)
            kind, n = o[0], o[1]
            s = socks.setdefault(n, FakeSock(n))
            n0 = len(probe.log)
            Trace.calls, Trace.req, Trace.acc, Trace.pcode = [], None, False, None
            held = membership(httpc, s)[3]
            if kind == 'r':
                m.fire(read(s, o[2].encode('latin-1')), 'web')
            else:
                m.fire(disconnect(s), 'web')
            if not drain(m):
                stuck = True
            Trace.calls = [c for c in Trace.calls if c[0] not in ('READ', 'EXC', 'ACC')]     # markers used by the burst driver only
            # the statement `req = wrappers.Request(sock, parser.get_method(), parser.get_scheme(), ...)` can raise while its
            # arguments are evaluated (parser.get_scheme() on a parser that never saw a valid request line): same oracle
            tags = [t for t, _ in Trace.calls]
            if Trace.acc and 'excreq' in tags and tags.index('excreq') > 0 and tags[tags.index('excreq') - 1] == 'exec' \
                    and Trace.calls[tags.index('exec')][1] is not None:
                hc_now = Trace.calls[tags.index('exec')][1][0]
                Trace.calls.insert(tags.index('excreq'), ['req' if hc_now else 'errreq', None])
            new = probe.log[n0:]
            effs, methods, wbytes, prev = [], [], b'', None
            problems = []
            for rec in new:
                if rec[0] == 'request':
                    dispatched.add(rec[1])
                    effs.append([4])
                elif rec[0] == 'response':
                    methods.append(rec[1])
                elif rec[0] == 'httperror':
                    if rec[1] not in dispatched:
                        effs.append([1, rec[2]])
                elif rec[0] == 'write':
                    if rec[1] != n:
                        problems.append('write to another socket (%d) while serving %d' % (rec[1], n))
                    if prev != 'write':
                        effs.append(['W'])
                    wbytes += rec[2]
                elif rec[0] == 'close':
                    if rec[1] != n:
                        problems.append('close of another socket (%d) while serving %d' % (rec[1], n))
                    effs.append([3])
                elif rec[0] == 'exception':
                    effs.append(['X', rec[1], rec[2]])
                prev = rec[0]
            resps = decode_responses(wbytes, methods, [rec[2] for rec in new if rec[0] == 'sent'])
            slots = [i for i, e in enumerate(effs) if e == ['W']]
            if len(slots) == len(resps):
                for k, (i, r) in enumerate(zip(slots, resps)):
                    effs[i] = [2, r[0], r[1], r[2], r[3], k < len(methods) and methods[k] == 'HEAD', r[5]]
            else:
                problems.append('%d runs of writes but %d responses decoded' % (len(slots), len(resps)))
                for i in slots:
                    effs[i] = [7, len(slots), len(resps)]
            for r in resps:
                if r[4]:
                    problems.append(r[4])
            # oracle answers for the model
            req = Trace.req or (held[0] if held else None)
            pa = path_answer(req) if req is not None else None
            app = 0
            if any(e[0] == 'X' and e[2] == 'request' for e in effs):
                app = None                                  # a handler of the request event raised
            for i, e in enumerate(effs if app is not None else []):
                if e == [4]:
                    for e2 in effs[i + 1:]:
                        if e2[0] == 2:
                            app = e2[1]
                            break
            # the application answered through an httperror event (the dispatcher's notfound ...): that forces close
            app_via_error = any(rec[0] == 'httperror' and rec[1] in dispatched for rec in new)
            in_p, in_c, in_any, _ = membership(httpc, s)
            # bytes the connection's parser has been given since it was created (a new parser is created exactly when the
            # TLS test is consulted); compared with Model classify while short and while no fault is injected
            head = None
            if kind == 'r':
                fresh = any(t == 'ssl' for t, _ in Trace.calls)
                seen_bytes[n] = (b'' if fresh else seen_bytes.get(n, b'')) + o[2].encode('latin-1')
                if Trace.pcode is not None and len(seen_bytes[n]) <= 300 and case.get('gone') is None and not poisoned.get(n):
                    head = [l1(seen_bytes[n]), Trace.pcode]
                if Trace.pcode in (1, 2, 9):
                    poisoned[n] = in_p      # a parser that survives its own error is outside classify
                elif fresh:
                    poisoned[n] = False
            else:
                seen_bytes.pop(n, None)
                poisoned.pop(n, None)
            steps.append({'head': head,'op': [kind, n] + ([o[2]] if kind == 'r' else []) + (['auto'] if kind == 'd' and len(o) > 2 else []),
                          'tag': o[3] if kind == 'r' and len(o) > 3 else '',
                          'calls': Trace.calls, 'path': pa, 'app': app, 'app_err': app_via_error,
                          'effs': effs[:40], 'n_effs': len(effs), 'state': [in_p, in_c], 'anywhere': in_any, 'problems': problems,
                          'wrote': len(wbytes)})
            if stuck:
                break                                   # the loop does not come to rest: nothing more to learn
            if [3] in effs and kind == 'r':
                todo.insert(0, ['d', n, 'auto'])       # the server disconnects a socket it closed
        n0 = len(probe.log)
        pong = False
        if not stuck:
            m.fire(ping(), 'web')
            drain(m)
            pong = ['pong'] in probe.log[n0:]
        extra = [r[0] for r in probe.log[n0:] if r[0] != 'pong'][:10]
        final = [len([1 for s in socks.values() if membership(httpc, s)[0]]), len([1 for s in socks.values() if membership(httpc, s)[1]])]
        open_socks = sorted(n for n, s in socks.items() if membership(httpc, s)[2])
    finally:
        sys.stderr = old_err
        uninstall()
        FakeSock.gone_after = None
    return {'steps': steps, 'pong': pong, 'after_ping': extra, 'stuck': stuck, 'stderr': err.getvalue()[-400:],
            'final': final, 'retained_for': open_socks}


def run_burst(case):
    """all operations queued before the loop runs; the recorded answers instantiate Model burst (phase1 / phase2)"""
    install()
    FakeSock.calls, FakeSock.gone_after = 0, None
    Trace.calls, Trace.req, Trace.acc, Trace.pcode, Trace.built = [], None, False, None, []
    old_err = sys.stderr
    sys.stderr = err = io.StringIO()
    try:
        m = Manager()
        srv = FakeServer()
        srv.secure = bool(case.get('secure'))
        srv.register(m)
        httpc = HTTP(srv).register(m)
        srv.http = httpc
        Dispatcher().register(m)
        Root().register(m)
        probe = Probe().register(m)
        stuck = not drain(m)
        socks = {}
        Trace.calls = []
        for i, o in enumerate(case['ops']):
            s = socks.setdefault(o[1], FakeSock(o[1]))
            e = read(s, o[2].encode('latin-1')) if o[0] == 'r' else disconnect(s)
            e.c14_index = i
            m.fire(e, 'web')
        if not drain(m):
            stuck = True
        # per read: the call sites consulted by its handler and by the exception handler that served it
        per_read, cur = {}, None
        for c in Trace.calls:
            if c[0] in ('READ', 'EXC'):
                cur = c[1]
            elif cur is not None and cur >= 0:
                per_read.setdefault(cur, []).append(c)
        reads = []
        last_req = {}
        built = list(Trace.built)
        for i, o in enumerate(case['ops']):
            if o[0] != 'r':
                last_req.pop(o[1], None)      # a disconnect drops the pair
                continue
            calls = per_read.get(i, [])
            tg = [t for t, _ in calls if t != 'ACC']
            if any(t == 'ACC' for t, _ in calls) and 'excreq' in tg and tg.index('excreq') > 0 and tg[tg.index('excreq') - 1] == 'exec':
                calls = [c for c in calls if c[0] != 'ACC']
                ex = calls[tg.index('exec')][1]
                if ex is not None:        # the Request(...) statement raised while its arguments were evaluated (see run_case)
                    calls.insert(tg.index('excreq'), ['req' if ex[0] else 'errreq', None])
            calls = [c for c in calls if c[0] != 'ACC']
            reads.append({'i': i, 'sock': o[1], 'calls': calls, 'path': None})
        # the Request each read built on the main path, in order of construction
        main_reqs = [r for r in built if getattr(r, 'c14_tag', None) == 'req']
        k = 0
        for rd in reads:
            if any(t == 'req' and a is not None for t, a in rd['calls']):
                if k < len(main_reqs):
                    last_req[rd['sock']] = main_reqs[k]
                k += 1
            rq = last_req.get(rd['sock'])
            rd['path'] = path_answer(rq) if rq is not None else None
        written, methods, closes, excs = {}, {}, {}, []
        keys = {}
        prev = None
        seen_req = set()
        for rec in probe.log:
            if rec[0] == 'request':
                seen_req.add(rec[1])
                keys.setdefault(rec[3], []).append(4000000)
            elif rec[0] == 'httperror' and rec[1] not in seen_req:
                keys.setdefault(rec[4], []).append(1000000 + rec[2])
            elif rec[0] == 'close':
                keys.setdefault(rec[1], []).append(3000000)
        app_statuses = set()
        for rec in probe.log:
            if rec[0] == 'response':
                methods.setdefault(rec[2], []).append(rec[1])
            elif rec[0] == 'write':
                written[rec[1]] = written.get(rec[1], b'') + rec[2]
            elif rec[0] == 'close':
                closes[rec[1]] = closes.get(rec[1], 0) + 1
            elif rec[0] == 'exception':
                excs.append([rec[1], rec[2]])
        problems = []
        nresp = {}
        for n, data in sorted(written.items()):
            rs = decode_responses(data, methods.get(n, []), [rec[2] for rec in probe.log if rec[0] == 'sent' and rec[1] == n])
            nresp[str(n)] = [r[:4] for r in rs]
            problems += ['connection %d: %s' % (n, r[4]) for r in rs if r[4]]
            for k2, r in enumerate(rs):
                ver = 0 if (r[1], r[2]) == (1, 0) else (1 if (r[1], r[2]) == (1, 1) else 2)
                hd = k2 < len(methods.get(n, [])) and methods[n][k2] == 'HEAD'
                keys.setdefault(n, []).append(2000000 + ((r[0] * 10 + ver) * 8 + (4 if r[3] else 0) + (2 if hd else 0) + (1 if r[5] else 0)))
                if r[0] < 300:
                    app_statuses.add(r[0])
        n0 = len(probe.log)
        pong = False
        if not stuck:
            m.fire(ping(), 'web')
            drain(m)
            pong = ['pong'] in probe.log[n0:]
        gone = [o[1] for o in case['ops'] if o[0] == 'd']
        retained = sorted(n for n, s in socks.items() if n in gone and
                          membership(httpc, s)[2])
        state = {str(n): list(membership(httpc, s)[:2]) for n, s in socks.items()}
    finally:
        sys.stderr = old_err
        uninstall()
    return {'burst': True, 'reads': [{'i': r['i'], 'sock': r['sock'], 'calls': r['calls'], 'path': r['path']} for r in reads],
            'keys': {str(n): sorted(v) for n, v in keys.items()}, 'state': state, 'app_statuses': sorted(app_statuses),
            'responses': nresp, 'problems': problems, 'exceptions': excs, 'pong': pong, 'stuck': stuck,
            'stderr': err.getvalue()[-400:], 'retained_for': retained,
            'requests': len([r for r in probe.log if r[0] == 'request'])}


# ----------------------------------------------------------------------------- generator
def req_bytes(method='GET', target='/', version='HTTP/1.1', headers=None, body=b''):
    h = [('Host', 'localhost:8000')] if headers is None else headers
    s = ('%s %s %s\r\n' % (method, target, version)).encode('latin-1')
    for k, v in h:
        s += ('%s: %s\r\n' % (k, v)).encode('latin-1')
    return s + b'\r\n' + body


def chunked(parts):
    return b''.join(b'%x\r\n%s\r\n' % (len(p), p) for p in parts) + b'0\r\n\r\n'


def bases(rng):
    """well-formed requests: (bytes, kind)"""
    body = bytes(rng.choice(b'abcxyz0189 ') for _ in range(rng.randint(1, 12)))
    conn = rng.choice([[], [('Connection', 'close')], [('Connection', 'keep-alive')]])
    host = [('Host', rng.choice(['localhost:8000', 'localhost', 'example.org:81']))]
    return [
        (req_bytes('GET', rng.choice(['/', '/echo', '/?a=1&b=2', '/nothere']), headers=host + conn), 'get'),
        (req_bytes('GET', '/', 'HTTP/1.0', headers=conn), 'get10'),
        (req_bytes('HEAD', rng.choice(['/', '/echo', '/nothere']), headers=host + conn), 'head'),
        (req_bytes('POST', '/echo', headers=host + [('Content-Length', str(len(body)))] + conn, body=body), 'post-cl'),
        (req_bytes('POST', '/echo', headers=host + [('Transfer-Encoding', 'chunked')] + conn,
                   body=chunked([body[:len(body) // 2 + 1], body[len(body) // 2 + 1:] or b'z'])), 'post-chunked'),
        (req_bytes('GET', '/', headers=host + [('X-Long', 'v' * rng.choice([10, 300])), ('Accept', '*/*')]), 'get-hdrs'),
    ]


TLS_HELLO = bytes([0x16, 0x03, 0x01, 0x00, 0x2f, 0x01, 0x00, 0x00, 0x2b, 0x03, 0x03]) + bytes(range(32)) + b'\x00\x00\x02\x13\x01\x01\x00'
SSL2_HELLO = bytes([0x80, 0x2e, 0x01, 0x00, 0x02, 0x00, 0x15, 0x00, 0x00, 0x00, 0x10]) + bytes(range(35))

MUTATIONS = ['hdr-nonlatin1', 'hdr-nonlatin1', 'host-ctl', 'hdr-leading-ws', 'hdr-leading-ws', 'hdr-fold', 'reflect-ctl', 'reflect-ctl',
             'line-parts', 'line-version', 'line-major', 'line-fragment', 'hdr-nocolon', 'hdr-name', 'hdr-oversized',
             'cl-alpha', 'cl-negative', 'cl-conflict', 'chunk-size', 'escape', 'escape-hdr', 'nul', 'tls', 'ssl2',
             'no-host', 'host-port', 'byteflip', 'insert', 'empty-read', 'dotdot', 'url-bracket']


METHODS = ['GET', 'GET', 'HEAD', 'HEAD', 'HEAD', 'POST', 'PUT', 'DELETE', 'OPTIONS', 'PATCH']
NONLATIN = ['\\u1234', '"\\u1234"', '\\u20ac', '"\\U0001f600"', '"\\ud800"', '\xe1\x88\xb4', '"\xe1\x88\xb4"', '\xe9', '"\xe9"', '\xff\xfe',
            '"a\\u0100b"', '\\N{SNOWMAN}', '"\\N{SNOWMAN}"']


def mutate(rng, kind):
    """-> (bytes, expectation).  expectation 'malformed': the message must not be dispatched nor answered < 400"""
    data, exp = mutate_get(rng, kind)
    if data.startswith(b'GET ') and rng.random() < 0.6:        # the same mutation on a request with another method
        data = rng.choice(METHODS).encode() + data[3:]
    elif data.startswith(b'POST ') and rng.random() < 0.3:
        data = rng.choice(['PUT', 'PATCH', 'HEAD']).encode() + data[4:]
    return data, exp


def mutate_get(rng, kind):
    host = [('Host', 'localhost:8000')]
    if kind == 'hdr-leading-ws':
        # whitespace between the request line and the first header field (RFC 7230 3: reject): the FIRST header line is led by
        # SP / HTAB, possibly carrying a framing or routing field that would be hidden from a stricter intermediary
        ws = rng.choice([' ', '\t', '  ', ' \t', '\t\t '])
        fld = rng.choice([('Host', 'localhost:8000'), ('X-A', 'b'), ('Content-Length', '5'), ('Transfer-Encoding', 'chunked'), ('Host', 'evil')])
        rest = [h for h in [('Host', 'localhost:8000'), ('Accept', '*/*')] if h[0] != fld[0] or rng.random() < 0.5]
        rng.shuffle(rest)
        body = b'hello' if fld[0] == 'Content-Length' else (b'5\r\nhello\r\n0\r\n\r\n' if fld[0] == 'Transfer-Encoding' else b'')
        meth = 'POST' if body else 'GET'
        head = ('%s %s HTTP/1.1\r\n%s%s: %s\r\n' % (meth, rng.choice(['/', '/echo']), ws, fld[0], fld[1])).encode('latin-1')
        for h in rest:
            head += ('%s: %s\r\n' % h).encode('latin-1')
        return head + b'\r\n' + body, 'malformed'
    if kind == 'hdr-fold':
        # a whitespace-led line AFTER a field is an obs-fold continuation of that field's value (middle / last position), also when
        # it looks like a field of its own
        ws = rng.choice([' ', '\t', '  ', ' \t'])
        cont = rng.choice(['continued', 'Host: evil', 'Content-Length: 5', 'X: y'])
        hs = ['Host: localhost:8000', 'X-A: b', 'Accept: */*']
        pos = rng.choice([1, 2, 3])
        hs.insert(pos, ws + cont)
        if rng.random() < 0.3:
            hs.insert(pos + 1, rng.choice([' ', '\t']) + 'more')
        return ('GET %s HTTP/1.1\r\n%s\r\n\r\n' % (rng.choice(['/', '/echo']), '\r\n'.join(hs))).encode('latin-1'), 'any'
    if kind == 'reflect-ctl':
        # request data that the server reflects into the response head: cookies come back as Set-Cookie, path and query as
        # Location; escapes that the parser's unicode_escape decoding turns into CR / LF / NUL / other controls, and raw controls
        inj = rng.choice(['\\r\\nX-Inj: 1', '\\nSet-Cookie: pwn=1', '\\x0d\\x0aX-Inj: 1', '\\x00', '\\x0b', '\\x7f', '\x00', '\x01', '\\u1234\\r\\nX: y', '\\x1f'])
        r = rng.random()
        target = rng.choice(['/', '/', '/nothere', '//x', '/a/../b', '/echo'])
        hs = [('Host', 'a')] if rng.random() < 0.85 else []
        ver = rng.choice(['HTTP/1.1', 'HTTP/1.1', 'HTTP/1.0', 'HTTP/2.0'])
        if r < 0.6:
            hs.append(('Cookie', rng.choice(['a="x%s"', 'a="%s"; b=c', 'sid=1; a="x%sy"', 'a=x%s']) % inj))
        elif r < 0.85:
            target = rng.choice(['//x?q=%s', '/a/../b?%s=1', '//x%s']) % inj.replace(' ', '')
        else:
            hs.append((rng.choice(['Referer', 'X-Forwarded-For', 'Accept-Language', 'Origin']), 'v' + inj))
        return req_bytes(rng.choice(['GET', 'HEAD']), target, ver, headers=hs), 'any'
    if kind == 'host-ctl':
        # control characters / spaces in the Host header (raw or as escapes the parser decodes), with canonical and
        # non-canonical paths (the latter used to reflect them into Location)
        h = rng.choice(['a\x00b', 'a\\x00b', 'a b', 'a\tb:80', 'a\\x0d\\x0aX-Injected: 1', 'a\x7f', 'a\\x1fb', 'a\x0bb', 'exa\x01mple.org:81'])
        return req_bytes(target=rng.choice(['/', '/../x', '//x', '/a/../b']), headers=[('Host', h)]), 'malformed'
    if kind == 'hdr-nonlatin1':
        # header values outside ASCII / latin-1: raw UTF-8 or high bytes, or the backslash escapes that the parser's
        # unicode_escape decoding turns into code points > 255; in a Cookie they come back as Set-Cookie
        v = rng.choice(NONLATIN)
        name = rng.choice(['Cookie', 'Cookie', 'Cookie', 'X-Any', 'Accept', 'Referer', 'Host', 'Connection', 'Content-Type'])
        if name == 'Cookie':
            v = rng.choice(['a=%s', 'a=%s; b=c', 'sid=1; a=%s', '%s=1']) % v
        hs = [(name, v)] if name == 'Host' else host + [(name, v)]
        return req_bytes(target=rng.choice(['/', '/echo', '/nothere']), headers=hs), 'any'
    if kind == 'line-parts':
        return rng.choice([b'GARBAGE\r\n\r\n', b'GET /\r\nHost: a\r\n\r\n', b'\r\n\r\n', b'GET\r\n\r\n']), 'malformed'
    if kind == 'line-version':
        return req_bytes(version=rng.choice(['HTTX/1.1', 'HTTP/1', 'HTTP/a.b', 'HTTP/1.1 x', 'http/1.1'])), 'malformed'
    if kind == 'line-major':
        return req_bytes(version=rng.choice(['HTTP/2.0', 'HTTP/3.7', 'HTTP/0.9', 'HTTP/11.1', 'HTTP/9.9'])), 'malformed'
    if kind == 'line-fragment':
        return req_bytes(target='/#frag'), 'any'
    if kind == 'hdr-nocolon':
        v = rng.choice(['HTTP/1.1', 'HTTP/1.0', 'HTTP/1.7', 'HTTP/9.9', 'HTTP/2.0'])
        return req_bytes(version=v, headers=host)[:-2] + b'Broken header line\r\n\r\n', 'malformed'
    if kind == 'hdr-name':
        return req_bytes(headers=host + [(rng.choice(['Bad Name', 'Bad\tName', 'Bad(Name)', 'B\x01d']), 'x')]), 'malformed'
    if kind == 'hdr-oversized':
        return req_bytes(headers=host + [('X-Big', 'a' * rng.choice([9000, 70000]))]), 'any'
    if kind == 'cl-alpha':
        return req_bytes('POST', '/echo', headers=host + [('Content-Length', rng.choice(['abc', '1x', '0x10', '', '1 2']))], body=b'hello'), 'malformed'
    if kind == 'cl-negative':
        return req_bytes('POST', '/echo', headers=host + [('Content-Length', rng.choice(['-5', '-1', '-0005']))],
                         body=rng.choice([b'hello', b''])), 'malformed'
    if kind == 'cl-conflict':
        return req_bytes('POST', '/echo', headers=host + [('Content-Length', '5'), ('Content-Length', rng.choice(['6', '50']))],
                         body=rng.choice([b'hello', b''])), 'malformed'
    if kind == 'chunk-size':
        bad = rng.choice([b'zz\r\nhello\r\n0\r\n\r\n', b'-5\r\nhello\r\n0\r\n\r\n', b'\r\nhello\r\n0\r\n\r\n', b'5 5\r\nhello\r\n0\r\n\r\n'])
        return req_bytes('POST', '/echo', headers=host + [('Transfer-Encoding', 'chunked')], body=bad), 'malformed'
    if kind == 'escape':
        return req_bytes(target=rng.choice(['/\\x', '/\\u12', '/\\N{nope}', '/\\U99999999', '/a\\', '/\\x41', '/\\u20ac', '/\\ud800'])), 'any'
    if kind == 'escape-hdr':
        return req_bytes(headers=host + [('X-E', rng.choice(['\\x', '\\u12', 'a\\', '\\u20ac', '\\x41\\x0d\\x0aInjected: 1']))]), 'any'
    if kind == 'nul':
        b = bytearray(req_bytes(headers=host + [('X-N', 'abc')]))
        b[rng.randrange(len(b) - 4)] = 0
        return bytes(b), 'any'
    if kind == 'tls':
        return TLS_HELLO, 'malformed'
    if kind == 'ssl2':
        return SSL2_HELLO, 'malformed'
    if kind == 'no-host':
        return req_bytes(headers=[('Accept', '*/*')]), 'malformed'
    if kind == 'host-port':
        return req_bytes(headers=[('Host', rng.choice(['a:xx', 'a:', 'a:-1', '[::1]:80', 'a:80:80']))]), 'any'
    if kind == 'byteflip':
        b = bytearray(rng.choice(bases(rng))[0])
        for _ in range(rng.randint(1, 3)):
            b[rng.randrange(len(b))] = rng.choice([0, 10, 13, 32, 58, 92, 255, rng.randrange(256)])
        return bytes(b), 'any'
    if kind == 'insert':
        b = bytearray(rng.choice(bases(rng))[0])
        i = rng.randrange(len(b))
        b[i:i] = rng.choice([b'\r\n', b'\r', b'\n', b'\x00', b' ', b':', b'\\x', b'\r\n\r\n', b'\xff\xfe'])
        return bytes(b), 'any'
    if kind == 'empty-read':
        return b'', 'any'
    if kind == 'dotdot':
        return req_bytes(target=rng.choice(['/../x', '/a/../b', '/./', '//x', '/%2e%2e/x', '/a b'])), 'any'
    if kind == 'url-bracket':
        return req_bytes(target=rng.choice(['http://[::1/', 'http://a]/', '//[/'])), 'any'
    raise ValueError(kind)


def in_domain(head):
    """python twin of the model's [Unmodelled] test, for the statistics only (K uses the model's own answer)"""
    i = head.find(b'\r\n')
    line = head if i < 0 else head[:i]
    if b'\\' in line or any(c >= 128 for c in line):
        return False
    parts = line.decode('latin-1').split(None, 2)
    if len(parts) == 3 and ('[' in parts[1] or ']' in parts[1]):
        return False
    j = head.find(b'\r\n\r\n', i + 2) if i >= 0 else -1
    blk = head[i + 2:j] if j >= 0 else b''
    return b'\\' not in blk


HEAD_MALFORMED = ('line-parts', 'line-version', 'hdr-nocolon', 'hdr-name', 'hdr-leading-ws')
SEPS = [' ', ' ', ' ', '  ', '\t', '\x0b', '\x1c', '\x1f', '\n', '', '\r']
VERSIONS = ['HTTP/1.1', 'HTTP/1.0', 'HTTP/123', 'HTTP/12', 'HTTP/1x1', 'HTTP/1.1\n', 'HTTP/1.1\n\n', 'HTTP/1\n1', 'HTTP/1\r1', 'HTTP/1.1 ',
            'HTTP/1.1 x', 'HTTP/.1', 'HTTP/1.', 'HTTP/11.10', 'http/1.1', 'HTTP/1.1\t', 'HTTP/1..1', 'HTTP/1.1.1', 'HTTP/', 'HTTP/1:1#']
METHS = ['HEAD', 'G@T', 'get', 'Get', 'post', 'hEAD', 'A' * 20, 'A' * 21, '^', '`', 'GE_T', 'G$T', 'G#T', 'G"T', 'G!T', 'PO.ST', 'a', 'z', '{', '0', '__', '~', 'G\x7fT']
TARGETS = ['/', '/#', '/#x', '#', '#\x01', '\x00#a', '/a?b#', '/a?b#c', 'a:b#c', '*', '/\x01', '/x#y#z', '//h/p', 'http://h/p', '/[', '/a]']
HLINES = ['Host: a', 'A: b', 'A:b', ':v', 'A', '', 'A b: c', 'A : c', 'A\t: c', ' A: c', '\tfolded', ' folded: x', 'A(: c', 'A/B: c', 'A=B: c',
          'A{}: c', 'A"B: c', 'A\x00: c', 'A\x7f: c', 'A\x1f: c', 'A-B_c.d!#$%&\'*+^`|~: c', 'X: y: z', 'A\x80: c', 'A: \x00', 'A: \\x',
          'A\\: c', 'Content-Length: abc', 'A;: c', 'A,: c', 'A<>: c', 'A@: c', 'A[]: c']


def head_case(rng):
    """the head of a request assembled from corner cases of the grammar the parser enforces -> bytes"""
    r = rng.random()
    if r < 0.45:
        # mostly valid: each component of the request line is replaced by a corner case with probability 0.3
        def pick(valid, pool):
            return rng.choice(pool) if rng.random() < 0.3 else valid
        line = pick('', SEPS[-2:] + [' ']) + pick('GET', METHS) + pick(' ', SEPS) + pick('/', TARGETS) + pick(' ', SEPS) \
            + pick('HTTP/1.1', VERSIONS)
        hl = [rng.choice(HLINES[:2]) for _ in range(rng.randint(0, 2))]
    elif r < 0.9:
        line = rng.choice(['GET / HTTP/1.1', 'HEAD /x HTTP/1.0'])
        hl = [rng.choice(HLINES) if rng.random() < 0.4 else rng.choice(HLINES[:3]) for _ in range(rng.randint(1, 4))]
        if rng.random() < 0.45:       # a whitespace-led line at the first / a middle / the last position
            hl.insert(rng.choice([0, 0, rng.randint(0, len(hl)), len(hl)]),
                      rng.choice([' ', '\t', '  ', ' \t']) + rng.choice(['Host: a', 'A: c', 'folded', 'Content-Length: 5', ': v', 'A']))
    else:
        line = rng.choice(['GET / HTTP/1.1', 'GARBAGE', 'GET /', '', ' '])
        hl = []
    end = rng.choice(['\r\n\r\n', '\r\n\r\n', '\r\n\r\n', '\r\n', '\r\n\r', '\n\n', '', '\r\n\r\nbody'])
    return (line + '\r\n' + '\r\n'.join(hl) + end).encode('latin-1') if hl else (line + end).encode('latin-1')


def cut(rng, data, maxcuts=2):
    if len(data) < 2 or rng.random() < 0.5:
        return [data]
    k = rng.randint(1, maxcuts)
    pts = sorted(set(rng.randrange(1, len(data)) for _ in range(k)))
    out, prev = [], 0
    for p in pts + [len(data)]:
        out.append(data[prev:p])
        prev = p
    return out


def _fm(line, headers=(('Host', 'a'),), body=b''):
    return (line + '\r\n' + ''.join('%s: %s\r\n' % h for h in headers) + '\r\n').encode('latin-1') + body


FIRST_MESSAGES = [          # name, one complete message that the component (or the application) answers
    ('guard-301-slashes', _fm('GET //a HTTP/1.1')), ('guard-301-dot', _fm('GET /./a HTTP/1.1')),
    ('guard-301-dotdot', _fm('GET /a/../b HTTP/1.1')), ('guard-301-star', _fm('OPTIONS * HTTP/1.1')),
    ('guard-301-keepalive', _fm('GET //a HTTP/1.1', (('Host', 'a'), ('Connection', 'keep-alive')))),
    ('guard-301-http10', _fm('GET //a HTTP/1.0', (('Connection', 'keep-alive'),))),
    ('guard-301-head', _fm('HEAD /a/../b HTTP/1.1')),
    ('400-line', b'GARBAGE\r\n\r\n'), ('400-header', _fm('GET / HTTP/1.1', (('Host', 'a'), ('Bad Name', 'x')))),
    ('400-nohost', _fm('GET / HTTP/1.1', ())), ('400-neg-length', _fm('POST /echo HTTP/1.1', (('Host', 'a'), ('Content-Length', '-1')))),
    ('400-host-ctl', _fm('GET / HTTP/1.1', (('Host', 'a b'),))), ('400-head-header', _fm('HEAD / HTTP/1.1', (('Host', 'a'), ('NoColon', ''))).replace(b'NoColon: ', b'NoColon')),
    ('404', _fm('GET /nothere HTTP/1.1')), ('404-keepalive', _fm('GET /nothere HTTP/1.1', (('Host', 'a'), ('Connection', 'keep-alive')))),
    ('404-head', _fm('HEAD /nothere HTTP/1.1')),
    ('505', _fm('GET / HTTP/2.0')), ('505-head', _fm('HEAD / HTTP/3.1')),
    ('500-escape', _fm('GET /\\x HTTP/1.1')), ('500-length', _fm('POST /echo HTTP/1.1', (('Host', 'a'), ('Content-Length', 'abc')))),
    ('500-host-port', _fm('GET / HTTP/1.1', (('Host', 'a:xx'),))),
    ('500-app', _fm('POST /echo HTTP/1.1', (('Host', 'a'), ('Content-Type', '"\\ud800"'), ('Content-Length', '2')), b'hi')),
    ('200', _fm('GET / HTTP/1.1')), ('200-head', _fm('HEAD / HTTP/1.1')), ('200-close', _fm('GET / HTTP/1.1', (('Host', 'a'), ('Connection', 'close')))),
    ('200-http10', _fm('GET / HTTP/1.0', ())), ('200-post', _fm('POST /echo HTTP/1.1', (('Host', 'a'), ('Content-Length', '2')), b'hi')),
    ('200-chunked', _fm('POST /echo HTTP/1.1', (('Host', 'a'), ('Transfer-Encoding', 'chunked')), b'2\r\nhi\r\n0\r\n\r\n')),
]


def cut_n(rng, data, k):
    pts = sorted(set(rng.randrange(1, len(data)) for _ in range(k)))
    out, prev = [], 0
    for p in pts + [len(data)]:
        out.append(data[prev:p])
        prev = p
    return out


def chunked_tail_start(data):
    i = data.find(b'\r\n0\r\n')
    return len(data) if i < 0 else i + 2


class C14(Prop):
    id = 'C14'
    props_file = 'Props/C14.v'
    imports = ['Model.HttpRobust', 'Model.HttpRobustObs']
    quick_n = 560
    thorough_n = 9000
    rule = ('well-formed requests (GET, HTTP/1.0, HEAD, POST with Content-Length, POST chunked, long headers; methods GET/HEAD/POST/PUT/'
            'DELETE/OPTIONS/PATCH in every class; header values outside latin-1 incl. Cookie) mutated by one of '
            + str(len(MUTATIONS)) + ' classes (request-line parts/version/major/fragment, header without colon, bad header name, '
            'oversized header, Content-Length alphabetic/negative/conflicting, bad chunk size, invalid unicode escapes in the '
            'request line and in a header, NUL, TLS / SSLv2 client hello, missing Host, bad Host port, byte flips, insertions, '
            'empty read, dot segments, bad URL brackets), delivered whole or cut at 1-2 points, optionally after a well-formed '
            'keep-alive request, on 1-2 interleaved connections, disconnect after any operation; truncation of every base request '
            'at every offset followed by disconnect. non-trivial = the case reaches a reject / exception / close / dispatch effect')
    trusted_base = ['hand-written model Model/HttpRobust.v tied to /repo by this correspondence run (call sites consulted, effects, '
                    'table membership per operation)',
                    'python oracle in harness/c14.py; responses decoded by http.client.HTTPResponse plus a strict status/header line grammar',
                    'driver shadows module globals of circuits.web.http (is_ssl_handshake, HttpParser, wrappers, int) to record oracle answers']
    assumptions = ['the response-writing path (_on_httperror rendering, Response.prepare, header serialisation) is total for the '
                   'server-generated error responses: not an oracle of the model; the python oracle reports any exception event there',
                   'reads are processed to quiescence before the next operation; the server disconnects a socket it closed',
                   'plain socket without getpeercert; display_banner off; application = Dispatcher + a Controller that always answers']

    def __init__(self):
        self._rec = {}
        self.stats = {'peer_gone_cases': 0, 'mutation_classes': {}, 'effects': {}, 'ops': 0, 'reads': 0, 'disconnects': 0, 'call_sites': {},
                      'raise_answers': {}, 'expectations': {}}

    # ---- cases
    def generate(self, rng, n, tier):
        cases = []
        # the parser's decision about the head (second layer of the model): grammar corner cases and the mutation classes
        for i in range(n // 3):
            if rng.random() < 0.55:
                data, kind, exp = head_case(rng), 'head-grammar', 'any'
            else:
                kind = rng.choice(MUTATIONS)
                data, _ = mutate(rng, kind)
                exp = 'malformed-head' if kind in HEAD_MALFORMED else 'any'
                if len(data) > 400:
                    data = data[:400]
                    exp = 'any'
            r = rng.random()
            pieces = [data] if r < 0.5 else (cut(rng, data, 3) if r < 0.8 else [data[:rng.randint(0, len(data))]])
            cases.append({'k': 'p', 'cls': kind, 'expect': exp if len(pieces) == 1 or r < 0.8 else 'any', 'pieces': [l1(p) for p in pieces]})
        n = len(cases) + n
        # truncation at every offset of base requests, then disconnect
        bs = bases(rng)
        for data, kind in ([bs[0], bs[3]] if tier == 'quick' else bs + bases(rng)):
            tail = chunked_tail_start(data) if kind == 'post-chunked' else len(data)
            for off in range(0, len(data) + 1):
                exp = 'incomplete' if off < min(tail, len(data)) else 'any'
                cases.append({'secure': False, 'cls': 'truncate-' + kind, 'expect': exp,
                              'ops': [['r', 0, l1(data[:off]), 'mut'], ['d', 0]]})
        # ONE well-formed message with a body, delivered completely in two or more reads: every two-piece cut (so also the cuts
        # exactly behind a chunk's CRLF and inside the last-chunk line), byte at a time, random multi-cuts; and its strict
        # prefixes ending at the chunk boundaries followed by a disconnect.  One message => at most one dispatch-or-rejection and
        # at most one response over the whole connection, and no dispatch before the message is complete.
        body = bytes(rng.choice(b'abcxyz0189') for _ in range(rng.randint(5, 9)))
        hosts = [('Host', 'a')]
        k1, k2 = 1 + len(body) // 3, 1 + 2 * len(body) // 3
        def chunked_msg(te):
            return req_bytes(rng.choice(['POST', 'PUT']), '/echo', headers=hosts + [('Transfer-Encoding', te)],
                             body=chunked([body[:k1], body[k1:k2], body[k2:]]))
        # the coding name is case-insensitive: every letter case of 'chunked' x every kind of cut
        cases_te = ['Chunked', 'CHUNKED', 'cHuNkEd']
        wf = [(chunked_msg('chunked'), 'wf-chunked'),
              (req_bytes('POST', '/echo', headers=hosts + [('Content-Length', str(len(body)))], body=body), 'wf-length')] + \
             [(chunked_msg(te), 'wf-chunked-' + te) for te in cases_te]
        for data, kind in wf:
            if kind == 'wf-chunked' or tier != 'quick':
                offs = list(range(1, len(data)))
            elif kind.startswith('wf-chunked-'):
                he = data.find(b'\r\n\r\n') + 4         # after the headers, inside the first size line, inside the data, before the chunk's
                ts = chunked_tail_start(data)              # terminator, behind it, before / inside the last chunk, before the final CRLF
                first_data = data.find(b'\r\n', he) + 2
                offs = sorted(set([he, he + 1, first_data, first_data + 1, first_data + k1, first_data + k1 + 1, first_data + k1 + 2,
                                   ts, ts + 1, ts + 3, len(data) - 2, len(data) - 1, rng.randrange(he, len(data))]))
                offs = [o for o in offs if 0 < o < len(data)]
            else:
                offs = sorted(set(rng.sample(range(1, len(data)), 12) + list(range(len(data) - len(body) - 2, len(data)))))
            for off in offs:
                cases.append({'secure': False, 'cls': kind, 'expect': 'one-message',
                              'ops': [['r', 0, l1(data[:off]), 'mut'], ['r', 0, l1(data[off:]), 'mut'], ['d', 0]]})
            cases.append({'secure': False, 'cls': kind + '-bytewise', 'expect': 'one-message',
                          'ops': [['r', 0, l1(data[i:i + 1]), 'mut'] for i in range(len(data))]})
            for _ in range(3 if tier == 'quick' else 12):
                cases.append({'secure': False, 'cls': kind + '-multicut', 'expect': 'one-message',
                              'ops': [['r', 0, l1(c), 'mut'] for c in cut_n(rng, data, rng.randint(2, 5))]})
            if kind.startswith('wf-chunked'):
                head_end = data.find(b'\r\n\r\n') + 4
                p, ends = head_end, []
                while True:                       # offsets just behind each chunk-size line and each chunk's CRLF
                    j = data.find(b'\r\n', p)
                    if j < 0:
                        break
                    ends.append(j + 2)
                    p = j + 2
                for off in [e for e in ends if e < chunked_tail_start(data)]:
                    cases.append({'secure': False, 'cls': 'truncate-' + kind, 'expect': 'incomplete',
                                  'ops': [['r', 0, l1(data[:off]), 'mut'], ['d', 0]]})
        # bytes that follow EVERY kind of answer the component makes itself (and the application's), on the same socket: a strict
        # prefix of a well-formed request must be waited for, the completed request must be handled as a message of its own
        # (dispatched: it is well-formed and canonical), a malformed follow-up must be rejected as such
        firsts = FIRST_MESSAGES if tier != 'quick' else rng.sample(FIRST_MESSAGES, 14)
        for name, first in firsts:
            nxt = req_bytes(rng.choice(['GET', 'HEAD']), rng.choice(['/', '/echo']), headers=[('Host', 'a')])
            variants = [[(nxt, 'wf-last')], [(nxt[:1], 'wf-part'), (nxt[1:], 'wf-last')]]
            if tier != 'quick' or rng.random() < 0.5:
                k = rng.randint(2, len(nxt) - 1)
                variants.append([(nxt[:k], 'wf-part'), (nxt[k:], 'wf-last')])
                variants.append([(nxt[:k], 'wf-part')])
                variants.append([(b'GARBAGE\r\n\r\n', 'mut')])
            for v in variants:
                ops = [['r', 0, l1(first), 'first']] + [['r', 0, l1(d), t] for d, t in v]
                if rng.random() < 0.5:
                    ops.append(['d', 0])
                cases.append({'secure': False, 'cls': 'followup-' + name, 'expect': 'malformed' if v[0][1] == 'mut' else 'any', 'ops': ops})
        n = max(n, len(cases) + 400)
        while len(cases) < n:
            kind = rng.choice(MUTATIONS)
            data, exp = mutate(rng, kind)
            ops = []
            if rng.random() < 0.2:                       # a well-formed keep-alive request first
                ops.append(['r', 0, l1(req_bytes(rng.choice(['GET', 'HEAD', 'OPTIONS']), headers=[('Host', 'localhost:8000')])), 'pre'])
            for c in cut(rng, data):
                ops.append(['r', 0, l1(c), 'mut'])
            if rng.random() < 0.35:                      # a second connection interleaved
                d2, _ = mutate(rng, rng.choice(MUTATIONS)) if rng.random() < 0.6 else (rng.choice(bases(rng))[0], 'any')
                other = [['r', 1, l1(c), 'other'] for c in cut(rng, d2)]
                merged = []
                while ops or other:
                    src = ops if (ops and (not other or rng.random() < 0.5)) else other
                    merged.append(src.pop(0))
                ops = merged
            # disconnect at any point
            r = rng.random()
            if r < 0.5:
                ops.insert(rng.randint(1, len(ops)), ['d', 0])
            if r > 0.3 and any(o[1] == 1 for o in ops):
                ops.insert(rng.randint(1, len(ops)), ['d', 1])
            if rng.random() < 0.15:                      # the same socket object is used again after the disconnect
                ops.append(['r', 0, l1(req_bytes(headers=[('Host', 'localhost:8000')])), 'again'])
            case = {'secure': rng.random() < 0.1, 'cls': kind, 'expect': exp, 'ops': ops}
            r2 = rng.random()
            if r2 < 0.08:
                # fault at a particular point: the peer goes away, every Request constructor from the k-th on raises
                case['gone'] = rng.randint(0, 2)
            elif r2 < 0.20:
                # all operations queued at once (reads that arrive before a close is effective, disconnect while the
                # component's own events are still queued); no reads after the disconnect of a connection
                seen, keep = set(), []
                for o in ops:
                    if o[0] == 'd':
                        seen.add(o[1])
                    elif o[1] in seen:
                        continue
                    keep.append(o)
                case = dict(case, ops=keep, burst=True)
            cases.append(case)
        return cases

    # ---- implementation
    def impl(self, case):
        if case.get('k') == 'p':
            fed, code = classify_parser([p.encode('latin-1') for p in case['pieces']])
            obs = {'fed': l1(fed), 'code': code, 'definite': in_domain(fed)}
            self._rec[common.canon(case)] = obs
            st = self.stats.setdefault('parser_verdicts', {})
            key = '%s%s' % ({0: 'need-more', 1: 'bad-first-line', 2: 'invalid-header', 3: 'headers-ok', 9: 'raises'}.get(code, str(code)),
                            '' if obs['definite'] else ' (outside the concrete layer)')
            st[key] = st.get(key, 0) + 1
            return obs
        if case.get('burst'):
            self.stats['burst_cases'] = self.stats.get('burst_cases', 0) + 1
            obs = run_burst(case)
            self._rec[common.canon(case)] = obs
            return obs
        obs = run_case(case)
        self._rec[common.canon(case)] = obs
        st = self.stats
        if case.get('gone') is not None:
            st['peer_gone_cases'] += 1
        st['mutation_classes'][case.get('cls', '?')] = st['mutation_classes'].get(case.get('cls', '?'), 0) + 1
        st['expectations'][case.get('expect', 'any')] = st['expectations'].get(case.get('expect', 'any'), 0) + 1
        for s in obs['steps']:
            st['ops'] += 1
            st['reads' if s['op'][0] == 'r' else 'disconnects'] += 1
            for e in s['effs']:
                k = {1: 'reject', 2: 'response', 3: 'close', 4: 'dispatch'}.get(e[0], str(e[0]))
                if e[0] in (1, 2):
                    k += '-%s' % e[1]
                st['effects'][k] = st['effects'].get(k, 0) + 1
            if not s['effs'] and s['op'][0] == 'r':
                st['effects']['wait'] = st['effects'].get('wait', 0) + 1
            for t, a in s['calls']:
                st['call_sites'][t] = st['call_sites'].get(t, 0) + 1
                if a is None:
                    st['raise_answers'][t] = st['raise_answers'].get(t, 0) + 1
        return obs

    # ---- model
    def modelled(self, obs):
        for s in obs['steps']:
            for t, a in s['calls']:
                if t == 'req' and a is not None and a[4]:
                    return False       # Transfer-Encoding spelled other than 'chunked': two readings in the code base (C13)
        return True

    def answers_term(self, s):
        d = {}
        for t, a in s['calls']:
            d.setdefault(t, a if a is not None else 'RAISE')
        calls = [t for t, _ in s['calls']]

        def R(tag, f):
            if tag not in d or d[tag] == 'RAISE':
                return 'Raise'
            return '(Ret %s)' % f(d[tag])

        def b(x):
            return 'true' if x else 'false'

        def N(x):
            return '%d%%N' % max(0, int(x))
        ssl = R('ssl', b)
        ex = R('exec', lambda v: '(mkF %s %s %s)' % (b(v[0]), 'None' if not v[1] else '(Some %s)' % ['BadFirstLine', 'InvalidHeader', 'InvalidChunk'][v[1][0]], b(v[2])))
        er = R('errreq', lambda v: '((%s, %s), %s)' % (N(v[0]), N(v[1]), b(v[2])))
        rq = R('req', lambda v: '(mkR %s %s %s %s %s %s %s)' % (N(v[0][0]), N(v[0][1]), b(v[0][2]), b(v[1]), b(v[0][3]), b(v[2]), b(v[3])))
        cl = R('int', lambda v: '(%d)%%Z' % v)
        # the path guard is not a traceable call site: its answer is the guard replayed on the built request; an exception of the
        # read handler after int() was consulted and before anything was fired is attributed to it
        raised_after_int = calls and 'excreq' in calls and calls[calls.index('excreq') - 1] == 'int' and d.get('int') != 'RAISE'
        if s['path'] is None or raised_after_int:
            pa = 'Raise'
        else:
            pa = '(Ret %s)' % ('PCanon' if s['path'] == 'canon' else 'PRedirect')
        xr = R('excreq', lambda v: 'tt')
        ap = 'Raise' if s['app'] is None else '(Ret (%s, %s))' % (N(s['app']), b(s.get('app_err', False)))
        return '(mkA %s %s %s %s %s %s %s %s)' % (ssl, ex, er, rq, cl, pa, xr, ap)

    def model_term(self, case):
        if case.get('k') == 'p':
            obs = self._rec.get(common.canon(case)) or self.safe_impl(case)
            if not isinstance(obs, dict) or '__crash__' in obs:
                return None
            return 'obs_classify %s (%d)' % (common.nlist(obs['fed']), obs['code'])
        if case.get('burst'):
            obs = self._rec.get(common.canon(case)) or self.safe_impl(case)
            if not isinstance(obs, dict) or '__crash__' in obs or obs['stuck'] or not set(obs['app_statuses']) <= {200} \
                    or any(e[1] == 'request' for e in obs['exceptions']):
                return None
            for r in obs['reads']:
                for t, a in r['calls']:
                    if t == 'req' and a is not None and a[4]:
                        return None
            for n, ks in obs['keys'].items():
                # the application's answers are an oracle fixed to 200 here; a dispatch that re-uses the pair of an earlier,
                # already rejected message (reads handled before the first cascade ran) is answered with that pair's status
                # (the pair object is shared: a later rejection on the re-used pair also rewrites the status of the earlier answer)
                written = sorted((x - 2000000) // 80 for x in ks if 2000000 <= x < 3000000)
                meant = sorted([200] * len([x for x in ks if x == 4000000]) + [x - 1000000 for x in ks if 1000000 <= x < 2000000])
                if written != meant:
                    return None
            ops, k = [], 0
            for o in case['ops']:
                if o[0] == 'r':
                    rd = obs['reads'][k]
                    k += 1
                    ops.append('Read %d%%nat %s' % (o[1], self.answers_term({'calls': rd['calls'], 'path': rd['path'], 'app': 200})))
                else:
                    ops.append('Disc %d%%nat' % o[1])
            socks = sorted(int(n) for n in obs['state'])
            return 'obs_burst %s [%s] [%s]' % ('true' if case.get('secure') else 'false', '; '.join(ops),
                                                '; '.join('%d%%nat' % n for n in socks))
        obs = self._rec.get(common.canon(case))
        if obs is None:
            obs = self.safe_impl(case)
        if not isinstance(obs, dict) or '__crash__' in obs or not self.modelled(obs):
            return None
        ops = []
        for s in obs['steps']:
            if s['op'][0] == 'r':
                ops.append('Read %d%%nat %s' % (s['op'][1], self.answers_term(s)))
            else:
                ops.append('Disc %d%%nat' % s['op'][1])
        heads = ['obs_classify %s (%d)' % (common.nlist(s['head'][0]), s['head'][1]) for s in obs['steps'] if s.get('head')]
        return 'Tl [obs_run %s [%s]; Tl [%s]]' % ('true' if case.get('secure') else 'false', '; '.join(ops), '; '.join(heads))

    def obs_for_model(self, case, obs):
        if isinstance(obs, dict) and '__crash__' in obs:
            return [-999]
        if case.get('k') == 'p':
            return [obs['code']]
        if case.get('burst'):
            socks = sorted(int(n) for n in obs['state'])
            return [[[TAG[t] for t, _ in r['calls']] for r in obs['reads']],
                    [obs['keys'].get(str(n), []) for n in socks], [obs['state'][str(n)] for n in socks]]
        return [self.obs_ops(obs), [[s['head'][1]] for s in obs['steps'] if s.get('head')]]

    def obs_ops(self, obs):
        out = []
        for s in obs['steps']:
            effs = []
            for e in s['effs']:
                if e[0] == 'X':
                    continue                  # exception events are internal; their consequences are effects
                effs.append([int(x) if not isinstance(x, bool) else x for x in e])
            out.append([[TAG[t] for t, _ in s['calls']], effs, s['state']])
        return out

    # ---- oracle: the property statement read off the real run (knows nothing of the model)
    def oracle(self, case, obs):
        if isinstance(obs, dict) and '__crash__' in obs:
            return None
        if case.get('k') == 'p':
            # independent reading: a head that is definitely malformed must not be accepted by the parser
            if case.get('expect') == 'malformed-head' and obs['code'] == 3 and obs['fed'] == ''.join(case['pieces']):
                return 'accepted-malformed: the parser accepts a malformed head (%s)' % case.get('cls')
            return None
        if obs['stuck']:
            last = obs['steps'][-1] if obs.get('steps') else None
            if last is not None:
                return ('the event queue does not settle within %d rounds after operation %d (%s on connection %d): %d effects so far, '
                        'among them %d responses / runs of writes and %d closes for this one operation' % (
                            ROUNDS, len(obs['steps']) - 1, 'read' if last['op'][0] == 'r' else 'disconnect', last['op'][1], last['n_effs'],
                            len([e for e in last['effs'] if e[0] in (2, 7)]), len([e for e in last['effs'] if e[0] == 3])))
            return 'the event queue does not settle within %d rounds' % ROUNDS
        if obs.get('burst'):
            if not obs['pong']:
                return 'the event loop no longer dispatches events after the case'
            if obs['stderr']:
                return 'output on stderr: %r' % obs['stderr'][-200:]
            if obs['problems']:
                return 'burst: %s' % obs['problems'][0]
            for e in obs['exceptions']:
                if e[1] not in ('read', 'request'):
                    return 'burst: %s raised in the handler of %r' % (e[0], e[1])
            if obs['retained_for']:
                return 'retained-parser: burst: state for connection %d is retained although it has disconnected' % obs['retained_for'][0]
            if case.get('expect') == 'malformed' and not any(o[3] in ('pre', 'again', 'other') for o in case['ops'] if o[0] == 'r') \
                    and obs['requests']:
                return 'accepted-malformed: burst: a request event is dispatched for a malformed message (%s)' % case.get('cls')
            return None
        if not obs['pong']:
            return 'the event loop no longer dispatches events after the case'
        if obs['stderr']:
            return 'output on stderr: %r' % obs['stderr'][-200:]
        alive = {}
        for i, s in enumerate(obs['steps']):
            kind, n = s['op'][0], s['op'][1]
            where = 'operation %d (%s on connection %d)' % (i, 'read' if kind == 'r' else 'disconnect', n)
            if s['problems']:
                return '%s: %s' % (where, s['problems'][0])
            effs = s['effs']
            resp = [e for e in effs if e[0] == 2]
            disp = [e for e in effs if e[0] == 4]
            rej = [e for e in effs if e[0] == 1]
            clo = [e for e in effs if e[0] == 3]
            exc = [e for e in effs if e[0] == 'X']
            if kind == 'd':
                if effs:
                    return '%s: a disconnect produced output %r' % (where, effs)
                if s['state'][0]:
                    return 'retained-parser: %s: parser state for the connection is retained after disconnect' % where
                if s['state'][1]:
                    return '%s: request/response state for the connection is retained after disconnect' % where
                if s.get('anywhere'):
                    return '%s: the connection is still a key / member of a container attribute of the component after disconnect' % where
                continue
            if len(disp) + len(rej) > 1:
                return '%s: %d request events and %d rejections for one read' % (where, len(disp), len(rej))
            if len(resp) > 1:
                return '%s: %d responses to one read' % (where, len(resp))
            if len(resp) != len(disp) + len(rej):
                return '%s: %d responses for %d dispatched and %d rejected messages' % (where, len(resp), len(disp), len(rej))
            gone = case.get('gone') is not None     # then no Request, hence no response, can be built: silence is all there is
            for e in exc:
                if e[2] not in ('read', 'request') and not (gone and e[2] == 'exception' and e[1] == 'OSError'):
                    return '%s: %s raised in the handler of %r' % (where, e[1], e[2])
            if exc and not gone and not (resp and resp[0][1] >= 500):
                return '%s: %s raised in the %s handler is not answered with a 5xx response' % (where, exc[0][1], exc[0][2])
            if rej:
                if disp:
                    return '%s: request event dispatched for a rejected message' % where
                if not (300 <= rej[0][1] <= 599) or resp[0][1] != rej[0][1]:
                    return '%s: rejection %r answered with %r' % (where, rej[0], resp[0])
            for r in resp:
                if (r[2], r[3]) not in ((1, 0), (1, 1)):
                    return 'status-version: %s: status line carries HTTP/%d.%d, a version this HTTP/1.1 server does not speak' % (where, r[2], r[3])
                if r[4] and (not clo or effs.index(clo[0]) < effs.index(r)):
                    return '%s: the response says close but the connection is not closed afterwards' % where
            if len(clo) > 1:
                return '%s: closed %d times' % (where, len(clo))
            if resp and not clo and s['state'][0]:
                return ('stale-parser: %s: the message is answered (%d), the connection is left open, but the parser of the answered message is '
                        'still registered for the connection: the next message will not be parsed afresh' % (where, resp[0][1]))
            if s['tag'] == 'wf-part' and effs:
                return ('answered-prefix: %s: a strict prefix of a well-formed request (%d bytes) is answered with %r instead of waited for' % (
                    where, len(s['op'][2]), [e for e in effs if e[0] != 'X'][:3]))
            if s['tag'] == 'wf-last' and (rej or not disp):
                return ('followup-not-handled: %s: a complete well-formed request that follows an answered message on the same socket is %s' % (
                    where, 'answered with a rejection %d of its own accord' % rej[0][1] if rej else 'neither dispatched nor answered'))
            if s['tag'] == 'mut' and case.get('expect') in ('malformed', 'incomplete'):
                if disp:
                    return 'accepted-%s: %s: a request event is dispatched for a %s message (%s)' % (
                        case['expect'], where, case['expect'], case.get('cls'))
                if case['expect'] == 'malformed' and resp and resp[0][1] < 400:
                    return '%s: malformed message (%s) answered with status %d' % (where, case.get('cls'), resp[0][1])
        if case.get('expect') == 'one-message':
            nd = sum(len([e for e in s['effs'] if e[0] == 4]) for s in obs['steps'])
            nr = sum(len([e for e in s['effs'] if e[0] == 1]) for s in obs['steps'])
            nw = sum(len([e for e in s['effs'] if e[0] in (2, 7)]) for s in obs['steps'])
            if nd and nr:
                return 'one-message: a request event is dispatched for a message that is also rejected (%d dispatched, %d rejected; %s)' % (
                    nd, nr, case.get('cls'))
            if nd + nr > 1 or nw > 1:
                return 'one-message: %d request events, %d rejections and %d responses for one message (%s)' % (nd, nr, nw, case.get('cls'))
            first = [i for i, s in enumerate(obs['steps']) if any(e[0] == 4 for e in s['effs'])]
            reads = [i for i, s in enumerate(obs['steps']) if s['op'][0] == 'r' and s['tag'] == 'mut']
            if first and reads and first[0] < reads[-1] and case.get('cls', '').startswith('wf-'):
                return 'one-message: the request event is dispatched at operation %d, before the last bytes of the message (operation %d) arrived (%s)' % (
                    first[0], reads[-1], case.get('cls'))
        if obs['after_ping']:
            return 'events %r appear after the case has settled' % obs['after_ping']
        # connections that were disconnected last must have left nothing behind
        last = {}
        for s in obs['steps']:
            last[s['op'][1]] = s['op'][0]
        for n in obs['retained_for']:
            if last.get(n) == 'd':
                return 'retained-parser: state for connection %d is retained although it has disconnected' % n
        return None

    def finding_class(self, case, obs, what):
        return None             # no open findings (C14-nul-in-location was retired by fixes/C14_host_control_chars.patch)

    def nontrivial(self, case, obs):
        if case.get('k') == 'p':
            return isinstance(obs, dict) and obs.get('code') in (1, 2, 3) and obs.get('definite')
        if isinstance(obs, dict) and obs.get('burst'):
            return bool(obs['responses'])
        if not isinstance(obs, dict) or 'steps' not in obs:
            return False
        return any(s['effs'] for s in obs['steps'])

    def search(self, rng, tier):
        return self.generate(rng, 1500, 'thorough')


if __name__ == '__main__':
    sys.exit(common.main(C14()))
