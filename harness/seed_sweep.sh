#!/bin/bash
# seed_sweep.sh "1 2 3": every integrated check, quick tier, for each seed; prints only failures and a summary
cd "$(dirname "$0")/.."
for s in $1; do
  export VERIF_SEED=$s
  harness/run_all.sh quick > build/sweep_$s.log 2>&1
  echo "seed $s: $(grep -c 'rc=0' build/sweep_$s.log) ok, failing: $(grep 'rc=[^0]' build/sweep_$s.log | tr '\n' ' ')"
  for f in $(grep 'rc=[^0]' build/sweep_$s.log | cut -d' ' -f1); do cp build/runall/$f.log build/sweep_${s}_$f.log; done
done
