"""C12 — every connection: one connect, ordered reads, one disconnect, then no trace.

A case is a history of peer actions and server-side requests over a few concurrent connections, run against a
REAL `TCPServer`/`UNIXServer` (listening socket made by the harness and handed to the component) with real
in-process peers under one of Select / Poll / EPoll.  The loop is stepped in the checking thread with
zero-timeout ticks; after every settled step the server's and the poller's tables are read.

Three things are derived from one run:
  * the observer view (connect/read/disconnect/error per connection) and the tables        -> oracle (property)
  * the low-level trace: which `_read/_write/_disconnect/write/close` handler invocations the server received,
    in order, and what the kernel answered to each recv()/send()/accept() it made               -> stimuli of the model
  * what the server did with them: recv/send calls made, events fired, tables                   -> compared with the model
The kernel is therefore *scripted from the real run* (DESIGN §4: oracles recorded from the very calls the
implementation made); the model never guesses readiness.

Client part: real `TCPClient`/`UNIXClient` against a listening socket owned by the harness; same scheme.
"""
import errno
import os
import shutil
import socket
import struct
import sys
import tempfile
import time

sys.path.insert(0, os.path.dirname(os.path.abspath(__file__)))
import common
from common import Prop, nlist, natlit

from circuits import BaseComponent, Manager, handler
from circuits.core import pollers as P
from circuits.net import sockets as S
from circuits.net.events import close as close_ev
from circuits.net.events import connect as connect_ev
from circuits.net.events import write as write_ev

KINDS = ('Select', 'Poll', 'EPoll')
BUFSIZE = 64          # server/client recv size: sends above 64 bytes need several recv()s
SNDBUF = 4608         # kernel send buffer of accepted sockets: a few KB fill it
MAXTICKS = 60
TRANSIENT = (errno.EINTR, errno.EWOULDBLOCK, errno.ENOBUFS)


def pattern(c, start, n):
    """the bytes peer c sends: position-dependent, so loss / duplication / reordering is visible"""
    return bytes(((c * 53 + (start + i) * 7 + ((start + i) >> 8)) % 251) for i in range(n))


class RecSock(socket.socket):
    """socket.socket whose recv/send/getpeername calls and results are logged (server side / client side)"""
    sid = None
    log = None

    def recv(self, n, *a):
        try:
            d = super().recv(n, *a)
        except OSError as e:
            self.log.append(('recv', self.sid, 'would' if e.errno in (errno.EWOULDBLOCK, errno.EAGAIN) else 'err'))
            raise
        self.log.append(('recv', self.sid, d))
        return d

    def send(self, data, *a):
        try:
            k = super().send(data, *a)
        except OSError as e:
            kind = 'trans' if e.errno in TRANSIENT else ('pipe' if e.errno in (errno.EPIPE, errno.ENOTCONN) else 'fatal')
            self.log.append(('send', self.sid, len(data), kind))
            raise
        self.log.append(('send', self.sid, len(data), k))
        return k

    def getpeername(self):
        try:
            return super().getpeername()
        except OSError:
            self.log.append(('peername_err', self.sid))
            raise


class Listen(socket.socket):
    """listening socket: accepted sockets are RecSock, numbered in order of acceptance"""
    log = None
    made = None

    def accept(self):
        try:
            fd, addr = self._accept()
        except OSError:
            self.log.append(('accept_none',))
            raise
        s = RecSock(self.family, self.type, self.proto, fileno=fd)
        s.log = self.log
        s.sid = len(self.made)
        self.made.append(s)
        s.setsockopt(socket.SOL_SOCKET, socket.SO_SNDBUF, SNDBUF)
        self.log.append(('accept', s.sid))
        return s, addr


class Probe(BaseComponent):
    """records (a) the handler-level stimuli the server receives, before the server handles them,
    (b) what an application component observes"""
    channel = 'server'

    def init(self, log=None, sid=None):
        self.log = log
        self.sid = sid
        self.seen = []

    @handler('_read', '_write', '_disconnect', priority=50)
    def _low(self, event, sock, *a):
        self.log.append(('h', event.name, self.sid(sock)))

    @handler('write', priority=50)
    def _w(self, event, sock, data=b'', *a):
        self.log.append(('h', 'write', self.sid(sock), len(data)))

    @handler('close', priority=50)
    def _c(self, event, sock=None, *a):
        self.log.append(('h', 'close', self.sid(sock)))

    @handler('connect')
    def _connect(self, sock, *a):
        self.seen.append(['connect', self.sid(sock), []])

    @handler('read')
    def _read(self, sock, data):
        self.seen.append(['read', self.sid(sock), list(data)])

    @handler('disconnect')
    def _disc(self, sock=None, *a):
        if self.sid(sock) == -1:
            self.seen.append(['lisdown', 0, []])      # disconnect(listening socket)
        else:
            self.seen.append(['disconnect', self.sid(sock), []])

    @handler('closed')
    def _closed(self, *a):
        self.seen.append(['closed', 0, []])

    @handler('error')
    def _err(self, sock=None, *a):
        self.seen.append(['error', self.sid(sock) if isinstance(sock, socket.socket) else -1, []])


def _fire_hook(poller, log, sid):
    orig = poller.fire

    def fire(event, *channels, **kw):
        if event.name == '_disconnect':
            log.append(('drop', sid(event.args[0])))
        return orig(event, *channels, **kw)
    poller.fire = fire


class ServerRun:
    def __init__(self, kind, family):
        self.kind, self.family = kind, family
        self.log = []
        self.tmp = None
        if family == 'unix':
            self.tmp = tempfile.mkdtemp(prefix='c12_')
            self.addr = os.path.join(self.tmp, 's')
            ls = Listen(socket.AF_UNIX, socket.SOCK_STREAM)
        else:
            ls = Listen(socket.AF_INET, socket.SOCK_STREAM)
            ls.setsockopt(socket.SOL_SOCKET, socket.SO_REUSEADDR, 1)
            self.addr = ('127.0.0.1', 0)
        ls.log, ls.made = self.log, []
        ls.setblocking(False)
        ls.bind(self.addr)
        ls.listen(64)
        self.addr = ls.getsockname()
        self.ls = ls
        self.m = Manager()
        self.poller = getattr(P, kind)().register(self.m)
        cls = S.UNIXServer if family == 'unix' else S.TCPServer
        self.server = cls(ls, bufsize=BUFSIZE).register(self.m)
        self.probe = Probe(log=self.log, sid=self.sid).register(self.m)
        _fire_hook(self.poller, self.log, self.sid)
        self.peers = {}          # conn -> peer socket (None once closed)
        self.order = []          # conn ids in the order their connect() was issued
        self.sent = {}           # conn -> number of bytes the peer has sent
        self.m._running = True
        self.settle()

    def sid(self, sock):
        if sock is None:
            return -2
        if sock is self.ls:
            return -1
        return getattr(sock, 'sid', -3) if isinstance(sock, RecSock) else -3

    def sock_of(self, c):
        """server-side socket object of connection c (the k-th accepted is the k-th connected)"""
        if c in self.order:
            k = self.order.index(c)
            if k < len(self.ls.made):
                return self.ls.made[k]
        return None

    def conn_of(self, sid):
        return self.order[sid] if 0 <= sid < len(self.order) else sid

    # ---- tables
    def tables(self):
        s, p = self.server, self.poller
        live = list(s._clients)
        sid = self.sid
        bufs = sorted([sid(k), [len(x) for x in v]] for k, v in s._buffers.items() if len(v) and k in live)
        stale = sorted(sid(k) for k in s._buffers if k not in live and k is not self.ls)
        mp = []
        if hasattr(p, '_map'):
            mp = sorted(sid(v) for v in p._map.values() if isinstance(v, socket.socket) and v is not self.ls)
        return [sorted(sid(k) for k in live), bufs, stale, sorted(sid(k) for k in s._closeq),
                sorted(sid(k) for k in p._read if isinstance(k, socket.socket) and k is not self.ls),
                sorted(sid(k) for k in p._write if isinstance(k, socket.socket)),
                sorted(sid(k) for k in p._targets if isinstance(k, socket.socket) and k is not self.ls),
                mp, self.listen_tables()]

    def listen_tables(self):
        """numbers of the tables that (still) hold the listening socket"""
        s, p, ls = self.server, self.poller, self.ls
        out = []
        if ls in s._buffers:
            out.append(1)
        if ls in s._closeq:
            out.append(3)
        if ls in p._read:
            out.append(4)
        if ls in p._write:
            out.append(5)
        if ls in p._targets:
            out.append(6)
        if any(v is ls for v in getattr(p, '_map', {}).values()):
            out.append(7)
        return out

    def settle(self, final=False):
        """zero-timeout ticks until three consecutive ticks change neither the tables nor the observer's view.
        Loopback TCP may deliver a FIN/RST a moment after the peer's syscall returned (softirq under load): for the
        tcp family a stable state is confirmed after a short sleep, and the final settle waits (bounded) until every
        connection whose peer is closed has been torn down."""
        def stable():
            same, last = 0, None
            for _ in range(MAXTICKS):
                self.m.tick(0)
                cur = (common.canon(self.tables()), len(self.probe.seen), len(self.m._queue))
                same = same + 1 if (cur == last and cur[2] == 0) else 0
                last = cur
                if same >= 3:
                    break
            return last
        cur = stable()
        if self.family == 'tcp':
            for _ in range(60 if final else 2):
                if final and not self.server._clients:
                    break
                time.sleep(0.003)
                nxt = stable()
                if nxt == cur and not final:
                    break
                cur = nxt
        t = self.tables()
        self.log.append(('snap', t))
        self.probe.seen.append(['snap', t])

    # ---- operations
    def apply(self, op):
        k = op[0]
        c = op[1] if len(op) > 1 else None
        p = self.peers.get(c)
        if k == 'connect':
            if c in self.peers:
                return False
            fam = socket.AF_UNIX if self.family == 'unix' else socket.AF_INET
            ps = socket.socket(fam, socket.SOCK_STREAM)
            try:
                ps.connect(self.addr)
            except OSError:           # the server closed its listening socket
                ps.close()
                return False
            ps.setblocking(False)
            self.peers[c] = ps
            self.order.append(c)
            self.sent[c] = 0
            return True
        if k in ('send', 'shutwr', 'pclose', 'preset', 'pdrain'):
            if p is None:
                return False
            if k == 'send':
                try:
                    n = p.send(pattern(c, self.sent[c], op[2]))
                except OSError:
                    return False
                self.sent[c] += n
            elif k == 'shutwr':
                try:
                    p.shutdown(socket.SHUT_WR)
                except OSError:
                    return False
            elif k == 'pdrain':
                try:
                    while p.recv(65536):
                        pass
                except OSError:
                    pass
            else:
                if k == 'preset':
                    # abort: RST for TCP (SO_LINGER 0); for AF_UNIX closing with unread data resets the other side
                    if self.family == 'tcp':
                        p.setsockopt(socket.SOL_SOCKET, socket.SO_LINGER, struct.pack('ii', 1, 0))
                p.close()
                self.peers[c] = None
            return True
        if k in ('write', 'close'):
            sock = self.sock_of(c)
            if sock is None:
                return False
            if k == 'write':
                self.m.fire(write_ev(sock, b'w' * op[2]), 'server')
            else:
                self.m.fire(close_ev(sock), 'server')
            return True
        if k == 'closeall':
            self.m.fire(close_ev(), 'server')
            return True
        if k == 'tick':
            return True
        raise ValueError(k)

    def finish(self):
        for c, p in list(self.peers.items()):
            if p is not None:
                p.close()
                self.peers[c] = None
        self.settle(final=True)

    def dispose(self):
        self.m._running = False
        for s in [self.ls] + self.ls.made:
            try:
                s.close()
            except OSError:
                pass
        for fd in (self.poller._ctrl_recv, self.poller._ctrl_send):
            try:
                os.close(fd) if isinstance(fd, int) else fd.close()
            except OSError:
                pass
        pp = getattr(self.poller, '_poller', None)
        if hasattr(pp, 'close'):
            pp.close()
        if self.tmp:
            shutil.rmtree(self.tmp, ignore_errors=True)


def run_server_case(case):
    r = ServerRun(case['poller'], case.get('family', 'unix'))
    try:
        applied = []
        for op in case['ops']:
            ok = r.apply(op)
            applied.append(1 if ok else 0)
            if ok and not (len(op) > 3 and op[3] == 'nosettle') and op[-1] != 'nosettle':
                r.settle()
        r.log.append(('mark_finish',))
        r.finish()
        return {'log': canon_log(r.log), 'seen': r.probe.seen, 'applied': applied,
                'order': r.order, 'sent': [r.sent.get(c, 0) for c in r.order],
                'naccepted': len(r.ls.made), 'sock_none': r.server._sock is None,
                'ls_closed': r.ls.fileno() < 0}
    finally:
        r.dispose()


def canon_log(log):
    out = []
    for e in log:
        e = list(e)
        if e[0] == 'recv' and isinstance(e[2], (bytes, bytearray)):
            e[2] = list(e[2])
        out.append(e)
    return out


# ------------------------------------------------------------------------------------------------ stimuli

def stimuli(log):
    """low-level trace -> (stimuli for the model, calls the implementation made)
    stimulus = [kind, sock, arg]; calls = [['recv', s] | ['send', s, n]]"""
    st, calls = [], []
    i, n = 0, len(log)
    while i < n:
        e = log[i]
        j = i + 1
        if e[0] == 'h':
            # the kernel calls made while this handler ran follow it directly
            sub = []
            while j < n and log[j][0] in ('recv', 'send'):
                sub.append(log[j])
                j += 1
            name, s = e[1], e[2]
            if name == '_read' and s == -1:
                pass          # _accept is a generator: the accept() call shows up in the log where it really runs
            elif name == '_read':
                rc = [x for x in sub if x[0] == 'recv']
                if rc:
                    calls.append(['recv', s])
                    r = rc[0][2]
                    st.append(['read', s, r if isinstance(r, str) else list(r)])
                else:
                    st.append(['read', s, 'would'])
            elif name == '_write':
                sc = [x for x in sub if x[0] == 'send']
                if sc:
                    calls.append(['send', s, sc[0][2]])
                    st.append(['writable', s, sc[0][3]])
                else:
                    st.append(['writable', s, 'trans'])
            elif name == '_disconnect':
                st.append(['disc', s, 0])
            elif name == 'write':
                st.append(['write', s, e[3]])
            elif name == 'close':
                st.append(['closeall', 0, 0] if s == -2 else ['close', s, 0])
        elif e[0] == 'accept':
            gone = j < n and log[j][0] == 'peername_err' and log[j][1] == e[1]
            st.append(['acceptgone' if gone else 'accept', e[1], 0])
        elif e[0] == 'drop':
            st.append(['drop', e[1], 0])
        elif e[0] == 'snap':
            st.append(['snap', 0, 0])
        i = j
    return st, calls



# ------------------------------------------------------------------------------------------------ client side

class CProbe(BaseComponent):
    channel = 'client'

    def init(self, log=None, client=None):
        self.log = log
        self.client = client
        self.seen = []

    @handler('_read', '_write', '_disconnect', 'close', 'connect', priority=50)
    def _low(self, event, *a, **kw):
        self.log.append(('h', event.name, bool(self.client._connected)))

    @handler('write', priority=50)
    def _w(self, event, data=b'', *a):
        self.log.append(('h', 'write', len(data)))

    @handler('_write', priority=-50)
    def _after(self, event, *a):
        self.log.append(('after', bool(self.client._connected)))

    @handler('connected')
    def _connected(self, *a):
        self.seen.append([0])

    @handler('disconnected')
    def _disconnected(self, *a):
        self.seen.append([1])

    @handler('read')
    def _read(self, data):
        self.seen.append([3, list(data)])


def run_client_case(case):
    kind, family = case['poller'], case.get('family', 'unix')
    log = []
    tmp = None

    class CSock(RecSock):
        pass
    CSock.log = log
    CSock.sid = 0
    if family == 'unix':
        tmp = tempfile.mkdtemp(prefix='c12c_')
        addr = os.path.join(tmp, 's')
        ls = socket.socket(socket.AF_UNIX, socket.SOCK_STREAM)
    else:
        ls = socket.socket(socket.AF_INET, socket.SOCK_STREAM)
        addr = ('127.0.0.1', 0)
    ls.bind(addr)
    ls.listen(16)
    ls.setblocking(False)
    addr = ls.getsockname()
    saved = S.socket
    S.socket = CSock
    m = Manager()
    poller = getattr(P, kind)().register(m)
    try:
        cl = (S.UNIXClient if family == 'unix' else S.TCPClient)(bufsize=BUFSIZE).register(m)
        probe = CProbe(log=log, client=cl).register(m)
        m._running = True
        peers = []

        def settle():
            same, last, slept = 0, None, False
            for _ in range(MAXTICKS):
                m.tick(0)
                cur = (len(probe.seen), len(log), bool(cl._connected), len(cl._buffer), len(m._queue))
                same = same + 1 if (cur == last and cur[4] == 0) else 0
                last = cur
                if same >= 3:
                    if family == 'tcp' and not slept:
                        slept = True
                        time.sleep(0.003)
                        same = 0
                        continue
                    break
            while True:
                try:
                    a, _ = ls.accept()
                except OSError:
                    break
                a.setblocking(False)
                a.setsockopt(socket.SOL_SOCKET, socket.SO_RCVBUF, 2048)
                peers.append(a)
        settle()
        applied, sent, bad_connect, snaps = [], 0, False, []

        def dead_in_poller():
            objs = list(poller._read) + list(poller._write) + list(poller._targets) + list(getattr(poller, '_map', {}).values())
            return sum(1 for o in objs if isinstance(o, socket.socket) and o.fileno() < 0)

        def csnap():
            snaps.append([bool(cl._connected), len(cl._buffer), bool(cl._closeflag), cl._sock.fileno() >= 0,
                          dead_in_poller()])
        for idx, op in enumerate(case['ops']):
            log.append(('op', idx, len(probe.seen)))
            k = op[0]
            peer = peers[-1] if peers and peers[-1].fileno() >= 0 else None
            ok = True
            if k == 'connect':
                if cl._connected:
                    bad_connect = True
                if family == 'unix':
                    m.fire(connect_ev(addr), 'client')
                else:
                    m.fire(connect_ev(addr[0], addr[1]), 'client')
            elif k == 'write':          # also after the disconnect (late write)
                m.fire(write_ev(b'w' * op[1]), 'client')
            elif k == 'close':
                m.fire(close_ev(), 'client')
            elif peer is None:
                ok = False
            elif k == 'psend':
                try:
                    peer.send(pattern(7, sent, op[1]))
                    sent += op[1]
                except OSError:
                    ok = False
            elif k == 'pshutwr':
                try:
                    peer.shutdown(socket.SHUT_WR)
                except OSError:
                    ok = False
            elif k == 'pdrain':
                try:
                    while peer.recv(65536):
                        pass
                except OSError:
                    pass
            elif k in ('pclose', 'preset'):
                if k == 'preset' and family == 'tcp':
                    peer.setsockopt(socket.SOL_SOCKET, socket.SO_LINGER, struct.pack('ii', 1, 0))
                peer.close()
            else:
                raise ValueError(k)
            applied.append(1 if ok else 0)
            if ok:
                settle()
                if k == 'connect':
                    log.append(('connect_result', cl._sock.fileno() >= 0))
                csnap()
        log.append(('op', len(case['ops']), len(probe.seen)))
        for a in peers:
            a.close()
        settle()
        csnap()
        return {'log': canon_log(log), 'seen': probe.seen, 'applied': applied, 'bad_connect': bad_connect,
                'snaps': snaps, 'sends': [e[2] for e in log if e[0] == 'send'],
                'final': [bool(cl._connected), [len(x) for x in cl._buffer], bool(cl._closeflag),
                          cl._sock.fileno() >= 0]}
    finally:
        S.socket = saved
        m._running = False
        for a in [ls] + [x for x in (getattr(locals().get('cl'), '_sock', None),) if x is not None]:
            try:
                a.close()
            except OSError:
                pass
        for fd in (poller._ctrl_recv, poller._ctrl_send):
            try:
                os.close(fd) if isinstance(fd, int) else fd.close()
            except OSError:
                pass
        pp = getattr(poller, '_poller', None)
        if hasattr(pp, 'close'):
            pp.close()
        if tmp:
            shutil.rmtree(tmp, ignore_errors=True)


def client_stimuli(log, seen):
    """-> list of [kind, arg, flag]"""
    st = []
    # seen-index boundaries of the operations, to decide whether a connect request led to `connected`
    ops = [e for e in log if e[0] == 'op']
    i, n = 0, len(log)
    cur_op = -1
    while i < n:
        e = log[i]
        j = i + 1
        if e[0] == 'op':
            cur_op += 1
        elif e[0] == 'h':
            sub = []
            while j < n and log[j][0] in ('recv', 'send', 'after', 'peername_err'):
                sub.append(log[j])
                j += 1
            name = e[1]
            if name == 'connect':
                lo = ops[cur_op][2]
                hi = ops[cur_op + 1][2] if cur_op + 1 < len(ops) else len(seen)
                ok = any(x == [0] for x in seen[lo:hi])
                res = [x for x in log[j:] if x[0] == 'connect_result']
                st.append(['connect', 1 if ok else 0, 1 if (res and res[0][1]) else 0])
            elif name == '_read':
                rc = [x for x in sub if x[0] == 'recv']
                r = rc[0][2] if rc else 'would'
                st.append(['read', r if isinstance(r, str) else list(r), 0])
            elif name == '_write':
                sc = [x for x in sub if x[0] == 'send']
                af = [x for x in sub if x[0] == 'after']
                closes = 1 if (e[2] and af and not af[0][1]) else 0
                if not sc:
                    st.append(['writable', 'trans', 0])
                elif sc[0][3] == 'pipe':
                    st.append(['pipe', 0, 0])
                else:
                    st.append(['writable', sc[0][3], closes])
            elif name == '_disconnect':
                st.append(['disc', 0, 0])
            elif name == 'write':
                st.append(['write', e[2], 0])
            elif name == 'close':
                st.append(['close', 0, 0])
        i = j
    return st


# ------------------------------------------------------------------------------------------------ Coq terms

def rres_term(r):
    if r == 'would':
        return 'RWould'
    if r == 'err':
        return 'RErr'
    if len(r) == 0:
        return 'REof'
    return '(RData %s)' % nlist(r)


def wres_term(w):
    if w == 'trans':
        return 'WTrans'
    if w in ('fatal', 'pipe'):
        return 'WFatal'
    return '(WAcc %d%%N)' % w


def stim_term(x):
    k, s, a = x
    if k == 'snap':
        return 'SSnap'
    if k == 'closeall':
        return 'SCloseAll'
    sn = natlit(s) if s >= 0 else natlit(1000 - s)      # unknown objects: numbers the model has never seen
    if k == 'accept':
        return 'SAccept %s' % sn
    if k == 'acceptgone':
        return 'SAcceptGone %s' % sn
    if k == 'read':
        return 'SRead %s %s' % (sn, rres_term(a))
    if k == 'writable':
        return 'SWritable %s %s' % (sn, wres_term(a))
    if k == 'drop':
        return 'SDrop %s' % sn
    if k == 'disc':
        return 'SDisc %s' % sn
    if k == 'write':
        return 'SWrite %s %d%%N' % (sn, a)
    if k == 'close':
        return 'SClose %s' % sn
    raise ValueError(k)


def cstim_term(x):
    k, a, f = x
    if k == 'connect':
        return 'KConnect %s %s' % ('true' if a else 'false', 'true' if f else 'false')
    if k == 'read':
        return 'KRead %s' % rres_term(a)
    if k == 'writable':
        return 'KWritable %s %s' % (wres_term(a), 'true' if f else 'false')
    if k == 'pipe':
        return 'KPipe'
    if k == 'disc':
        return 'KDisc'
    if k == 'write':
        return 'KWrite %d%%N' % a
    if k == 'close':
        return 'KClose'
    raise ValueError(k)


EVK = {'connect': 0, 'read': 1, 'error': 2, 'disconnect': 3, 'lisdown': 5, 'closed': 6}

ENDINGS = (['pclose'], ['shutwr'], ['preset'], ['close'], ['write20k', 'close', 'pclose'], ['write20k', 'close', 'preset'],
           ['write20k', 'pclose'], ['write20k', 'shutwr', 'pdrain'], ['send', 'close'], ['write20k', 'close', 'pdrain'],
           ['closeall'], ['write20k', 'closeall', 'pdrain'], ['write20k', 'closeall', 'preset'], ['closeall', 'closeall'])
LATES = (['write'], ['close'], ['write', 'close'], ['close', 'write', 'tick'], ['write', 'write', 'close', 'close'])


def directed(kinds=KINDS):
    """the scenarios the property names: every way a connection can end x every late request, per poller"""
    out = []
    for kind in kinds:
        for fam in ('unix', 'tcp'):
            for e in ENDINGS:
                for l in LATES:
                    ops = [['connect', 0], ['connect', 1], ['send', 0, 70], ['send', 1, 3]]
                    for x in e + l:
                        if x == 'write20k':
                            ops.append(['write', 0, 20000])
                        elif x == 'write':
                            ops.append(['write', 0, 5])
                        elif x == 'send':
                            ops.append(['send', 0, 10])
                        elif x in ('tick', 'closeall'):
                            ops.append([x])
                        else:
                            ops.append([x, 0])
                    ops.append(['send', 1, 4])
                    out.append({'k': 'server', 'poller': kind, 'family': fam, 'ops': ops})
    return out


class C12(Prop):
    id = 'C12'
    props_file = 'Props/C12.v'
    imports = ['Model.ServerConn', 'Model.ServerConnObs']
    quick_n = 180
    thorough_n = 3000
    rule = ('histories of peer actions (connect, send n, shutdown(WR), close, reset [SO_LINGER 0 on TCP / close with unread '
            'data on AF_UNIX], drain, not reading so that the 4.5 KB send buffer fills) over 1-4 concurrent connections '
            'interleaved with server write / close requests, also to already disconnected sockets, against a real '
            'TCPServer/UNIXServer under Select, Poll, EPoll, stepped with zero-timeout ticks; tables read after every settled '
            'step; plus client histories against real TCPClient/UNIXClient. non-trivial = at least one connection ended and a '
            'request was addressed to it afterwards, or a connection ended while data was buffered for it')
    trusted_base = ['hand-written model Model/ServerConn.v (code after fixes/C12_*.patch) tied to the implementation by this run',
                    'kernel / poller readiness is NOT modelled: the model is driven by the recorded handler invocations and the '
                    'recorded recv()/send()/accept() answers of the real run (partial)',
                    'python oracle in harness/c12.py; real kernel sockets (AF_UNIX and 127.0.0.1)']
    assumptions = ['accept() never returns the same socket object twice (NoDup (accepted h))',
                   'TCP/AF_UNIX deliver the bytes a peer sent in order (the theorem is about recv() results -> read events)',
                   'client: connect is not requested while connected (C12_client_balance_partial)',
                   'a connection reset before accept() is reported without connect: known finding C12-reset-before-accept']

    def __init__(self):
        self._obs = {}
        self.stats = {'ops': {}, 'pollers': {}, 'families': {}, 'stimuli': {}, 'branches': {}}

    # ---- generation
    def generate(self, rng, n, tier):
        cases = []
        d = directed()
        if tier == 'quick':
            # a deterministic third of the directed scenarios, rotating with the seed-derived offset
            off = rng.randrange(4)
            d = [c for i, c in enumerate(d) if i % 4 == off]
        cases += d
        nrand = max(0, n - len(cases))
        for i in range(nrand):
            if rng.random() < 0.35:
                cases.append(self.gen_client(rng))
            else:
                cases.append(self.gen_server(rng, tier))
        return cases

    def gen_server(self, rng, tier):
        kind = rng.choice(KINDS)
        fam = 'tcp' if rng.random() < 0.35 else 'unix'
        nconn = rng.randint(1, 4 if tier == 'thorough' else 3)
        ops, alive, started = [], set(), set()
        for _ in range(rng.randint(4, 16 if tier == 'thorough' else 12)):
            r = rng.random()
            c = rng.randrange(nconn)
            if c not in started or r < 0.08:
                if c in started:
                    continue
                op = ['connect', c]
                if rng.random() < 0.25:
                    op.append('nosettle')
                started.add(c)
                alive.add(c)
            elif r < 0.30:
                op = ['send', c, rng.choice([1, 3, 10, 64, 65, 130, 200])]
            elif r < 0.45:
                op = ['write', c, rng.choice([0, 1, 5, 100, 3000, 20000, 60000])]
            elif r < 0.57:
                op = ['close', c]
            elif r < 0.65:
                op = ['shutwr', c]
            elif r < 0.75:
                op = ['pclose', c]
            elif r < 0.83:
                op = ['preset', c]
            elif r < 0.92:
                op = ['pdrain', c]
            elif r < 0.96:
                op = ['closeall']
            else:
                op = ['tick']
            if op[0] in ('send', 'write', 'close', 'shutwr', 'pdrain', 'closeall') and rng.random() < 0.2:
                op.append('nosettle')
            ops.append(op)
        return {'k': 'server', 'poller': kind, 'family': fam, 'ops': ops}

    def gen_client(self, rng):
        kind = rng.choice(KINDS)
        fam = 'tcp' if rng.random() < 0.5 else 'unix'
        ops = [['connect']]
        for _ in range(rng.randint(2, 10)):
            r = rng.random()
            if r < 0.12:
                ops.append(['connect'])
            elif r < 0.32:
                ops.append(['psend', rng.choice([1, 5, 64, 65, 150])])
            elif r < 0.50:
                ops.append(['write', rng.choice([1, 10, 3000, 300000])])
            elif r < 0.62:
                ops.append(['close'])
            elif r < 0.70:
                ops.append(['pshutwr'])
            elif r < 0.80:
                ops.append(['pclose'])
            elif r < 0.88:
                ops.append(['preset'])
            else:
                ops.append(['pdrain'])
        if rng.random() < 0.5:      # late requests after the connection has ended, then (TCP) a new connection
            ops += [rng.choice([['pclose'], ['preset'], ['close'], ['pshutwr']])]
            ops += [rng.choice([['write', 7], ['close'], ['write', 3000]]) for _ in range(rng.randint(1, 3))]
            if rng.random() < 0.6:
                ops += [['connect'], ['write', 5], ['pdrain']]
        return {'k': 'client', 'poller': kind, 'family': fam, 'ops': ops}

    # ---- implementation
    def impl(self, c):
        key = common.canon(c)
        if c.get('k', 'server') == 'client':
            obs = run_client_case(c)
            obs['stimuli'] = client_stimuli(obs['log'], obs['seen'])
        else:
            obs = run_server_case(c)
            st, calls = stimuli(obs['log'])
            obs['stimuli'], obs['calls'] = st, calls
            obs['gone'] = sorted({e[1] for e in obs['log'] if e[0] == 'peername_err'})
        del obs['log']
        self._obs[key] = obs
        self._count(c, obs)
        return obs

    def _count(self, c, obs):
        st = self.stats
        st['pollers'][c['poller']] = st['pollers'].get(c['poller'], 0) + 1
        fam = c.get('k', 'server') + '/' + c.get('family', 'unix')
        st['families'][fam] = st['families'].get(fam, 0) + 1
        for op, ok in zip(c['ops'], obs.get('applied', [])):
            if ok:
                st['ops'][op[0]] = st['ops'].get(op[0], 0) + 1
        client = c.get('k', 'server') == 'client'
        for x in obs.get('stimuli', []):
            k = x[0]
            arg = x[1] if client else x[2]
            if k == 'read':
                k = 'read:' + (arg if isinstance(arg, str) else ('eof' if not arg else 'data'))
            elif k == 'writable':
                k = 'writable:' + (arg if isinstance(arg, str) else 'accepted')
            st['stimuli'][k] = st['stimuli'].get(k, 0) + 1

    # ---- model
    def model_term(self, c):
        obs = self._obs.get(common.canon(c))
        if obs is None or 'stimuli' not in obs:
            return None
        if c.get('k', 'server') == 'client':
            return 'obs_client [%s]' % '; '.join(cstim_term(x) for x in obs['stimuli'])
        hm = 'false' if c['poller'] == 'Select' else 'true'
        return 'obs_server %s [%s]' % (hm, '; '.join(stim_term(x) for x in obs['stimuli']))

    def obs_for_model(self, c, obs):
        if isinstance(obs, dict) and '__crash__' in obs:
            return [-999]
        if c.get('k', 'server') == 'client':
            evs = [e if e[0] != 3 else [3, bytes(e[1])] for e in obs['seen']]
            conn, pend, flag, sopen = obs['final']
            return [evs, obs['sends'], conn, pend, flag, sopen]
        calls = [[0, x[1]] if x[0] == 'recv' else [1, x[1], x[2]] for x in obs['calls']]
        evs = []
        for e in obs['seen']:
            if e[0] == 'snap':
                evs.append([4, e[1]])
            elif e[0] == 'read':
                evs.append([1, e[1], bytes(e[2])])
            else:
                evs.append([EVK[e[0]], e[1], []])
        return [calls, evs]

    # ---- oracle: the property read directly on the observer's view and the tables
    def oracle(self, c, obs):
        if isinstance(obs, dict) and '__crash__' in obs:
            return None
        if c.get('k', 'server') == 'client':
            return self.oracle_client(c, obs)
        seen, order, nacc = obs['seen'], obs['order'], obs['naccepted']
        ncloseall = sum(1 for op, ok in zip(c['ops'], obs['applied']) if ok and op[0] == 'closeall')
        if nacc != len(order) and not (ncloseall and nacc < len(order)):
            return 'harness: %d connections made but %d accepted' % (len(order), nacc)
        per = {s: [] for s in range(nacc)}
        ended = set()
        nlisdown = nclosed = 0
        for e in seen:
            if e[0] == 'lisdown':
                nlisdown += 1
                if nlisdown > 1:
                    return 'close(): the listening socket was reported disconnected twice'
                if nclosed:
                    return 'close(): closed fired before the listening socket went down'
                continue
            if e[0] == 'closed':
                nclosed += 1
                continue
            if e[0] == 'snap':
                t = e[1]
                clients = set(t[0])
                if nlisdown:
                    if t[8]:
                        return 'close(): the listening socket is still in table(s) %r after close()' % (t[8],)
                    if nclosed:
                        pending = {k[0] for k in t[1]}
                        for k in clients:
                            if k not in t[3] or k not in pending:
                                return ('close(): client %d survived close() although nothing is buffered for it / it is not '
                                        'queued for a deferred close' % k)
                elif sorted(set(t[8]) - {7}) != [4, 6]:
                    return 'listening socket registration is %r while the server is open' % (t[8],)
                names = ('_clients', '_buffers', '_buffers', '_closeq', 'poller._read', 'poller._write',
                         'poller._targets', 'poller._map')
                for idx in (1, 2, 3, 4, 5, 6, 7):
                    keys = [k[0] if idx == 1 else k for k in t[idx]]
                    for k in keys:
                        if k in ended:
                            return 'no-trace: socket %d is still in %s after its disconnect' % (k, names[idx])
                        if k not in clients:
                            return 'no-trace: %s holds socket %d which is not a connected client' % (names[idx], k)
                for k in clients:
                    if k in ended:
                        return 'no-trace: socket %d is still in _clients after its disconnect' % k
                continue
            kind, s = e[0], e[1]
            if s not in per:
                return 'event %s for an object that is not an accepted connection (%r)' % (kind, s)
            if s in ended:
                return 'event %s for socket %d after its disconnect' % (kind, s)
            per[s].append(kind)
            if kind == 'disconnect':
                ended.add(s)
        import re
        known = None      # the recorded defect is reported only if nothing else is wrong with the case
        for s in range(nacc):
            word = ''.join({'connect': 'c', 'read': 'r', 'error': 'e', 'disconnect': 'd'}[k] for k in per[s])
            if s in obs.get('gone', []) and word == 'ed':
                known = 'reset-before-accept: socket %d got error+disconnect without a connect' % s
                continue
            if not re.fullmatch(r'cr*e?d', word):
                return 'socket %d: observers saw %s, not connect read* [error] disconnect (all peers were closed at the end)' % (s, word)
            conn = order[s]
            got = b''.join(bytes(e[2]) for e in seen if e[0] == 'read' and e[1] == s)
            want = pattern(conn, 0, obs['sent'][s])
            if got != want[:len(got)]:
                return 'socket %d: read events carry bytes that are not what the peer sent, in order' % s
            touched = ncloseall or any(op[0] in ('write', 'close', 'preset') and len(op) > 1 and op[1] == conn for op in c['ops'])
            if not touched and 'e' not in word and got != want:
                return 'socket %d: peer sent %d bytes and closed in an orderly way, read events carry only %d' % (s, len(want), len(got))
        last = [e for e in seen if e[0] == 'snap'][-1][1]
        if any(last[:8]):
            return 'no-trace: tables not empty after every connection has ended: %r' % (last,)
        if nclosed != ncloseall or nlisdown != (1 if ncloseall else 0):
            return 'close(): %d close() requests gave %d closed events and %d disconnects of the listening socket' % (
                ncloseall, nclosed, nlisdown)
        if ncloseall and not (obs['sock_none'] and obs['ls_closed']):
            return 'close(): the listening socket is still open / still referenced by the server after close()'
        return known

    def oracle_client(self, c, obs):
        late = self.oracle_client_state(obs)
        if late:
            return late
        if obs['bad_connect']:
            return None           # connect requested while connected: outside the property's precondition
        evs = [e[0] for e in obs['seen'] if e[0] in (0, 1)]
        nc, nd = evs.count(0), evs.count(1)
        conn = obs['final'][0]
        if nc != nd + (1 if conn else 0):
            return 'client: %d connected but %d disconnected (still connected: %s)' % (nc, nd, conn)
        for a, b in zip(evs, evs[1:]):
            if a == b:
                return 'client: two %s events in a row' % ('connected' if a == 0 else 'disconnected')
        if evs and evs[0] != 0:
            return 'client: disconnected before any connected'
        return None

    def oracle_client_state(self, obs):
        """after `disconnected` (socket closed, until a connect makes a new one): not connected, nothing buffered, no
        deferred close; and the poller never keeps a closed socket — also when writes / closes arrive late"""
        for i, (conn, nbuf, flag, sopen, dead) in enumerate(obs['snaps']):
            if dead and not obs['bad_connect']:     # connect while connected registers the socket twice: API misuse
                return 'client-late: the poller holds %d closed socket object(s) at quiescence (step %d)' % (dead, i)
            if not sopen and (conn or nbuf or flag):
                return ('client-late: after disconnected the client keeps state: connected=%s, %d buffered payload(s), '
                        'close pending=%s (step %d)' % (conn, nbuf, flag, i))
        return None

    def finding_class(self, c, obs, what):
        if what.startswith('reset-before-accept') and c.get('family') == 'tcp':
            return 'C12-reset-before-accept'
        return None

    def nontrivial(self, c, obs):
        if isinstance(obs, dict) and '__crash__' in obs:
            return False
        if c.get('k', 'server') == 'client':
            return len([e for e in obs['seen'] if e[0] == 1]) >= 1
        # late request: a write/close op applied to a connection after the snapshot that shows it ended
        first_end = {}
        nsnap = 0
        for e in obs['seen']:
            if e[0] == 'snap':
                nsnap += 1
            elif e[0] == 'disconnect':
                first_end.setdefault(e[1], nsnap)
        k = 0
        for op, ok in zip(c['ops'], obs['applied']):
            if ok and op[0] in ('write', 'close') and op[1] in obs['order']:
                s = obs['order'].index(op[1])
                if s in first_end and first_end[s] <= k:
                    return True
            if ok and op[-1] != 'nosettle':
                k += 1
        return any(e[0] == 'error' for e in obs['seen'])

    def search(self, rng, tier):
        for c in directed():
            yield c
        for _ in range(600):
            yield self.gen_server(rng, 'thorough')
        for _ in range(150):
            yield self.gen_client(rng)


if __name__ == '__main__':
    sys.exit(common.main(C12()))
