"""C12 — every connection: one connect, ordered reads, one disconnect, then no trace.

A case is a history of peer actions and server-side requests over a few concurrent connections, run against a
REAL `TCPServer`/`UNIXServer` (listening socket made by the harness and handed to the component) with real
in-process peers under one of Select / Poll / EPoll.  The loop is stepped in the checking thread with
zero-timeout ticks; after every settled step the server's and the poller's tables are read.

Three things are derived from one run:
  * the observer view (connect/read/disconnect/error per connection) and the tables        -> oracle (property)
  * the low-level trace: which `_read/_write/_disconnect/write/close` handler invocations the server received,
    in order, and what the kernel answered to each recv()/send()/accept() it made               -> stimuli of the model
  * what the server did with them: recv/send calls made, events fired, tables                   -> compared with the model
The kernel is therefore *scripted from the real run* (DESIGN §4: oracles recorded from the very calls the
implementation made); the model never guesses readiness.

Client part: real `TCPClient`/`UNIXClient` against a listening socket owned by the harness; same scheme.
"""
import errno
import os
import shutil
import socket
import struct
import sys
import tempfile

sys.path.insert(0, os.path.dirname(os.path.abspath(__file__)))
import common
from common import Prop, nlist, natlit

from circuits import BaseComponent, Manager, handler
from circuits.core import pollers as P
from circuits.net import sockets as S
from circuits.net.events import close as close_ev
from circuits.net.events import connect as connect_ev
from circuits.net.events import write as write_ev

KINDS = ('Select', 'Poll', 'EPoll')
BUFSIZE = 64          # server/client recv size: sends above 64 bytes need several recv()s
SNDBUF = 4608         # kernel send buffer of accepted sockets: a few KB fill it
MAXTICKS = 60
TRANSIENT = (errno.EINTR, errno.EWOULDBLOCK, errno.ENOBUFS)


def pattern(c, start, n):
    """the bytes peer c sends: position-dependent, so loss / duplication / reordering is visible"""
    return bytes(((c * 53 + (start + i) * 7 + ((start + i) >> 8)) % 251) for i in range(n))


class RecSock(socket.socket):
    """socket.socket whose recv/send/getpeername calls and results are logged (server side / client side)"""
    sid = None
    log = None

    def recv(self, n, *a):
        try:
            d = super().recv(n, *a)
        except OSError as e:
            self.log.append(('recv', self.sid, 'would' if e.errno in (errno.EWOULDBLOCK, errno.EAGAIN) else 'err'))
            raise
        self.log.append(('recv', self.sid, d))
        return d

    def send(self, data, *a):
        try:
            k = super().send(data, *a)
        except OSError as e:
            kind = 'trans' if e.errno in TRANSIENT else ('pipe' if e.errno in (errno.EPIPE, errno.ENOTCONN) else 'fatal')
            self.log.append(('send', self.sid, len(data), kind))
            raise
        self.log.append(('send', self.sid, len(data), k))
        return k

    def getpeername(self):
        try:
            return super().getpeername()
        except OSError:
            self.log.append(('peername_err', self.sid))
            raise


class Listen(socket.socket):
    """listening socket: accepted sockets are RecSock, numbered in order of acceptance"""
    log = None
    made = None

    def accept(self):
        try:
            fd, addr = self._accept()
        except OSError:
            self.log.append(('accept_none',))
            raise
        s = RecSock(self.family, self.type, self.proto, fileno=fd)
        s.log = self.log
        s.sid = len(self.made)
        self.made.append(s)
        s.setsockopt(socket.SOL_SOCKET, socket.SO_SNDBUF, SNDBUF)
        self.log.append(('accept', s.sid))
        return s, addr


class Probe(BaseComponent):
    """records (a) the handler-level stimuli the server receives, before the server handles them,
    (b) what an application component observes"""
    channel = 'server'

    def init(self, log=None, sid=None):
        self.log = log
        self.sid = sid
        self.seen = []

    @handler('_read', '_write', '_disconnect', priority=50)
    def _low(self, event, sock, *a):
        self.log.append(('h', event.name, self.sid(sock)))

    @handler('write', priority=50)
    def _w(self, event, sock, data=b'', *a):
        self.log.append(('h', 'write', self.sid(sock), len(data)))

    @handler('close', priority=50)
    def _c(self, event, sock=None, *a):
        self.log.append(('h', 'close', self.sid(sock)))

    @handler('connect')
    def _connect(self, sock, *a):
        self.seen.append(['connect', self.sid(sock), []])

    @handler('read')
    def _read(self, sock, data):
        self.seen.append(['read', self.sid(sock), list(data)])

    @handler('disconnect')
    def _disc(self, sock=None, *a):
        self.seen.append(['disconnect', self.sid(sock), []])

    @handler('error')
    def _err(self, sock=None, *a):
        self.seen.append(['error', self.sid(sock) if isinstance(sock, socket.socket) else -1, []])


def _fire_hook(poller, log, sid):
    orig = poller.fire

    def fire(event, *channels, **kw):
        if event.name == '_disconnect':
            log.append(('drop', sid(event.args[0])))
        return orig(event, *channels, **kw)
    poller.fire = fire


class ServerRun:
    def __init__(self, kind, family):
        self.kind, self.family = kind, family
        self.log = []
        self.tmp = None
        if family == 'unix':
            self.tmp = tempfile.mkdtemp(prefix='c12_')
            self.addr = os.path.join(self.tmp, 's')
            ls = Listen(socket.AF_UNIX, socket.SOCK_STREAM)
        else:
            ls = Listen(socket.AF_INET, socket.SOCK_STREAM)
            ls.setsockopt(socket.SOL_SOCKET, socket.SO_REUSEADDR, 1)
            self.addr = ('127.0.0.1', 0)
        ls.log, ls.made = self.log, []
        ls.setblocking(False)
        ls.bind(self.addr)
        ls.listen(64)
        self.addr = ls.getsockname()
        self.ls = ls
        self.m = Manager()
        self.poller = getattr(P, kind)().register(self.m)
        cls = S.UNIXServer if family == 'unix' else S.TCPServer
        self.server = cls(ls, bufsize=BUFSIZE).register(self.m)
        self.probe = Probe(log=self.log, sid=self.sid).register(self.m)
        _fire_hook(self.poller, self.log, self.sid)
        self.peers = {}          # conn -> peer socket (None once closed)
        self.order = []          # conn ids in the order their connect() was issued
        self.sent = {}           # conn -> number of bytes the peer has sent
        self.m._running = True
        self.settle()

    def sid(self, sock):
        if sock is None:
            return -2
        if sock is self.ls:
            return -1
        return getattr(sock, 'sid', -3) if isinstance(sock, RecSock) else -3

    def sock_of(self, c):
        """server-side socket object of connection c (the k-th accepted is the k-th connected)"""
        if c in self.order:
            k = self.order.index(c)
            if k < len(self.ls.made):
                return self.ls.made[k]
        return None

    def conn_of(self, sid):
        return self.order[sid] if 0 <= sid < len(self.order) else sid

    # ---- tables
    def tables(self):
        s, p = self.server, self.poller
        live = list(s._clients)
        sid = self.sid
        bufs = sorted([sid(k), [len(x) for x in v]] for k, v in s._buffers.items() if len(v) and k in live)
        stale = sorted(sid(k) for k in s._buffers if k not in live and k is not self.ls)
        mp = []
        if hasattr(p, '_map'):
            mp = sorted(sid(v) for v in p._map.values() if isinstance(v, socket.socket) and v is not self.ls)
        return [sorted(sid(k) for k in live), bufs, stale, sorted(sid(k) for k in s._closeq),
                sorted(sid(k) for k in p._read if isinstance(k, socket.socket) and k is not self.ls),
                sorted(sid(k) for k in p._write if isinstance(k, socket.socket)),
                sorted(sid(k) for k in p._targets if isinstance(k, socket.socket) and k is not self.ls),
                mp]

    def settle(self):
        """zero-timeout ticks until three consecutive ticks change neither the tables nor the observer's view"""
        same, last = 0, None
        for _ in range(MAXTICKS):
            self.m.tick(0)
            cur = (common.canon(self.tables()), len(self.probe.seen), len(self.m._queue))
            same = same + 1 if (cur == last and cur[2] == 0) else 0
            last = cur
            if same >= 3:
                break
        self.log.append(('snap', self.tables()))

    # ---- operations
    def apply(self, op):
        k = op[0]
        c = op[1] if len(op) > 1 else None
        p = self.peers.get(c)
        if k == 'connect':
            if c in self.peers:
                return False
            fam = socket.AF_UNIX if self.family == 'unix' else socket.AF_INET
            ps = socket.socket(fam, socket.SOCK_STREAM)
            ps.connect(self.addr)
            ps.setblocking(False)
            self.peers[c] = ps
            self.order.append(c)
            self.sent[c] = 0
            return True
        if k in ('send', 'shutwr', 'pclose', 'preset', 'pdrain'):
            if p is None:
                return False
            if k == 'send':
                try:
                    n = p.send(pattern(c, self.sent[c], op[2]))
                except OSError:
                    return False
                self.sent[c] += n
            elif k == 'shutwr':
                try:
                    p.shutdown(socket.SHUT_WR)
                except OSError:
                    return False
            elif k == 'pdrain':
                try:
                    while p.recv(65536):
                        pass
                except OSError:
                    pass
            else:
                if k == 'preset':
                    # abort: RST for TCP (SO_LINGER 0); for AF_UNIX closing with unread data resets the other side
                    if self.family == 'tcp':
                        p.setsockopt(socket.SOL_SOCKET, socket.SO_LINGER, struct.pack('ii', 1, 0))
                p.close()
                self.peers[c] = None
            return True
        if k in ('write', 'close'):
            sock = self.sock_of(c)
            if sock is None:
                return False
            if k == 'write':
                self.m.fire(write_ev(sock, b'w' * op[2]), 'server')
            else:
                self.m.fire(close_ev(sock), 'server')
            return True
        if k == 'tick':
            return True
        raise ValueError(k)

    def finish(self):
        for c, p in list(self.peers.items()):
            if p is not None:
                p.close()
                self.peers[c] = None
        self.settle()

    def dispose(self):
        self.m._running = False
        for s in [self.ls] + self.ls.made:
            try:
                s.close()
            except OSError:
                pass
        for fd in (self.poller._ctrl_recv, self.poller._ctrl_send):
            try:
                os.close(fd) if isinstance(fd, int) else fd.close()
            except OSError:
                pass
        pp = getattr(self.poller, '_poller', None)
        if hasattr(pp, 'close'):
            pp.close()
        if self.tmp:
            shutil.rmtree(self.tmp, ignore_errors=True)


def run_server_case(case):
    r = ServerRun(case['poller'], case.get('family', 'unix'))
    try:
        applied = []
        for op in case['ops']:
            ok = r.apply(op)
            applied.append(1 if ok else 0)
            if ok and not (len(op) > 3 and op[3] == 'nosettle') and op[-1] != 'nosettle':
                r.settle()
        r.log.append(('mark_finish',))
        r.finish()
        return {'log': canon_log(r.log), 'seen': r.probe.seen, 'applied': applied,
                'order': r.order, 'sent': [r.sent.get(c, 0) for c in r.order],
                'naccepted': len(r.ls.made)}
    finally:
        r.dispose()


def canon_log(log):
    out = []
    for e in log:
        e = list(e)
        if e[0] == 'recv' and isinstance(e[2], (bytes, bytearray)):
            e[2] = list(e[2])
        out.append(e)
    return out


# ------------------------------------------------------------------------------------------------ stimuli

def stimuli(log):
    """low-level trace -> (stimuli for the model, calls the implementation made)
    stimulus = [kind, sock, arg]; calls = [['recv', s] | ['send', s, n]]"""
    st, calls = [], []
    i, n = 0, len(log)
    while i < n:
        e = log[i]
        j = i + 1
        if e[0] == 'h':
            # the kernel calls made while this handler ran follow it directly
            sub = []
            while j < n and log[j][0] in ('recv', 'send', 'accept', 'accept_none', 'peername_err'):
                sub.append(log[j])
                j += 1
            name, s = e[1], e[2]
            if name == '_read' and s == -1:
                acc = [x for x in sub if x[0] == 'accept']
                if acc:
                    gone = any(x[0] == 'peername_err' for x in sub)
                    st.append(['acceptgone' if gone else 'accept', acc[0][1], 0])
            elif name == '_read':
                rc = [x for x in sub if x[0] == 'recv']
                if rc:
                    calls.append(['recv', s])
                    r = rc[0][2]
                    st.append(['read', s, r if isinstance(r, str) else list(r)])
                else:
                    st.append(['read', s, 'would'])
            elif name == '_write':
                sc = [x for x in sub if x[0] == 'send']
                if sc:
                    calls.append(['send', s, sc[0][2]])
                    st.append(['writable', s, sc[0][3]])
                else:
                    st.append(['writable', s, 'trans'])
            elif name == '_disconnect':
                st.append(['disc', s, 0])
            elif name == 'write':
                st.append(['write', s, e[3]])
            elif name == 'close':
                st.append(['close', s, 0])
        elif e[0] == 'drop':
            st.append(['drop', e[1], 0])
        elif e[0] == 'snap':
            st.append(['snap', 0, 0])
        i = j
    return st, calls


if __name__ == '__main__':
    import json
    case = json.loads(sys.argv[1])
    out = run_server_case(case)
    for e in out['log']:
        print(e)
    print(out['seen'])
    print(stimuli(out['log']))
