"""C12 — every connection: one connect, ordered reads, one disconnect, then no trace.

A case is a history of peer actions and server-side requests over a few concurrent connections, run against a
REAL `TCPServer`/`UNIXServer` (listening socket made by the harness and handed to the component) with real
in-process peers under one of Select / Poll / EPoll.  The loop is stepped in the checking thread with
zero-timeout ticks; after every settled step the server's and the poller's tables are read.

Three things are derived from one run:
  * the observer view (connect/read/disconnect/error per connection) and the tables        -> oracle (property)
  * the low-level trace: which `_read/_write/_disconnect/write/close` handler invocations the server received,
    in order, and what the kernel answered to each recv()/send()/accept() it made               -> stimuli of the model
  * what the server did with them: recv/send calls made, events fired, tables                   -> compared with the model
The kernel is therefore *scripted from the real run* (DESIGN §4: oracles recorded from the very calls the
implementation made); the model never guesses readiness.

Client part: real `TCPClient`/`UNIXClient` against a listening socket owned by the harness; same scheme.
"""
import errno
import os
import shutil
import socket
import struct
import sys
import tempfile
import time

sys.path.insert(0, os.path.dirname(os.path.abspath(__file__)))
import common
from common import Prop, nlist, natlit

from circuits import BaseComponent, Manager, handler
from circuits.core import pollers as P
from circuits.net import sockets as S
from circuits.net.events import close as close_ev
from circuits.net.events import connect as connect_ev
from circuits.net.events import write as write_ev

from collections import deque

KINDS = ('Select', 'Poll', 'EPoll')
CONT = (dict, list, set, frozenset, tuple, deque)
BYTESLIKE = (bytes, bytearray, memoryview)
DEGRADED = set()      # observables that could not be obtained in this run (recorded in the evidence)


def _is_buf(v):
    """buffer-like value: a sequence that is empty or holds only bytes-like payloads"""
    return isinstance(v, (list, deque, tuple)) and all(isinstance(x, BYTESLIKE) for x in v)


def scan(owner, socks, depth=4):
    """Name- and type-independent residue scan: where are the socket objects `socks` referenced from the attributes
    of `owner` (recursively through dict / list / set / deque / tuple, bounded depth)?
    -> {id(sock): {'plain': #sequences/sets holding it, 'key': #dicts keyed by it (non-buffer value),
                   'bufkey': #dicts keyed by it whose value is a payload buffer, 'buf': [payload lengths],
                   'val': #dict values that are it, 'attr': #attributes that are it}}"""
    res = {id(x): {'plain': 0, 'key': 0, 'bufkey': 0, 'buf': [], 'val': 0, 'attr': 0} for x in socks}
    seen = set()

    def walk(v, d):
        if id(v) in seen or d < 0:
            return
        seen.add(id(v))
        if isinstance(v, dict):
            for k, x in list(v.items()):
                if id(k) in res:
                    if _is_buf(x):
                        res[id(k)]['bufkey'] += 1
                        res[id(k)]['buf'] += [len(y) for y in x]
                    else:
                        res[id(k)]['key'] += 1
                if id(x) in res:
                    res[id(x)]['val'] += 1
                elif isinstance(x, CONT):
                    walk(x, d - 1)
        else:
            hit = set()
            for x in list(v):
                if id(x) in res:
                    hit.add(id(x))
                elif isinstance(x, CONT):
                    walk(x, d - 1)
            for h in hit:
                res[h]['plain'] += 1
    for _name, v in list(vars(owner).items()):
        if id(v) in res:
            res[id(v)]['attr'] += 1
        elif isinstance(v, CONT):
            walk(v, depth)
    return res


def first_attr(obj, names, what):
    """look an observable up by meaning through a small table of candidate names; None (and a note) if absent"""
    for n in names:
        if hasattr(obj, n):
            return getattr(obj, n)
    DEGRADED.add(what)
    return None


def blame(exc):
    """'impl' if the deepest frame of the traceback that belongs to circuits or to this harness is circuits code"""
    who = 'harness'
    tb = exc.__traceback__
    here = os.path.dirname(os.path.abspath(__file__))
    while tb is not None:
        f = os.path.abspath(tb.tb_frame.f_code.co_filename)
        if f.startswith(here):
            who = 'harness'
        elif os.sep + 'circuits' + os.sep in f:
            who = 'impl'
        tb = tb.tb_next
    return who
BUFSIZE = 64          # server/client recv size: sends above 64 bytes need several recv()s
SNDBUF = 4608         # kernel send buffer of accepted sockets: a few KB fill it
MAXTICKS = 60
TRANSIENT = (errno.EINTR, errno.EWOULDBLOCK, errno.ENOBUFS)


def pattern(c, start, n):
    """the bytes peer c sends: position-dependent, so loss / duplication / reordering is visible"""
    return bytes(((c * 53 + (start + i) * 7 + ((start + i) >> 8)) % 251) for i in range(n))


class RecSock(socket.socket):
    """socket.socket whose recv/send/getpeername calls and results are logged (server side / client side)"""
    sid = None
    log = None

    def recv(self, n, *a):
        try:
            d = super().recv(n, *a)
        except OSError as e:
            self.log.append(('recv', self.sid, 'would' if e.errno in (errno.EWOULDBLOCK, errno.EAGAIN) else 'err'))
            raise
        self.log.append(('recv', self.sid, d))
        return d

    def send(self, data, *a):
        try:
            k = super().send(data, *a)
        except OSError as e:
            kind = 'trans' if e.errno in TRANSIENT else ('pipe' if e.errno in (errno.EPIPE, errno.ENOTCONN) else 'fatal')
            self.log.append(('send', self.sid, len(data), kind))
            raise
        self.log.append(('send', self.sid, len(data), k))
        return k

    def getpeername(self):
        try:
            return super().getpeername()
        except OSError:
            self.log.append(('peername_err', self.sid))
            raise


class Listen(socket.socket):
    """listening socket: accepted sockets are RecSock, numbered in order of acceptance"""
    log = None
    made = None

    def accept(self):
        try:
            fd, addr = self._accept()
        except OSError:
            self.log.append(('accept_none',))
            raise
        s = RecSock(self.family, self.type, self.proto, fileno=fd)
        s.log = self.log
        s.sid = len(self.made)
        self.made.append(s)
        s.setsockopt(socket.SOL_SOCKET, socket.SO_SNDBUF, SNDBUF)
        self.log.append(('accept', s.sid))
        return s, addr


class Probe(BaseComponent):
    """records (a) the handler-level stimuli the server receives, before the server handles them,
    (b) what an application component observes"""
    channel = 'server'

    def init(self, log=None, sid=None):
        self.log = log
        self.sid = sid
        self.seen = []
        self.accepted = {}

    @handler('_read', '_write', '_disconnect', priority=50)
    def _low(self, event, sock, *a):
        self.log.append(('h', event.name, self.sid(sock)))

    @handler('write', priority=50)
    def _w(self, event, sock, data=b'', *a):
        self.log.append(('h', 'write', self.sid(sock), len(data)))
        if isinstance(sock, socket.socket) and sock.fileno() >= 0:      # handed to a connected socket: accepted for writing
            self.accepted[self.sid(sock)] = self.accepted.get(self.sid(sock), 0) + len(data)

    @handler('close', priority=50)
    def _c(self, event, sock=None, *a):
        self.log.append(('h', 'close', self.sid(sock)))

    @handler('connect')
    def _connect(self, sock, *a):
        self.seen.append(['connect', self.sid(sock), []])

    @handler('read')
    def _read(self, sock, data):
        self.seen.append(['read', self.sid(sock), list(data)])

    @handler('disconnect')
    def _disc(self, sock=None, *a):
        if self.sid(sock) == -1:
            self.seen.append(['lisdown', 0, []])      # disconnect(listening socket)
        else:
            self.seen.append(['disconnect', self.sid(sock), []])

    @handler('closed')
    def _closed(self, *a):
        self.seen.append(['closed', 0, []])

    @handler('error')
    def _err(self, sock=None, *a):
        self.seen.append(['error', self.sid(sock) if isinstance(sock, socket.socket) else -1, []])


def _fire_hook(poller, log, sid):
    orig = poller.fire

    def fire(event, *channels, **kw):
        if event.name == '_disconnect':
            log.append(('drop', sid(event.args[0])))
        return orig(event, *channels, **kw)
    poller.fire = fire


def fdset(limit=2048):
    """the descriptor numbers open in this process (probed with fstat: looking must not open a descriptor itself)"""
    out = set()
    for n in range(limit):
        try:
            os.fstat(n)
        except OSError:
            continue
        out.add(n)
    return out


def dispose_poller(poller, new_fds):
    """release what the poller opened (control pipe, kernel poll object) wherever it keeps it"""
    for v in list(vars(poller).values()):
        try:
            if isinstance(v, socket.socket) or (hasattr(v, 'register') and hasattr(v, 'close')):
                v.close()
            elif isinstance(v, int) and not isinstance(v, bool) and v in new_fds:
                os.close(v)
        except OSError:
            pass


class ServerRun:
    def __init__(self, kind, family):
        self.kind, self.family = kind, family
        self.log = []
        self.tmp = None
        if family == 'unix':
            self.tmp = tempfile.mkdtemp(prefix='c12_')
            self.addr = os.path.join(self.tmp, 's')
            ls = Listen(socket.AF_UNIX, socket.SOCK_STREAM)
        else:
            ls = Listen(socket.AF_INET, socket.SOCK_STREAM)
            ls.setsockopt(socket.SOL_SOCKET, socket.SO_REUSEADDR, 1)
            self.addr = ('127.0.0.1', 0)
        ls.log, ls.made = self.log, []
        ls.setblocking(False)
        ls.bind(self.addr)
        ls.listen(64)
        self.addr = ls.getsockname()
        self.ls = ls
        self.m = Manager()
        before = fdset()
        self.poller = getattr(P, kind)().register(self.m)
        self.poller_fds = fdset() - before
        cls = S.UNIXServer if family == 'unix' else S.TCPServer
        self.server = cls(ls, bufsize=BUFSIZE).register(self.m)
        self.probe = Probe(log=self.log, sid=self.sid).register(self.m)
        _fire_hook(self.poller, self.log, self.sid)
        self.peers = {}          # conn -> peer socket (None once closed)
        self.order = []          # conn ids in the order their connect() was issued
        self.sent = {}           # conn -> number of bytes the peer has sent
        self.pgot = {}           # conn -> number of bytes the peer has received
        # reference: every connection has a shadow on raw sockets that gets the same peer actions (and the server's
        # writes) but is read only at the very end -> what the kernel still delivers to a reader after all that
        self.ls2 = socket.socket(ls.family, socket.SOCK_STREAM)
        self.ls2.bind(os.path.join(self.tmp, 'r') if family == 'unix' else ('127.0.0.1', 0))
        self.ls2.listen(64)
        self.shadow = {}         # conn -> [peer side, server side]
        self.m._running = True
        self.settle()

    def sid(self, sock):
        if sock is None:
            return -2
        if sock is self.ls:
            return -1
        return getattr(sock, 'sid', -3) if isinstance(sock, RecSock) else -3

    def sock_of(self, c):
        """server-side socket object of connection c (the k-th accepted is the k-th connected)"""
        if c in self.order:
            k = self.order.index(c)
            if k < len(self.ls.made):
                return self.ls.made[k]
        return None

    def conn_of(self, sid):
        return self.order[sid] if 0 <= sid < len(self.order) else sid

    # ---- tables, by meaning and without private names (see scan)
    def tables(self):
        made, ls = self.ls.made, self.ls
        srv = scan(self.server, made + [ls])
        pol = scan(self.poller, made + [ls])
        rows = []
        for x in made:
            a, b = srv[id(x)], pol[id(x)]
            is_open = x.fileno() >= 0
            track = a['plain'] + a['key']
            residue = 1 if (not is_open and a['bufkey'] + a['val'] + a['attr'] > 0) else 0
            prow = [b['plain'], b['key'] + b['bufkey'], b['val']]
            if is_open or track or residue or any(prow):
                rows.append([x.sid, 1 if is_open else 0, track, residue, a['buf'] if is_open else []] + prow)
        a, b = srv[id(ls)], pol[id(ls)]
        lrow = [1 if ls.fileno() >= 0 else 0, a['plain'] + a['key'] + a['bufkey'] + a['val'],
                b['plain'], b['key'] + b['bufkey'], b['val']]
        return [rows, lrow]

    def settle(self, final=False):
        """zero-timeout ticks until three consecutive ticks change neither the tables nor the observer's view.
        Loopback TCP may deliver a FIN/RST a moment after the peer's syscall returned (softirq under load): for the
        tcp family a stable state is confirmed after a short sleep, and the final settle waits (bounded) until every
        connection whose peer is closed has been torn down."""
        def stable():
            same, last = 0, None
            for _ in range(MAXTICKS):
                self.m.tick(0)
                cur = (common.canon(self.tables()), len(self.probe.seen), len(self.m))
                same = same + 1 if (cur == last and cur[2] == 0) else 0
                last = cur
                if same >= 3:
                    break
            return last
        def all_down():
            return not any(x.fileno() >= 0 for x in self.ls.made)
        cur = stable()
        if self.family == 'tcp' or final:
            for _ in range(60 if final else 2):
                if final and all_down():
                    break
                if self.family == 'tcp':
                    time.sleep(0.003)
                nxt = stable()
                if nxt == cur and (not final or self.family != 'tcp'):
                    break
                cur = nxt
        t = self.tables()
        self.log.append(('snap', t))
        self.probe.seen.append(['snap', t])

    # ---- operations
    def apply(self, op):
        k = op[0]
        c = op[1] if len(op) > 1 else None
        p = self.peers.get(c)
        if k == 'connect':
            if c in self.peers:
                return False
            fam = socket.AF_UNIX if self.family == 'unix' else socket.AF_INET
            ps = socket.socket(fam, socket.SOCK_STREAM)
            try:
                ps.connect(self.addr)
            except OSError:           # the server closed its listening socket
                ps.close()
                return False
            ps.setblocking(False)
            self.peers[c] = ps
            self.order.append(c)
            self.sent[c] = 0
            sp = socket.socket(fam, socket.SOCK_STREAM)
            sp.connect(self.ls2.getsockname())
            ss, _ = self.ls2.accept()
            sp.setblocking(False)
            ss.setblocking(False)
            self.shadow[c] = [sp, ss]
            return True
        if k in ('send', 'shutwr', 'pclose', 'preset', 'pdrain'):
            if p is None:
                return False
            sp = self.shadow[c][0]
            if k == 'send':
                try:
                    n = p.send(pattern(c, self.sent[c], op[2]))
                except OSError:
                    return False
                try:
                    sp.send(pattern(c, self.sent[c], n))
                except OSError:
                    pass
                self.sent[c] += n
            elif k == 'shutwr':
                try:
                    p.shutdown(socket.SHUT_WR)
                except OSError:
                    return False
                try:
                    sp.shutdown(socket.SHUT_WR)
                except OSError:
                    pass
            elif k == 'pdrain':
                self.drain(c)
                try:
                    while sp.recv(65536):
                        pass
                except OSError:
                    pass
            else:
                if k == 'preset':
                    # abort: RST for TCP (SO_LINGER 0); for AF_UNIX closing with unread data resets the other side
                    if self.family == 'tcp':
                        for q in (p, sp):
                            q.setsockopt(socket.SOL_SOCKET, socket.SO_LINGER, struct.pack('ii', 1, 0))
                p.close()
                sp.close()
                self.peers[c] = None
            return True
        if k in ('write', 'close'):
            sock = self.sock_of(c)
            if sock is None:
                return False
            if k == 'write':
                self.m.fire(write_ev(sock, b'w' * op[2]), 'server')
                try:
                    self.shadow[c][1].send(b'w' * min(op[2], 4096))
                except OSError:
                    pass
            else:
                self.m.fire(close_ev(sock), 'server')
            return True
        if k == 'closeall':
            self.m.fire(close_ev(), 'server')
            return True
        if k == 'tick':
            return True
        raise ValueError(k)

    def drain(self, c):
        """peer c reads what is there -> number of bytes"""
        n, p = 0, self.peers.get(c)
        if p is not None:
            try:
                while True:
                    d = p.recv(65536)
                    if not d:
                        break
                    n += len(d)
            except OSError:
                pass
        self.pgot[c] = self.pgot.get(c, 0) + n
        return n

    def finish(self):
        # peers that are still there keep reading until the server has nothing more for them
        for _ in range(40):
            if not sum(self.drain(c) for c in list(self.peers)):
                break
            self.settle()
        for c, p in list(self.peers.items()):
            if p is not None:
                p.close()
                self.shadow[c][0].close()
                self.peers[c] = None
        self.settle(final=True)

    def reference(self):
        """bytes a raw reader gets from each shadow connection when it starts reading only now (until EOF / error)"""
        out = []
        for c in self.order:
            ss = self.shadow[c][1]
            n, waits = 0, 0
            while True:
                try:
                    d = ss.recv(65536)
                except (BlockingIOError, InterruptedError):
                    waits += 1
                    if waits > 20:
                        break
                    time.sleep(0.003)
                    continue
                except OSError:
                    break
                if not d:
                    break
                n += len(d)
            out.append(n)
        return out

    def dispose(self):
        self.m._running = False
        for s in [self.ls, self.ls2] + self.ls.made + [x for pr in self.shadow.values() for x in pr]:
            try:
                s.close()
            except OSError:
                pass
        dispose_poller(self.poller, self.poller_fds)
        if self.tmp:
            shutil.rmtree(self.tmp, ignore_errors=True)


def run_server_case(case):
    r = ServerRun(case['poller'], case.get('family', 'unix'))
    try:
        applied = []
        for op in case['ops']:
            ok = r.apply(op)
            applied.append(1 if ok else 0)
            if ok and not (len(op) > 3 and op[3] == 'nosettle') and op[-1] != 'nosettle':
                r.settle()
        r.log.append(('mark_finish',))
        r.finish()
        return {'log': canon_log(r.log), 'seen': r.probe.seen, 'applied': applied,
                'order': r.order, 'sent': [r.sent.get(c, 0) for c in r.order],
                'naccepted': len(r.ls.made), 'ls_closed': r.ls.fileno() < 0, 'reference': r.reference(),
                'peer_got': [r.pgot.get(c, 0) for c in r.order],
                'accepted': [r.probe.accepted.get(k, 0) for k in range(len(r.order))]}
    finally:
        r.dispose()


def canon_log(log):
    out = []
    for e in log:
        e = list(e)
        if e[0] == 'recv' and isinstance(e[2], (bytes, bytearray)):
            e[2] = list(e[2])
        out.append(e)
    return out


# ------------------------------------------------------------------------------------------------ stimuli

def stimuli(log):
    """low-level trace -> (stimuli for the model, calls the implementation made)
    stimulus = [kind, sock, arg]; calls = [['recv', s] | ['send', s, n]]"""
    st, calls = [], []
    i, n = 0, len(log)
    while i < n:
        e = log[i]
        j = i + 1
        if e[0] == 'h':
            # the kernel calls made while this handler ran follow it directly
            sub = []
            while j < n and log[j][0] in ('recv', 'send'):
                sub.append(log[j])
                j += 1
            name, s = e[1], e[2]
            if name == '_read' and s == -1:
                pass          # _accept is a generator: the accept() call shows up in the log where it really runs
            elif name == '_read':
                rc = [x for x in sub if x[0] == 'recv']
                if rc:
                    calls.append(['recv', s])
                    r = rc[0][2]
                    st.append(['read', s, r if isinstance(r, str) else list(r)])
                else:
                    st.append(['read', s, 'would'])
            elif name == '_write':
                sc = [x for x in sub if x[0] == 'send']
                if sc:
                    calls.append(['send', s, sc[0][2]])
                    st.append(['writable', s, sc[0][3]])
                else:
                    st.append(['writable', s, 'trans'])
            elif name == '_disconnect':
                st.append(['disc', s, 0])
            elif name == 'write':
                st.append(['write', s, e[3]])
            elif name == 'close':
                st.append(['closeall', 0, 0] if s == -2 else ['close', s, 0])
        elif e[0] == 'accept':
            gone = j < n and log[j][0] == 'peername_err' and log[j][1] == e[1]
            st.append(['acceptgone' if gone else 'accept', e[1], 0])
        elif e[0] == 'drop':
            st.append(['drop', e[1], 0])
        elif e[0] == 'snap':
            st.append(['snap', 0, 0])
        i = j
    return st, calls



# ------------------------------------------------------------------------------------------------ client side

class CProbe(BaseComponent):
    channel = 'client'

    def init(self, log=None, client=None):
        self.log = log
        self.client = client
        self.seen = []

    @handler('_read', '_write', '_disconnect', 'close', 'connect', priority=50)
    def _low(self, event, *a, **kw):
        self.log.append(('h', event.name, bool(self.client.connected)))

    @handler('write', priority=50)
    def _w(self, event, data=b'', *a):
        self.log.append(('h', 'write', len(data)))

    @handler('_write', priority=-50)
    def _after(self, event, *a):
        self.log.append(('after', bool(self.client.connected)))

    @handler('unreachable', 'error')
    def _failed(self, *a):
        self.failed = getattr(self, 'failed', 0) + 1

    @handler('connected')
    def _connected(self, *a):
        self.seen.append([0])

    @handler('disconnected')
    def _disconnected(self, *a):
        self.seen.append([1])

    @handler('read')
    def _read(self, data):
        self.seen.append([3, list(data)])


def run_client_case(case):
    kind, family = case['poller'], case.get('family', 'unix')
    log = []
    tmp = None

    class CSock(RecSock):
        made = []

        def __init__(self, *a, **kw):
            super().__init__(*a, **kw)
            CSock.made.append(self)
    CSock.log = log
    CSock.sid = 0

    def sock_open():          # the client's current socket object is the last one it created
        return bool(CSock.made) and CSock.made[-1].fileno() >= 0

    def buffered():           # payloads the client holds: bytes-like items of its sequence attributes
        out = []
        for v in vars(cl).values():
            if isinstance(v, (list, deque)) and v and _is_buf(v):
                out += [len(x) for x in v]
        return out

    def close_pending():      # by meaning, through candidate names; None = not observable in this tree
        v = first_attr(cl, ('_closeflag', '_close_pending', '_closing', '_close_flag'), 'client.close_pending')
        return None if v is None else bool(v)
    if family == 'unix':
        tmp = tempfile.mkdtemp(prefix='c12c_')
        addr = os.path.join(tmp, 's')
        ls = socket.socket(socket.AF_UNIX, socket.SOCK_STREAM)
    else:
        ls = socket.socket(socket.AF_INET, socket.SOCK_STREAM)
        addr = ('127.0.0.1', 0)
    ls.bind(addr)
    ls.listen(16)
    ls.setblocking(False)
    addr = ls.getsockname()
    saved = S.socket
    S.socket = CSock
    m = Manager()
    before = fdset()
    poller = getattr(P, kind)().register(m)
    poller_fds = fdset() - before
    try:
        kw = {'connect_timeout': 0.05} if (family == 'tcp' and any(op[0] == 'connect_dead' for op in case['ops'])) else {}
        cl = (S.UNIXClient if family == 'unix' else S.TCPClient)(bufsize=BUFSIZE, **kw).register(m)
        if family == 'tcp':         # a port nobody listens on / a path that does not exist
            t = socket.socket()
            t.bind(('127.0.0.1', 0))
            dead = t.getsockname()
            t.close()
        else:
            dead = os.path.join(tmp, 'nobody')
        probe = CProbe(log=log, client=cl).register(m)
        m._running = True
        peers = []

        def settle():
            same, last, slept = 0, None, False
            for _ in range(MAXTICKS):
                m.tick(0)
                cur = (len(probe.seen), len(log), bool(cl.connected), len(buffered()), len(m))
                same = same + 1 if (cur == last and cur[4] == 0) else 0
                last = cur
                if same >= 3:
                    if family == 'tcp' and not slept:
                        slept = True
                        time.sleep(0.003)
                        same = 0
                        continue
                    break
            while True:
                try:
                    a, _ = ls.accept()
                except OSError:
                    break
                a.setblocking(False)
                a.setsockopt(socket.SOL_SOCKET, socket.SO_RCVBUF, 2048)
                peers.append(a)
        settle()
        applied, sent, bad_connect, snaps = [], 0, False, []

        def dead_in_poller():
            dead = [x for x in CSock.made if x.fileno() < 0]
            return sum(1 for r in scan(poller, dead).values() if r['plain'] + r['key'] + r['bufkey'] + r['val'] + r['attr'])

        def csnap():
            snaps.append([bool(cl.connected), len(buffered()), close_pending(), sock_open(), dead_in_poller()])
        for idx, op in enumerate(case['ops']):
            log.append(('op', idx, len(probe.seen)))
            k = op[0]
            peer = peers[-1] if peers and peers[-1].fileno() >= 0 else None
            ok = True
            if k == 'connect':
                if cl.connected:
                    bad_connect = True
                if family == 'unix':
                    m.fire(connect_ev(addr), 'client')
                else:
                    m.fire(connect_ev(addr[0], addr[1]), 'client')
            elif k == 'connect_dead':   # refused: first attempt after the (short) connect timeout, a retry at once
                if cl.connected:
                    bad_connect = True
                nfail = getattr(probe, 'failed', 0)
                m.fire(connect_ev(*dead) if family == 'tcp' else connect_ev(dead), 'client')
                end = time.time() + 2.0
                while getattr(probe, 'failed', 0) == nfail and time.time() < end:
                    m.tick(0)
                    time.sleep(0.002)
            elif k == 'write':          # also after the disconnect (late write)
                m.fire(write_ev(b'w' * op[1]), 'client')
            elif k == 'close':
                m.fire(close_ev(), 'client')
            elif peer is None:
                ok = False
            elif k == 'psend':
                try:
                    peer.send(pattern(7, sent, op[1]))
                    sent += op[1]
                except OSError:
                    ok = False
            elif k == 'pshutwr':
                try:
                    peer.shutdown(socket.SHUT_WR)
                except OSError:
                    ok = False
            elif k == 'pdrain':
                try:
                    while peer.recv(65536):
                        pass
                except OSError:
                    pass
            elif k in ('pclose', 'preset'):
                if k == 'preset' and family == 'tcp':
                    peer.setsockopt(socket.SOL_SOCKET, socket.SO_LINGER, struct.pack('ii', 1, 0))
                peer.close()
            else:
                raise ValueError(k)
            applied.append(1 if ok else 0)
            if ok:
                settle()
                if k in ('connect', 'connect_dead'):
                    log.append(('connect_result', sock_open()))
                csnap()
        log.append(('op', len(case['ops']), len(probe.seen)))
        for a in peers:
            a.close()
        settle()
        csnap()
        return {'log': canon_log(log), 'seen': probe.seen, 'applied': applied, 'bad_connect': bad_connect,
                'snaps': snaps, 'sends': [e[2] for e in log if e[0] == 'send'],
                'final': [bool(cl.connected), buffered(), close_pending(), sock_open()]}
    finally:
        S.socket = saved
        m._running = False
        for a in [ls] + list(CSock.made):
            try:
                a.close()
            except OSError:
                pass
        dispose_poller(poller, poller_fds)
        if tmp:
            shutil.rmtree(tmp, ignore_errors=True)


def client_stimuli(log, seen):
    """-> list of [kind, arg, flag]"""
    st = []
    # seen-index boundaries of the operations, to decide whether a connect request led to `connected`
    ops = [e for e in log if e[0] == 'op']
    i, n = 0, len(log)
    cur_op = -1
    while i < n:
        e = log[i]
        j = i + 1
        if e[0] == 'op':
            cur_op += 1
        elif e[0] == 'h':
            sub = []
            while j < n and log[j][0] in ('recv', 'send', 'after', 'peername_err'):
                sub.append(log[j])
                j += 1
            name = e[1]
            if name == 'connect':
                lo = ops[cur_op][2]
                hi = ops[cur_op + 1][2] if cur_op + 1 < len(ops) else len(seen)
                ok = any(x == [0] for x in seen[lo:hi])
                res = [x for x in log[j:] if x[0] == 'connect_result']
                st.append(['connect', 1 if ok else 0, 1 if (res and res[0][1]) else 0])
            elif name == '_read':
                rc = [x for x in sub if x[0] == 'recv']
                r = rc[0][2] if rc else 'would'
                st.append(['read', r if isinstance(r, str) else list(r), 0])
            elif name == '_write':
                sc = [x for x in sub if x[0] == 'send']
                af = [x for x in sub if x[0] == 'after']
                closes = 1 if (e[2] and af and not af[0][1]) else 0
                if not sc:
                    st.append(['writable', 'trans', 0])
                elif sc[0][3] == 'pipe':
                    st.append(['pipe', 0, 0])
                else:
                    st.append(['writable', sc[0][3], closes])
            elif name == '_disconnect':
                st.append(['disc', 0, 0])
            elif name == 'write':
                st.append(['write', e[2], 0])
            elif name == 'close':
                st.append(['close', 0, 0])
        i = j
    return st


# ------------------------------------------------------------------------------------------------ poller emission rule

class FakePoll:
    """stands for select.poll() / select.epoll(): registrations are recorded, poll() returns the scripted result"""
    def __init__(self, epoll):
        self.epoll, self.reg, self.script = epoll, {}, []

    @staticmethod
    def _no(fd):
        n = fd if isinstance(fd, int) else fd.fileno()
        if n < 0:
            raise ValueError('file descriptor cannot be a negative integer (-1)')
        return n

    def register(self, fd, mask=0):
        self.reg[self._no(fd)] = mask

    def modify(self, fd, mask):
        self.reg[self._no(fd)] = mask

    def unregister(self, fd):
        n = self._no(fd)
        if n not in self.reg:
            raise (OSError(errno.ENOENT, 'not registered') if self.epoll else KeyError(n))
        del self.reg[n]

    def poll(self, *a, **kw):
        r, self.script = self.script, []
        return r

    def close(self):
        pass


class FakeSelect:
    def __init__(self, real):
        self._real, self.made = real, []

    def __getattr__(self, n):
        return getattr(self._real, n)

    def poll(self):
        self.made.append(FakePoll(False))
        return self.made[-1]

    def epoll(self, *a, **kw):
        self.made.append(FakePoll(True))
        return self.made[-1]


class EmitRec(BaseComponent):
    channel = 'emit'

    def init(self):
        self.got = []

    @handler('_read', '_write', '_disconnect', '_error', priority=50)
    def _on(self, event, sock, *a):
        self.got.append((event.name, sock))


def run_emit_case(case):
    """one scripted kernel report (IN / OUT / ERR / HUP bits) for a registered socket -> what the poller fires"""
    real = getattr(P, 'select', None)
    if real is None:
        DEGRADED.add('pollers.select (emission rule not checked)')
        return {'__harness__': 'circuits.core.pollers has no module-level select'}
    fake = FakeSelect(real)
    P.select = fake
    a = b = None
    before = fdset()
    try:
        m = Manager()
        poller = getattr(P, case['poller'])().register(m)
        new_fds = fdset() - before
        rec = EmitRec().register(m)
        a, b = socket.socketpair()
        m._running = True
        m.tick(0)
        poller.addReader(rec, a)
        poller.addWriter(rec, a)
        if not fake.made:
            DEGRADED.add('pollers.select (emission rule not checked)')
            return {'__harness__': 'the poller did not create its kernel object through pollers.select'}
        i, o, e, h = case['bits']
        mask = (real.EPOLLIN if i else 0) | (real.EPOLLOUT if o else 0) | (real.EPOLLERR if e else 0) | (real.EPOLLHUP if h else 0)
        fake.made[-1].script = [(a.fileno(), mask)]
        for _ in range(4):
            m.tick(0)
        m._running = False
        kinds = {'_read': 0, '_write': 1, '_disconnect': 2, '_error': 3}
        return {'events': [kinds[n] for (n, sk) in rec.got if sk is a]}
    finally:
        P.select = real
        for x in (a, b):
            if x is not None:
                x.close()
        if 'poller' in locals():
            dispose_poller(poller, new_fds)


# ------------------------------------------------------------------------------------------------ Coq terms

def rres_term(r):
    if r == 'would':
        return 'RWould'
    if r == 'err':
        return 'RErr'
    if len(r) == 0:
        return 'REof'
    return '(RData %s)' % nlist(r)


def wres_term(w):
    if w == 'trans':
        return 'WTrans'
    if w in ('fatal', 'pipe'):
        return 'WFatal'
    return '(WAcc %d%%N)' % w


def stim_term(x):
    k, s, a = x
    if k == 'snap':
        return 'SSnap'
    if k == 'closeall':
        return 'SCloseAll'
    sn = natlit(s) if s >= 0 else natlit(1000 - s)      # unknown objects: numbers the model has never seen
    if k == 'accept':
        return 'SAccept %s' % sn
    if k == 'acceptgone':
        return 'SAcceptGone %s' % sn
    if k == 'read':
        return 'SRead %s %s' % (sn, rres_term(a))
    if k == 'writable':
        return 'SWritable %s %s' % (sn, wres_term(a))
    if k == 'drop':
        return 'SDrop %s' % sn
    if k == 'disc':
        return 'SDisc %s' % sn
    if k == 'write':
        return 'SWrite %s %d%%N' % (sn, a)
    if k == 'close':
        return 'SClose %s' % sn
    raise ValueError(k)


def cstim_term(x):
    k, a, f = x
    if k == 'connect':
        return 'KConnect %s %s' % ('true' if a else 'false', 'true' if f else 'false')
    if k == 'read':
        return 'KRead %s' % rres_term(a)
    if k == 'writable':
        return 'KWritable %s %s' % (wres_term(a), 'true' if f else 'false')
    if k == 'pipe':
        return 'KPipe'
    if k == 'disc':
        return 'KDisc'
    if k == 'write':
        return 'KWrite %d%%N' % a
    if k == 'close':
        return 'KClose'
    raise ValueError(k)


EVK = {'connect': 0, 'read': 1, 'error': 2, 'disconnect': 3, 'lisdown': 5, 'closed': 6}

ENDINGS = (['pclose'], ['shutwr'], ['preset'], ['close'], ['write20k', 'close', 'pclose'], ['write20k', 'close', 'preset'],
           ['write20k', 'pclose'], ['write20k', 'shutwr', 'pdrain'], ['send', 'close'], ['write20k', 'close', 'pdrain'],
           ['closeall'], ['write20k', 'closeall', 'pdrain'], ['write20k', 'closeall', 'preset'], ['closeall', 'closeall'])
LATES = (['write'], ['close'], ['write', 'close'], ['close', 'write', 'tick'], ['write', 'write', 'close', 'close'])


def directed(kinds=KINDS):
    """the scenarios the property names: every way a connection can end x every late request, per poller"""
    out = []
    for kind in kinds:
        for fam in ('unix', 'tcp'):
            for e in ENDINGS:
                for l in LATES:
                    ops = [['connect', 0], ['connect', 1], ['send', 0, 70], ['send', 1, 3]]
                    for x in e + l:
                        if x == 'write20k':
                            ops.append(['write', 0, 20000])
                        elif x == 'write':
                            ops.append(['write', 0, 5])
                        elif x == 'send':
                            ops.append(['send', 0, 10])
                        elif x in ('tick', 'closeall'):
                            ops.append([x])
                        else:
                            ops.append([x, 0])
                    ops.append(['send', 1, 4])
                    out.append({'k': 'server', 'poller': kind, 'family': fam, 'ops': ops})
    return out


def directed_unread(kinds=KINDS):
    """the peer sends several reads' worth and goes away while input is still unread at the server, in the ways that
    make the kernel report readable + error/hang-up at once (the server wrote to it and the peer never read: RST)"""
    pats = {
        'write_data_close': [['write', 0, 5], ['send', 0, 700, 'nosettle'], ['pclose', 0]],
        'write_data_reset': [['write', 0, 5], ['send', 0, 700, 'nosettle'], ['preset', 0]],
        'data_reset': [['send', 0, 700, 'nosettle'], ['preset', 0]],
        'data_halfclose_write_close': [['send', 0, 500, 'nosettle'], ['shutwr', 0, 'nosettle'], ['write', 0, 5, 'nosettle'],
                                       ['pclose', 0]],
        'greeting_then_much_data': [['write', 0, 5, 'nosettle'], ['send', 0, 2000, 'nosettle'], ['pclose', 0]],
        'read_some_then_reset': [['send', 0, 100], ['write', 0, 5], ['send', 0, 300, 'nosettle'], ['send', 0, 300, 'nosettle'],
                                 ['preset', 0]],
    }
    out = []
    for kind in kinds:
        for fam in ('tcp', 'unix'):
            for name in sorted(pats):
                ops = [['connect', 0], ['connect', 1], ['send', 1, 3]] + [list(o) for o in pats[name]] + [['send', 1, 4]]
                out.append({'k': 'server', 'poller': kind, 'family': fam, 'ops': ops})
    return out


def directed_client(kinds=KINDS):
    """connections that never come about: refused connects, retries, close() on an idle client — then a real one"""
    pats = [[['close']], [['close'], ['close']], [['close'], ['connect'], ['psend', 5], ['pclose']],
            [['connect_dead']], [['connect_dead'], ['connect_dead']],
            [['connect_dead'], ['connect_dead'], ['close'], ['connect'], ['write', 4], ['pdrain'], ['pclose']],
            [['connect_dead'], ['close'], ['close'], ['connect_dead']],
            [['write', 3], ['close'], ['connect_dead'], ['connect'], ['pclose'], ['close']],
            [['connect'], ['pclose'], ['connect_dead'], ['connect_dead'], ['close']]]
    return [{'k': 'client', 'poller': kind, 'family': fam, 'ops': [list(o) for o in ops]}
            for kind in kinds for fam in ('tcp', 'unix') for ops in pats]


def emit_cases():
    return [{'k': 'emit', 'poller': kind, 'bits': [i, o, e, h]}
            for kind in ('Poll', 'EPoll') for i in (0, 1) for o in (0, 1) for e in (0, 1) for h in (0, 1)]


class C12(Prop):
    id = 'C12'
    props_file = 'Props/C12.v'
    imports = ['Model.ServerConn', 'Model.ServerConnObs']
    quick_n = 270
    thorough_n = 3000
    rule = ('histories of peer actions (connect, send n, shutdown(WR), close, reset [SO_LINGER 0 on TCP / close with unread '
            'data on AF_UNIX], drain, not reading so that the 4.5 KB send buffer fills) over 1-4 concurrent connections '
            'interleaved with server write / close requests, also to already disconnected sockets, against a real '
            'TCPServer/UNIXServer under Select, Poll, EPoll, stepped with zero-timeout ticks; tables read after every settled '
            'step; plus client histories against real TCPClient/UNIXClient. non-trivial = at least one connection ended and a '
            'request was addressed to it afterwards, or a connection ended while data was buffered for it')
    trusted_base = ['hand-written model Model/ServerConn.v (code after fixes/C12_*.patch) tied to the implementation by this run',
                    'kernel / poller readiness is NOT modelled: the model is driven by the recorded handler invocations and the '
                    'recorded recv()/send()/accept() answers of the real run (partial)',
                    'python oracle in harness/c12.py; real kernel sockets (AF_UNIX and 127.0.0.1)']
    assumptions = ['accept() never returns the same socket object twice (NoDup (accepted h))',
                   'TCP/AF_UNIX deliver the bytes a peer sent in order (the theorem is about recv() results -> read events)',
                   'client: connect is not requested while connected (C12_client_balance_partial)',
                   'a connection reset before accept() is reported without connect: known finding C12-reset-before-accept']

    def __init__(self):
        self._obs = {}
        self.stats = {'ops': {}, 'pollers': {}, 'families': {}, 'stimuli': {}, 'branches': {}, 'degraded': []}

    # ---- generation
    def generate(self, rng, n, tier):
        cases = []
        d = directed()
        if tier == 'quick':
            # a deterministic third of the directed scenarios, rotating with the seed-derived offset
            off = rng.randrange(4)
            d = [c for i, c in enumerate(d) if i % 4 == off]
        dc = directed_client()
        if tier == 'quick':
            dc = [c for i, c in enumerate(dc) if i % 2 == off % 2 or c['family'] == 'tcp' and len(c['ops']) <= 2]
        cases += d + directed_unread() + emit_cases() + dc
        nrand = max(0, n - len(cases))
        for i in range(nrand):
            if rng.random() < 0.35:
                cases.append(self.gen_client(rng))
            else:
                cases.append(self.gen_server(rng, tier))
        return cases

    def gen_server(self, rng, tier):
        kind = rng.choice(KINDS)
        fam = 'tcp' if rng.random() < 0.35 else 'unix'
        nconn = rng.randint(1, 4 if tier == 'thorough' else 3)
        ops, alive, started = [], set(), set()
        for _ in range(rng.randint(4, 16 if tier == 'thorough' else 12)):
            r = rng.random()
            c = rng.randrange(nconn)
            if c not in started or r < 0.08:
                if c in started:
                    continue
                op = ['connect', c]
                if rng.random() < 0.25:
                    op.append('nosettle')
                started.add(c)
                alive.add(c)
            elif r < 0.30:
                op = ['send', c, rng.choice([1, 3, 10, 64, 65, 130, 200])]
            elif r < 0.45:
                op = ['write', c, rng.choice([0, 1, 5, 100, 3000, 20000, 60000])]
            elif r < 0.57:
                op = ['close', c]
            elif r < 0.65:
                op = ['shutwr', c]
            elif r < 0.75:
                op = ['pclose', c]
            elif r < 0.83:
                op = ['preset', c]
            elif r < 0.92:
                op = ['pdrain', c]
            elif r < 0.96:
                op = ['closeall']
            else:
                op = ['tick']
            if op[0] in ('send', 'write', 'close', 'shutwr', 'pdrain', 'closeall') and rng.random() < 0.2:
                op.append('nosettle')
            ops.append(op)
        return {'k': 'server', 'poller': kind, 'family': fam, 'ops': ops}

    def gen_client(self, rng):
        kind = rng.choice(KINDS)
        fam = 'tcp' if rng.random() < 0.5 else 'unix'
        ops = [rng.choice([[['connect']], [['connect']], [['close'], ['connect']], [['connect_dead'], ['connect']],
                           [['connect_dead'], ['connect_dead'], ['connect']]])][0]
        ops = [list(o) for o in ops]
        for _ in range(rng.randint(2, 10)):
            r = rng.random()
            if r < 0.12:
                ops.append(['connect'])
            elif r < 0.32:
                ops.append(['psend', rng.choice([1, 5, 64, 65, 150])])
            elif r < 0.50:
                ops.append(['write', rng.choice([1, 10, 3000, 300000])])
            elif r < 0.62:
                ops.append(['close'])
            elif r < 0.70:
                ops.append(['pshutwr'])
            elif r < 0.80:
                ops.append(['pclose'])
            elif r < 0.88:
                ops.append(['preset'])
            else:
                ops.append(['pdrain'])
        if rng.random() < 0.5:      # late requests after the connection has ended, then (TCP) a new connection
            ops += [rng.choice([['pclose'], ['preset'], ['close'], ['pshutwr']])]
            ops += [rng.choice([['write', 7], ['close'], ['write', 3000]]) for _ in range(rng.randint(1, 3))]
            if rng.random() < 0.6:
                ops += [['connect'], ['write', 5], ['pdrain']]
        return {'k': 'client', 'poller': kind, 'family': fam, 'ops': ops}

    # ---- implementation
    def impl(self, c):
        key = common.canon(c)
        try:
            obs = self.run(c)
        except KeyboardInterrupt:
            raise
        except BaseException as e:
            if blame(e) == 'impl':
                raise                      # an exception escaping circuits code during the driven history: a violation
            # an exception of the harness's own observation code says nothing about the implementation: drop the case
            import traceback
            obs = {'__harness__': '%s: %s' % (type(e).__name__, e), 'tb': traceback.format_exc()[-500:]}
        if '__harness__' in obs:
            DEGRADED.add('case dropped: ' + obs['__harness__'][:120])
            self.stats['dropped_cases'] = self.stats.get('dropped_cases', 0) + 1
        self._ncases = getattr(self, '_ncases', 0) + 1
        if self._ncases % 100 == 0:            # the harness itself must not leak descriptors (Select stops at 1024)
            self.stats['open_descriptors'] = len(fdset())
            if self.stats['open_descriptors'] > 500:
                DEGRADED.add('harness: %d descriptors open after %d cases' % (self.stats['open_descriptors'], self._ncases))
        self.stats['degraded'] = sorted(DEGRADED)
        self._obs[key] = obs
        if '__harness__' not in obs:
            self._count(c, obs)
        return obs

    def run(self, c):
        kind = c.get('k', 'server')
        if kind == 'emit':
            return run_emit_case(c)
        if kind == 'client':
            obs = run_client_case(c)
            obs['stimuli'] = client_stimuli(obs['log'], obs['seen'])
        else:
            obs = run_server_case(c)
            st, calls = stimuli(obs['log'])
            obs['stimuli'], obs['calls'] = st, calls
            obs['gone'] = sorted({e[1] for e in obs['log'] if e[0] == 'peername_err'})
            obs['failed_send'] = sorted({e[1] for e in obs['log'] if e[0] == 'send' and e[3] in ('pipe', 'fatal')})
        del obs['log']
        return obs

    def _count(self, c, obs):
        st = self.stats
        if c.get('k') == 'emit':
            st['families']['emit'] = st['families'].get('emit', 0) + 1
            return
        st['pollers'][c['poller']] = st['pollers'].get(c['poller'], 0) + 1
        fam = c.get('k', 'server') + '/' + c.get('family', 'unix')
        st['families'][fam] = st['families'].get(fam, 0) + 1
        for op, ok in zip(c['ops'], obs.get('applied', [])):
            if ok:
                st['ops'][op[0]] = st['ops'].get(op[0], 0) + 1
        client = c.get('k', 'server') == 'client'
        for x in obs.get('stimuli', []):
            k = x[0]
            arg = x[1] if client else x[2]
            if k == 'read':
                k = 'read:' + (arg if isinstance(arg, str) else ('eof' if not arg else 'data'))
            elif k == 'writable':
                k = 'writable:' + (arg if isinstance(arg, str) else 'accepted')
            st['stimuli'][k] = st['stimuli'].get(k, 0) + 1

    # ---- model
    def model_term(self, c):
        obs = self._obs.get(common.canon(c))
        if obs is None or '__harness__' in obs or '__crash__' in obs:
            return None
        if c.get('k') == 'emit':
            i, o, e, h = c['bits']
            return 'obs_emit %s %s %s' % tuple('true' if x else 'false' for x in (i, o, e or h))
        if 'stimuli' not in obs:
            return None
        if c.get('k', 'server') == 'client':
            return 'obs_client %s [%s]' % ('false' if obs['final'][2] is None else 'true',
                                           '; '.join(cstim_term(x) for x in obs['stimuli']))
        hm = 'false' if c['poller'] == 'Select' else 'true'
        return 'obs_server %s [%s]' % (hm, '; '.join(stim_term(x) for x in obs['stimuli']))

    def obs_for_model(self, c, obs):
        if isinstance(obs, dict) and '__crash__' in obs:
            return [-999]
        if c.get('k') == 'emit':
            return obs['events']
        if c.get('k', 'server') == 'client':
            evs = [e if e[0] != 3 else [3, bytes(e[1])] for e in obs['seen']]
            conn, pend, flag, sopen = obs['final']
            return [evs, obs['sends'], conn, pend, sopen] + ([] if flag is None else [flag])
        calls = [[0, x[1]] if x[0] == 'recv' else [1, x[1], x[2]] for x in obs['calls']]
        evs = []
        for e in obs['seen']:
            if e[0] == 'snap':
                evs.append([4, e[1]])
            elif e[0] == 'read':
                evs.append([1, e[1], bytes(e[2])])
            else:
                evs.append([EVK[e[0]], e[1], []])
        return [calls, evs]

    # ---- oracle: the property read directly on the observer's view and the tables
    def oracle(self, c, obs):
        if isinstance(obs, dict) and ('__crash__' in obs or '__harness__' in obs):
            return None
        if c.get('k') == 'emit':
            i, o, e, h = c['bits']
            if i and (2 in obs['events'] or obs['events'][:1] != [0]):
                return ('poller: a hang-up/error reported together with readable input must not precede the reads; %s fired %r for '
                        'IN=%d OUT=%d ERR=%d HUP=%d (0 _read, 1 _write, 2 _disconnect, 3 _error)' % (c['poller'], obs['events'], i, o, e, h))
            return None
        if c.get('k', 'server') == 'client':
            return self.oracle_client(c, obs)
        seen, order, nacc = obs['seen'], obs['order'], obs['naccepted']
        ncloseall = sum(1 for op, ok in zip(c['ops'], obs['applied']) if ok and op[0] == 'closeall')
        if nacc != len(order) and not (ncloseall and nacc < len(order)):
            return 'harness: %d connections made but %d accepted' % (len(order), nacc)
        per = {s: [] for s in range(nacc)}
        ended = set()
        nlisdown = nclosed = 0
        for e in seen:
            if e[0] == 'lisdown':
                nlisdown += 1
                if nlisdown > 1:
                    return 'close(): the listening socket was reported disconnected twice'
                if nclosed:
                    return 'close(): closed fired before the listening socket went down'
                continue
            if e[0] == 'closed':
                nclosed += 1
                continue
            if e[0] == 'snap':
                rows, lrow = e[1]
                for (k, is_open, track, residue, buf, pl, pk, pv) in rows:
                    refs = 'server containers %d, other server references %d, poller lists %d, poller dict keys %d, poller dict values %d' % (
                        track, residue, pl, pk, pv)
                    if k in ended:
                        return 'no-trace: socket %d is still referenced after its disconnect (%s)' % (k, refs)
                    if not is_open:
                        return 'no-trace: state is kept for socket %d which is closed and not a connected client (%s)' % (k, refs)
                    if track < 1:
                        return 'socket %d is open and connected but the server does not track it' % k
                if nlisdown:
                    if any(lrow[1:]):
                        return 'close(): the listening socket is still referenced after close() (server containers %d, poller lists %d, keys %d, values %d)' % tuple(lrow[1:])
                    if nclosed:
                        for (k, is_open, track, residue, buf, pl, pk, pv) in rows:
                            if track < 2 or not buf:
                                return ('close(): client %d survived close() although nothing is buffered for it / it is not '
                                        'queued for a deferred close' % k)
                elif not (lrow[0] and lrow[2] >= 1 and lrow[3] >= 1):
                    return 'listening socket registration is %r while the server is open' % (lrow,)
                continue
            kind, s = e[0], e[1]
            if s not in per:
                return 'event %s for an object that is not an accepted connection (%r)' % (kind, s)
            if s in ended:
                return 'event %s for socket %d after its disconnect' % (kind, s)
            per[s].append(kind)
            if kind == 'disconnect':
                ended.add(s)
        import re
        known = None      # the recorded defect is reported only if nothing else is wrong with the case
        for s in range(nacc):
            word = ''.join({'connect': 'c', 'read': 'r', 'error': 'e', 'disconnect': 'd'}[k] for k in per[s])
            if s in obs.get('gone', []) and word == 'ed':
                known = 'reset-before-accept: socket %d got error+disconnect without a connect' % s
                continue
            if not re.fullmatch(r'cr*e?d', word):
                return 'socket %d: observers saw %s, not connect read* [error] disconnect (all peers were closed at the end)' % (s, word)
            conn = order[s]
            got = b''.join(bytes(e[2]) for e in seen if e[0] == 'read' and e[1] == s)
            want = pattern(conn, 0, obs['sent'][s])
            if got != want[:len(got)]:
                return 'socket %d: read events carry bytes that are not what the peer sent, in order' % s
            # what the kernel still delivers: a raw reader that got the same peer actions and server writes and started
            # reading only at the very end received obs['reference'][s] bytes; a server that reads until the peer's
            # EOF / reset must not have fewer (does not apply when the server itself ended the connection)
            server_ended = (ncloseall or s in obs['failed_send'] or
                            any(ok and op[0] == 'close' and op[1] == conn for op, ok in zip(c['ops'], obs['applied'])))
            ref = min(obs['reference'][s], len(want))
            # the shadow is driven identically only while the server's output is small (a greeting): it gets each write
            # at request time and at most 4096 bytes of it, whereas a large write fills the peer's window and changes
            # what TCP still delivers in the other direction (seen: 330 of 470 bytes never reach the server's queue)
            wrote = sum(op[2] for op, ok in zip(c['ops'], obs['applied']) if ok and op[0] == 'write' and op[1] == conn)
            if not server_ended and wrote <= 1024 and len(got) < ref:
                return ('socket %d: the peer sent %d bytes and went away; a raw reader on an identical connection still gets %d of '
                        'them, the read events carry only %d' % (s, len(want), ref, len(got)))
            # output accepted before the peer's half-close reaches a peer that keeps reading (the close is deferred until
            # the buffer is flushed); demanded only where nothing else can destroy it: the peer never closed or reset
            # before the end, the server was not asked to close, no error, all input was read
            mine = [op[0] for op, ok in zip(c['ops'], obs['applied']) if ok and len(op) > 1 and op[1] == conn]
            if ('shutwr' in mine and not ncloseall and not {'pclose', 'preset', 'close'} & set(mine) and 'e' not in word
                    and got == want and obs['peer_got'][s] < obs['accepted'][s]):
                return ('socket %d: the server accepted %d bytes for writing, the peer half-closed and kept reading but received '
                        'only %d before the disconnect' % (s, obs['accepted'][s], obs['peer_got'][s]))
            touched = ncloseall or any(op[0] in ('write', 'close', 'preset') and len(op) > 1 and op[1] == conn for op in c['ops'])
            if not touched and 'e' not in word and got != want:
                return 'socket %d: peer sent %d bytes and closed in an orderly way, read events carry only %d' % (s, len(want), len(got))
        last = [e for e in seen if e[0] == 'snap'][-1][1]
        if last[0]:
            return 'no-trace: tables not empty after every connection has ended: %r' % (last[0],)
        if nclosed != ncloseall or nlisdown != (1 if ncloseall else 0):
            return 'close(): %d close() requests gave %d closed events and %d disconnects of the listening socket' % (
                ncloseall, nclosed, nlisdown)
        if ncloseall and not obs['ls_closed']:
            return 'close(): the listening socket is still open after close()'
        return known

    def oracle_client(self, c, obs):
        late = self.oracle_client_state(obs)
        if late:
            return late
        if obs['bad_connect']:
            return None           # connect requested while connected: outside the property's precondition
        evs = [e[0] for e in obs['seen'] if e[0] in (0, 1)]
        nc, nd = evs.count(0), evs.count(1)
        conn = obs['final'][0]
        if nc != nd + (1 if conn else 0):
            return 'client: %d connected but %d disconnected (still connected: %s)' % (nc, nd, conn)
        for a, b in zip(evs, evs[1:]):
            if a == b:
                return 'client: two %s events in a row' % ('connected' if a == 0 else 'disconnected')
        if evs and evs[0] != 0:
            return 'client: disconnected before any connected'
        return None

    def oracle_client_state(self, obs):
        """after `disconnected` (socket closed, until a connect makes a new one): not connected, nothing buffered, no
        deferred close; and the poller never keeps a closed socket — also when writes / closes arrive late"""
        for i, (conn, nbuf, flag, sopen, dead) in enumerate(obs['snaps']):
            flag = bool(flag)       # None: not observable in this tree (degraded)
            if dead and not obs['bad_connect']:     # connect while connected registers the socket twice: API misuse
                return 'client-late: the poller holds %d closed socket object(s) at quiescence (step %d)' % (dead, i)
            if not sopen and (conn or nbuf or flag):
                return ('client-late: after disconnected the client keeps state: connected=%s, %d buffered payload(s), '
                        'close pending=%s (step %d)' % (conn, nbuf, flag, i))
        return None

    def finding_class(self, c, obs, what):
        if what.startswith('reset-before-accept') and c.get('family') == 'tcp':
            return 'C12-reset-before-accept'
        return None

    def nontrivial(self, c, obs):
        if isinstance(obs, dict) and ('__crash__' in obs or '__harness__' in obs):
            return False
        if c.get('k') == 'emit':
            return sum(c['bits']) >= 2
        if c.get('k', 'server') == 'client':
            return len([e for e in obs['seen'] if e[0] == 1]) >= 1
        # late request: a write/close op applied to a connection after the snapshot that shows it ended
        first_end = {}
        nsnap = 0
        for e in obs['seen']:
            if e[0] == 'snap':
                nsnap += 1
            elif e[0] == 'disconnect':
                first_end.setdefault(e[1], nsnap)
        k = 0
        for op, ok in zip(c['ops'], obs['applied']):
            if ok and op[0] in ('write', 'close') and op[1] in obs['order']:
                s = obs['order'].index(op[1])
                if s in first_end and first_end[s] <= k:
                    return True
            if ok and op[-1] != 'nosettle':
                k += 1
        return any(e[0] == 'error' for e in obs['seen'])

    def search(self, rng, tier):
        for c in directed() + directed_unread() + emit_cases() + directed_client():
            yield c
        for _ in range(600):
            yield self.gen_server(rng, 'thorough')
        for _ in range(150):
            yield self.gen_client(rng)


if __name__ == '__main__':
    sys.exit(common.main(C12()))
