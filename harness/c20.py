"""C20 — authentication (Basic/Digest), session binding, trusted gateways of VirtualHosts."""
import sys, os
sys.path.insert(0, os.path.dirname(os.path.abspath(__file__)))
import base64
import binascii
import hashlib
import itertools
import re
import urllib.parse
import urllib.request

import common
from common import Prop, nlist, canon

import socket

from circuits import BaseComponent, Manager, handler
from circuits.net.events import read as read_event
from circuits.web import Controller, tools, _httpauth
from circuits.web.dispatchers import Dispatcher
from circuits.web.http import HTTP
from circuits.web import sessions as sessions_mod
from circuits.web.dispatchers.virtualhosts import VirtualHosts
from circuits.web.headers import Headers
from circuits.web.wrappers import Request, Response


# ------------------------------------------------------------------ driving the real code

class Srv:
    host = '127.0.0.1'
    port = 80
    display_banner = False
    secure = False


class Sock:
    """what wrappers.Request sees of the connection: getpeername() as the real socket families give it"""

    def __init__(self, peer):
        self.peer = peer

    def getpeername(self):
        if isinstance(self.peer, Exception):
            raise self.peer
        return self.peer


def peer_spec(x):
    """case field -> peer spec; a plain str is an IPv4 address (older cases)"""
    return {'t': 'inet', 'h': x} if isinstance(x, str) else x


def peer_value(spec):
    """the python object getpeername() returns for the spec"""
    t = spec['t']
    if t == 'inet':            # AF_INET: (host, port)
        return (spec['h'], 5555)
    if t == 'inet6':           # AF_INET6: (host, port, flowinfo, scope_id)
        return (spec['h'], 5555, 0, 0)
    if t == 'unix':            # AF_UNIX: the peer's path, '' for an unnamed socket
        return spec['n']
    if t == 'unixb':           # AF_UNIX abstract namespace: bytes
        return spec['n'].encode('latin-1')
    return OSError(107, 'Transport endpoint is not connected')      # 'raise'


def peer_addr(spec):
    """the peer's network address, read independently of wrappers.Request: a UNIX-socket peer has none"""
    return spec['h'] if spec['t'] in ('inet', 'inet6') else None


def rec_ip(ip):
    """request.remote.ip as recorded from the real Request: None | str (anything else by its text)"""
    return ip if ip is None or isinstance(ip, str) else str(ip)


def mkreq(ip='10.0.0.1', method='GET', path='/', headers=()):
    """a REAL wrappers.Request over a fake socket; `ip`: IPv4 address or peer spec"""
    h = Headers([(k, v) for k, v in headers if v is not None])
    req = Request(Sock(peer_value(peer_spec(ip))), method, path=path, headers=h, server=Srv())
    return req, Response(req)


def md5hex(s):
    return hashlib.md5(s.encode('utf-8')).hexdigest()


ENC = {0: None, 1: str, 2: (lambda p: md5hex(p)), 3: (lambda p, u: u + ':' + p)}


def enc_apply(kind, p, u):
    """effective encrypt(password, username) of configuration `kind` -> str, or None if it raises (oracle side)"""
    if kind == 0:
        return None
    if kind == 1:
        return p
    if kind == 2:
        return md5hex(p)
    return u + ':' + p


class Md5Trace:
    """records every md5 the implementation computes: the model's md5 oracle is this table"""

    def __init__(self):
        self.table = {}

    def __enter__(self):
        self.old = _httpauth.md5
        real = hashlib.md5
        tab = self.table

        def traced(val=b'', *a, **kw):
            h = real(val, *a, **kw)
            if isinstance(val, bytes):
                try:
                    tab[val.decode('utf-8')] = h.hexdigest()
                except UnicodeDecodeError:
                    pass
            return h
        _httpauth.md5 = traced
        return self

    def __exit__(self, *a):
        _httpauth.md5 = self.old


BAD_USERS = ('list', 'cbad')


def make_users(kind, pairs):
    d = {u: p for u, p in pairs}
    if kind == 'dict':
        return d
    if kind == 'cdict':
        return lambda: dict(d)
    if kind == 'list':             # neither dict nor callable: check_auth raises ValueError once the header parsed
        return list(d.items())
    if kind == 'cbad':             # callable returning something that is not a dict
        return lambda: list(d.items())
    return lambda username: d.get(username)


# ------------------------------------------------------------------ end-to-end: the whole HTTP stack, no real socket

SECRET = 'the-protected-result'


class FakeSock(socket.socket):
    def __init__(self):
        pass

    def getpeername(self):
        return ('10.0.0.1', 5555)

    def close(self):
        pass

    def fileno(self):
        return -1

    def __del__(self):
        pass


class FakeServer(BaseComponent):
    channel = 'web'
    host = '127.0.0.1'
    port = 80
    secure = False
    display_banner = False


class WriteProbe(BaseComponent):
    channel = 'web'

    def init(self):
        self.out = []

    @handler('write', priority=100)
    def _on_write(self, sock, data):
        self.out.append(data)


def e2e_run(c):
    """GET/POST / with the case's Authorization value through HTTP + Dispatcher + a Controller that protects
    SECRET with the documented idioms -> (status code, SECRET in the bytes written)"""
    users = make_users(c['ukind'], c['users'])
    realm, enc, seen = c['realm'], ENC[c['enc']], {}

    class Root(Controller):
        def index(self):
            seen['hdr'] = self.request.headers.get('Authorization')
            if c['fn'] == 'digest':        # circuits.web.main style
                r = tools.digest_auth(self.request, self.response, realm, users)
                return SECRET if r is None else r
            if tools.check_auth(self.request, self.response, realm, users, enc):   # tests / examples style
                return SECRET
            return tools.basic_auth(self.request, self.response, realm, users, enc)

    m = Manager()
    srv = FakeServer().register(m)
    srv.http = HTTP(srv).register(srv)
    Dispatcher().register(srv)
    Root().register(srv)
    probe = WriteProbe().register(m)
    for _ in range(6):
        m.flush()
    req = '%s / HTTP/1.1\r\nHost: h.example\r\nContent-Length: 0\r\n' % c['method']
    if c['hdr'] is not None:
        req += 'Authorization: %s\r\n' % c['hdr']
    m.fire(read_event(FakeSock(), (req + '\r\n').encode('latin-1')), 'web')
    for _ in range(60):
        m.flush()
    out = b''.join(probe.out)
    status = int(out.split(b' ', 2)[1]) if out.startswith(b'HTTP/') else 0
    return status, SECRET.encode() in out, seen.get('hdr')


def e2e_ok_header(h):
    return h is None or (h != '' and h.isascii() and h.isprintable() and h == h.strip())


# ------------------------------------------------------------------ independent RFC 2617 arithmetic (generator + oracle)

def digest_expected(user, realm, password, method, uri, nonce, qop=None, nc=None, cnonce=None, alg=None):
    """request-digest of RFC 2617 for algorithm MD5 / MD5-sess and qop absent / auth; None if not computable here"""
    H = md5hex
    if alg in (None, 'MD5'):
        a1 = '%s:%s:%s' % (user, realm, password)
    elif alg == 'MD5-sess':
        if cnonce is None:
            return None
        a1 = '%s:%s:%s' % (H('%s:%s:%s' % (user, realm, password)), nonce, cnonce)
    else:
        return None
    a2 = '%s:%s' % (method, uri)
    if qop is None:
        return H('%s:%s:%s' % (H(a1), nonce, H(a2)))
    if qop == 'auth':
        if nc is None or cnonce is None:
            return None
        return H('%s:%s:%s:%s:%s:%s' % (H(a1), nonce, nc, cnonce, qop, H(a2)))
    return None


FIELD = re.compile(r'\s*([^=,\s]+)\s*=\s*("(?:[^"\\]|\\.)*"|[^,]*)\s*(?:,|$)')


def lenient_fields(s):
    """independent, lenient reading of a Digest parameter list -> list of (key, value) (duplicates kept)"""
    out, pos = [], 0
    while pos < len(s):
        m = FIELD.match(s, pos)
        if not m or m.end() == pos:
            nxt = s.find(',', pos)
            if nxt < 0:
                break
            pos = nxt + 1
            continue
        v = m.group(2).strip()
        if len(v) >= 2 and v[0] == '"' and v[-1] == '"':
            v = re.sub(r'\\(.)', r'\1', v[1:-1])
        out.append((m.group(1), v))
        pos = m.end()
    return out


def verifies(case, user):
    """Does the Authorization value of the case carry credentials that verify against the table entry of `user`
    for the configured realm?  Direct reading of the property; independent of tools.py/_httpauth.py."""
    hdr = case['hdr']
    table = dict((u, p) for u, p in case['users'])
    if hdr is None or user not in table or ' ' not in hdr:
        return False
    entry = table[user]
    scheme, rest = hdr.split(' ', 1)
    scheme = scheme.lower()
    if scheme == 'basic':
        try:
            raw = binascii.a2b_base64(''.join(ch for ch in rest if ch.isalnum() or ch in '+/=').encode('ascii', 'ignore'))
        except (binascii.Error, ValueError):
            return False
        if b':' not in raw:
            return False
        u, p = raw.split(b':', 1)
        try:
            u, p = u.decode('utf-8'), p.decode('utf-8')
        except UnicodeDecodeError:
            return False
        kind = 0 if case['fn'] == 'digest' else case['enc']
        return u == user and enc_apply(kind, p, u) == entry
    if scheme == 'digest':
        fs = lenient_fields(rest)
        d = dict(fs)
        if len(d) != len(fs):          # duplicated fields: ambiguous credentials never count as verifying ...
            vals = {}
            for k, v in fs:
                vals.setdefault(k, set()).add(v)
            if any(len(v) > 1 for v in vals.values()):
                d = dict(fs)           # ... unless some reading verifies: try last-wins and first-wins
                first = {}
                for k, v in fs:
                    first.setdefault(k, v)
                return any(_digest_ok(case, user, entry, x) for x in (d, first))
        return _digest_ok(case, user, entry, d)
    return False


def _digest_ok(case, user, entry, d):
    for k in ('username', 'realm', 'nonce', 'uri', 'response'):
        if k not in d:
            return False
    if d['username'] != user or d['realm'] != case['realm']:
        return False
    exp = digest_expected(user, d['realm'], entry, case['method'], d['uri'], d['nonce'], d.get('qop'),
                          d.get('nc'), d.get('cnonce'), d.get('algorithm'))
    return exp is not None and exp == d['response']


def variant_of(hdr, fn, enc):
    """which verification variant a header uses (for the per-variant counts of authenticated cases)"""
    if hdr is None or ' ' not in hdr:
        return 'none'
    scheme, rest = hdr.split(' ', 1)
    if scheme.lower() == 'basic':
        return 'basic/encrypt=%s' % {0: 'default', 1: 'str', 2: 'md5hex(table pre-encrypted)', 3: 'two-arg(user:pw)'}[
            0 if fn == 'digest' else enc]
    d = dict(lenient_fields(rest))
    alg = d.get('algorithm')
    return 'digest/%s/%s' % ('no-qop' if 'qop' not in d else 'qop=' + d['qop'],
                             'alg-absent' if alg is None else alg)


# ------------------------------------------------------------------ generators

USERS = ['admin', 'bob', 'al', 'é', 'None', 'a b']
ABSENT = ['mallory', 'None', 'root', '', 'Admin']
PASSWORDS = ['pw', 'None', '', 's3:cr', 'admin', 'é', 'False', '0']
REALMS = ['R', 'Secure Area', 'r', 'Test', '', ' ']      # '' is a legal challenge: Digest realm=""
METHODS = ['GET', 'POST', 'HEAD']
SCHEME_B = ['Basic', 'basic', 'BASIC', 'bAsIc']
SCHEME_D = ['Digest', 'digest', 'DIGEST']


def b64s(s):
    return base64.b64encode(s if isinstance(s, bytes) else s.encode('utf-8')).decode('ascii')


def digest_header(user, realm, password, method, uri='/', nonce='n0', qop=None, nc='00000001', cnonce='c0', alg=None,
                  scheme='Digest', response=None, drop=(), extra=(), quote_all=True, order=None):
    resp = response
    if resp is None:
        resp = digest_expected(user, realm, password, method, uri, nonce, qop if qop in (None, 'auth') else None,
                               nc, cnonce, alg if alg in (None, 'MD5', 'MD5-sess') else None) or ('0' * 32)
    fields = [('username', user, True), ('realm', realm, True), ('nonce', nonce, True), ('uri', uri, True),
              ('response', resp, True)]
    if qop is not None:
        fields += [('qop', qop, False), ('nc', nc, False), ('cnonce', cnonce, True)]
    if alg is not None:
        fields.append(('algorithm', alg, False))
    fields = [f for f in fields if f[0] not in drop]
    fields += [(k, v, True) for k, v in extra]
    if order is not None:
        order.shuffle(fields)
    return scheme + ' ' + ', '.join(('%s="%s"' % (k, v)) if (q and quote_all) else '%s=%s' % (k, v) for k, v, q in fields)


def gen_auth_case(rng):
    nusers = rng.randint(0, 3)
    names = rng.sample(USERS, nusers)
    users = [[u, rng.choice(PASSWORDS)] for u in names]
    realm = rng.choice(REALMS)
    if rng.random() < 0.02:
        realm = None             # not a str: outside the documented API, judged by the oracle only
    method = rng.choice(METHODS)
    fn = rng.choice(['basic', 'basic', 'digest', 'check'])
    enc = rng.choice([1, 1, 1, 0, 2, 3]) if fn != 'digest' else 0
    ukind = rng.choice(['dict', 'dict', 'cdict', 'cdict', 'cfun', 'cfun', 'cfun'])
    if rng.random() < 0.03:
        ukind = rng.choice(['list', 'cbad'])
    clean = rng.random() < 0.25          # plainly valid credentials in a supported combination
    if clean:
        if not users:
            names = [rng.choice(USERS)]
            users = [[names[0], rng.choice(PASSWORDS)]]
        enc = 0 if fn == 'digest' else rng.choice([1, 1, 2, 3])
    c = {'k': 'auth', 'fn': fn, 'enc': enc, 'ukind': ukind, 'users': users, 'realm': realm, 'method': method}
    table = dict(users)
    present = (bool(users) and rng.random() < 0.7) or clean
    user = rng.choice(names) if present else rng.choice(ABSENT + USERS)
    entry = table.get(user)
    r = rng.random()
    # which secret does the client use?
    sec = rng.random()
    if entry is not None and (sec < 0.65 or clean):
        secret, right = entry, True
    elif sec < 0.82:
        secret, right = 'None', entry == 'None'
    else:
        e_ = entry if entry else 'pw'
        secret = rng.choice(PASSWORDS + ['x', str(entry), e_[:-1], e_[1:], e_ + 'x', e_.upper(), e_ + ':', ''])
        right = entry is not None and secret == entry
    tag = []
    if clean:
        tag.append('clean')
        r = 0.2 if (fn != 'digest' and r < 0.5) else 0.9
    if r < 0.07:
        c['hdr'] = None
        tag.append('nohdr')
    elif r < 0.42:   # Basic
        tag.append('basic')
        # the client sends the clear password; tables for enc 2/3 hold the encoded form
        if enc == 2 and entry is not None and right and rng.random() < 0.8:
            c['users'] = [[u, (md5hex(p) if u == user else p)] for u, p in users]
        if enc == 3 and entry is not None and right and rng.random() < 0.8:
            c['users'] = [[u, (u + ':' + p if u == user else p)] for u, p in users]
        raw = ('%s:%s' % (user, secret)).encode('utf-8')
        m = rng.random()
        scheme = rng.choice(SCHEME_B)
        if clean:
            m = 0
            if enc in (2, 3):
                c['users'] = [[u, (enc_apply(enc, p, u) if u == user else p)] for u, p in users]
        if m < 0.62:
            hdr = scheme + ' ' + b64s(raw)
        elif m < 0.68:
            hdr = scheme + ' ' + b64s(raw).rstrip('=')[:-1]; tag.append('truncated')
        elif m < 0.73:
            hdr = scheme + ' ' + b64s(user.encode('utf-8') + secret.encode('utf-8')).replace('Og', 'AA'); tag.append('nocolon?')
        elif m < 0.78:
            hdr = scheme + ' ' + b64s(b'\xff\xfe:' + secret.encode('utf-8')); tag.append('badutf8')
        elif m < 0.82:
            hdr = scheme + b64s(raw); tag.append('nospace')
        elif m < 0.86:
            hdr = scheme + '  ' + b64s(raw); tag.append('twospaces')
        elif m < 0.90:
            hdr = scheme + ' ' + '!!' + b64s(raw) + '\n'; tag.append('junk-in-b64')
        elif m < 0.94:
            hdr = scheme + ' '; tag.append('empty')
        else:
            hdr = rng.choice(['Bearer', 'Negotiate', 'Basi', 'Basic2', '', 'NTLM']) + rng.choice([' ', '']) + b64s(raw)
            tag.append('unknown-scheme')
        c['hdr'] = hdr
    else:            # Digest
        tag.append('digest')
        kw = {}
        kw['qop'] = rng.choice([None, None, None, 'auth', 'auth', 'auth', 'auth', 'auth-int', 'zzz', 'AUTH'])
        kw['alg'] = rng.choice([None, None, None, 'MD5', 'MD5', 'MD5-sess', 'MD5-sess', 'SHA1', 'foo', 'md5'])
        kw['uri'] = rng.choice(['/', '/a/b?x=1', '/é'])
        kw['nonce'] = rng.choice(['n0', 'abc,def', ''])
        kw['scheme'] = rng.choice(SCHEME_D)
        crealm = realm if (realm is not None and rng.random() < 0.85) else rng.choice(REALMS + ['', 'None', (realm or 'x').upper()])
        cmethod = method if rng.random() < 0.9 else rng.choice(METHODS)
        m = rng.random()
        if clean:
            kw['qop'] = rng.choice([None, 'auth'])
            kw['alg'] = rng.choice([None, 'MD5', 'MD5-sess']) if kw['qop'] else rng.choice([None, 'MD5'])
            crealm, cmethod, m = realm, method, 0
        if m < 0.55:
            pass
        elif m < 0.70:
            kw['drop'] = rng.sample(['username', 'realm', 'nonce', 'uri', 'response', 'nc', 'cnonce', 'qop'], rng.randint(1, 2))
            tag.append('dropped')
        elif m < 0.80:
            kw['extra'] = [rng.choice([('opaque', 'o'), ('auth_scheme', 'basic'), ('username', 'admin'), ('realm', realm),
                                       ('cnonce', 'c9'), ('nc', '2'), ('password', secret), ('foo', '')])]
            tag.append('extra')
        elif m < 0.86:
            kw['response'] = rng.choice(['', '0' * 32, 'None', 'True'])
            tag.append('bad-response')
        elif m < 0.90:
            kw['quote_all'] = False
            tag.append('unquoted')
        hdr = digest_header(user, crealm, secret, cmethod, order=rng if rng.random() < 0.3 else None, **kw)
        m2 = 1 if clean else rng.random()
        if m2 < 0.04:
            hdr = hdr.replace(' ', '', 1); tag.append('nospace')
        elif m2 < 0.08:
            hdr = hdr + ', junk'; tag.append('no-equals')
        elif m2 < 0.12:
            hdr = hdr + ', k='; tag.append('empty-value')
        elif m2 < 0.15:
            hdr = hdr + ','; tag.append('trailing-comma')
        elif m2 < 0.18:
            hdr = hdr.split(' ', 1)[0] + ' '; tag.append('empty')
        elif m2 < 0.27:
            r_ = digest_expected(user, crealm, secret, cmethod, kw['uri'], kw['nonce'])
            if r_:
                hdr = hdr.replace(r_, r_.upper()); tag.append('upper-response')
        c['hdr'] = hdr
    c['tag'] = '+'.join(tag)
    return c


def auth_table():
    """the small decision table, always enumerated"""
    out = []
    users = [['admin', 'pw'], ['bob', 'None']]
    for fn, scheme, user, secret, crealm, cmethod in itertools.product(
            ['basic', 'digest', 'check'], ['Basic', 'Digest'], ['admin', 'bob', 'mallory'], ['pw', 'None', 'x', '', 'p'],
            ['R', 'S'], ['GET', 'POST']):
        if scheme == 'Basic' and (crealm != 'R' or cmethod != 'GET'):
            continue
        if scheme == 'Basic':
            hdr = 'Basic ' + b64s('%s:%s' % (user, secret))
        else:
            hdr = digest_header(user, crealm, secret, cmethod, qop='auth')
        out.append({'k': 'auth', 'fn': fn, 'enc': 0 if fn == 'digest' else 1, 'ukind': 'dict', 'users': users,
                    'realm': 'R', 'method': 'GET', 'hdr': hdr, 'tag': 'table'})
    # every supported variant with right and wrong secret, against dict / callable tables
    for fn, ukind, secret in itertools.product(['basic', 'digest', 'check'], ['dict', 'cdict', 'cfun'], ['pw', 'px']):
        for qop, alg in [(None, None), (None, 'MD5'), ('auth', None), ('auth', 'MD5'), ('auth', 'MD5-sess')]:
            out.append({'k': 'auth', 'fn': fn, 'enc': 0 if fn == 'digest' else 1, 'ukind': ukind, 'users': users,
                        'realm': 'R', 'method': 'GET', 'tag': 'table-variants',
                        'hdr': digest_header('admin', 'R', secret, 'GET', qop=qop, alg=alg)})
        if fn != 'digest':
            for enc in (1, 2, 3):   # tables of clear / pre-encrypted passwords
                tab = [[u, enc_apply(enc, p, u)] for u, p in users]
                out.append({'k': 'auth', 'fn': fn, 'enc': enc, 'ukind': ukind, 'users': tab, 'realm': 'R',
                            'method': 'GET', 'tag': 'table-variants', 'hdr': 'Basic ' + b64s('admin:' + secret)})
    # near misses of a right response
    good = digest_expected('admin', 'R', 'pw', 'GET', '/', 'n0')
    for fn in ('basic', 'digest'):
        for resp in (good.upper(), good[:-1], good + '0', ' ' + good, good.replace('a', 'A', 1), ''):
            out.append({'k': 'auth', 'fn': fn, 'enc': 0 if fn == 'digest' else 1, 'ukind': 'dict', 'users': users,
                        'realm': 'R', 'method': 'GET', 'hdr': digest_header('admin', 'R', 'pw', 'GET', response=resp),
                        'tag': 'table-nearmiss'})
    # Digest parameter validation: every subset of the required fields, qop/nc/cnonce combinations
    req = ['username', 'realm', 'nonce', 'uri', 'response']
    for k in range(len(req) + 1):
        for drop in itertools.combinations(req, k):
            if not drop:
                continue
            out.append({'k': 'auth', 'fn': 'digest', 'enc': 0, 'ukind': 'dict', 'users': users, 'realm': 'R',
                        'method': 'GET', 'hdr': digest_header('admin', 'R', 'pw', 'GET', drop=drop), 'tag': 'table-drop'})
    for drop in [('qop',), ('nc',), ('cnonce',), ('nc', 'cnonce'), ('qop', 'nc'), ('qop', 'cnonce')]:
        for fn in ('basic', 'digest'):
            out.append({'k': 'auth', 'fn': fn, 'enc': 0 if fn == 'digest' else 1, 'ukind': 'dict', 'users': users,
                        'realm': 'R', 'method': 'GET',
                        'hdr': digest_header('admin', 'R', 'pw', 'GET', qop='auth', drop=drop), 'tag': 'table-qop'})
    return out


def realm_table():
    """configured realm x realm named by the credentials (equal / different / empty / blank / case / missing) for every
    supported Digest variant and for Basic; the response is always right for the realm the CLIENT names"""
    out = []
    users = [['admin', 'pw']]
    cfgs = ['R', 'Test', '', ' ', 'r', None]
    variants = [(None, None, 'GET'), (None, 'MD5', 'GET'), ('auth', None, 'GET'), ('auth', None, 'POST'),
                ('auth', 'MD5-sess', 'GET')]
    i = 0
    for cfg in cfgs:
        for cred in ['R', 'Test', '', ' ', 'r', None]:
            for qop, alg, method in variants:
                fn = ['digest', 'basic', 'check'][i % 3]
                i += 1
                hdr = digest_header('admin', cred if cred is not None else 'R', 'pw', method, qop=qop, alg=alg,
                                    drop=('realm',) if cred is None else ())
                out.append({'k': 'auth', 'fn': fn, 'enc': 0 if fn == 'digest' else 1, 'ukind': 'dict', 'users': users,
                            'realm': cfg, 'method': method, 'hdr': hdr, 'tag': 'table-realm'})
        for secret, method in [('pw', 'GET'), ('px', 'POST')]:      # Basic carries no realm
            out.append({'k': 'auth', 'fn': 'basic', 'enc': 1, 'ukind': 'dict', 'users': users, 'realm': cfg,
                        'method': method, 'hdr': 'Basic ' + b64s('admin:' + secret), 'tag': 'table-realm'})
    # two gates with different realms on one request: Digest credentials made for the outer realm only
    for outer, inner in [('R', ''), ('', 'R'), ('R', None), ('Test', ' ')]:
        out.append({'k': 'authseq', 'method': 'GET', 'hdr': digest_header('admin', outer, 'pw', 'GET', qop='auth'),
                    'checks': [_cfg('check', users, realm=outer), _cfg('digest', users, realm=inner)]})
    return out


def auth_table_big():
    """thorough tier: the Digest decision table with qop / algorithm variants and more secrets"""
    out = []
    users = [['admin', 'pw'], ['bob', 'None'], ['eve', '']]
    for fn, user, secret, crealm, cmethod, qop, alg in itertools.product(
            ['basic', 'digest', 'check'], ['admin', 'bob', 'eve', 'mallory'], ['pw', 'None', 'x', ''], ['R', 'S'],
            ['GET', 'POST'], [None, 'auth', 'auth-int'], [None, 'MD5-sess', 'SHA1']):
        out.append({'k': 'auth', 'fn': fn, 'enc': 0 if fn == 'digest' else 1, 'ukind': 'dict', 'users': users,
                    'realm': 'R', 'method': 'GET', 'tag': 'table-big',
                    'hdr': digest_header(user, crealm, secret, cmethod, qop=qop, alg=alg)})
    for fn, enc, user, secret in itertools.product(['basic', 'check', 'digest'], [0, 1, 2, 3],
                                                   ['admin', 'bob', 'eve', 'mallory'], ['pw', 'None', 'x', '', 'p']):
        tab = [[u, enc_apply(enc, p, u) if enc in (2, 3) else p] for u, p in users]
        out.append({'k': 'auth', 'fn': fn, 'enc': 0 if fn == 'digest' else enc, 'ukind': 'cfun', 'users': tab, 'realm': 'R',
                    'method': 'GET', 'tag': 'table-big', 'hdr': 'Basic ' + b64s('%s:%s' % (user, secret))})
    return out


def sess_table_big():
    """thorough tier: owner writes, a second client tries every cookie variant (and may write), owner returns"""
    out = []
    u0, u1, u2 = 'a' * 8, 'b' * 8, 'c' * 8
    first = {'cookie': None, 'ip': '10.0.0.1', 'agent': 'UA', 'act': ['w', 7], 'uuid': u0}
    sid = u0 + '/' + fp('10.0.0.1', 'UA')
    back = {'cookie': {'ref': 0}, 'ip': '10.0.0.1', 'agent': 'UA', 'act': ['r'], 'uuid': u2}
    for ip, agent, act in itertools.product(['10.0.0.1', '10.0.0.2', '10.0.0.12'], ['UA', 'UB', '2UA', None],
                                            [['r'], ['w', 3], ['x']]):
        for cookie in [{'ref': 0}, {'ref': 0, 'fmt': 'quoted'}, {'ref': 0, 'fmt': 'dup-first'}, None, u0,
                       u0 + '/' + fp(ip, agent), u0 + '/' + fp_concat(ip, agent), 'zz/' + fp(ip, agent),
                       sid + '/' + fp(ip, agent), '', sid[:-1], '/' + fp('10.0.0.1', 'UA')]:
            out.append({'k': 'sess', 'reqs': [first, {'cookie': cookie, 'ip': ip, 'agent': agent, 'act': act, 'uuid': u1},
                                              back]})
    return out


def _cfg(fn, users, realm='R', enc=1, ukind='dict'):
    return {'fn': fn, 'enc': 0 if fn == 'digest' else enc, 'ukind': ukind, 'users': users, 'realm': realm}


def authseq_table():
    """several gates on one request object: an outer gate with one table / realm, an inner gate with another"""
    out = []
    outer = [['admin', 'pw'], ['bob', 'None']]
    hdrs = ['Basic ' + b64s('admin:pw'), digest_header('admin', 'R', 'pw', 'GET', qop='auth'),
            'Basic ' + b64s('admin:px'), digest_header('mallory', 'R', 'None', 'GET')]
    inner = [dict(users=outer), dict(users=outer, realm='S'), dict(users=[['root', 'pw']]),
             dict(users=[['admin', 'other']]), dict(users=[]), dict(users=outer, enc=0)]
    pairs = [('check', 'basic'), ('basic', 'digest'), ('digest', 'check')]
    for hdr in hdrs:
        for kw in inner:
            for j, (f1, f2) in enumerate(pairs):
                c1, c2 = _cfg(f1, outer), _cfg(f2, **kw)
                seqs = [[c1, c2]]
                if j == 0:
                    seqs += [[c2, c1], [c1, c2, c1]]
                for checks in seqs:
                    out.append({'k': 'authseq', 'method': 'GET', 'hdr': hdr, 'checks': checks})
    return out


def gen_authseq_case(rng):
    base = gen_auth_case(rng)
    first = {k: base[k] for k in ('fn', 'enc', 'ukind', 'users', 'realm')}
    checks = [first]
    for _ in range(rng.randint(1, 2)):
        ch = dict(rng.choice(checks))
        m = rng.random()
        if m < 0.25:
            ch['realm'] = rng.choice(REALMS + [(ch['realm'] or 'x').upper()])
        elif m < 0.45:
            ch['users'] = [[u, p] for u, p in ch['users'] if rng.random() < 0.5]
        elif m < 0.65:
            ch['users'] = [[u, rng.choice(PASSWORDS)] for u, p in ch['users']]
        elif m < 0.75:
            ch['users'] = [[rng.choice(USERS + ABSENT), rng.choice(PASSWORDS)]]
        elif m < 0.85:
            ch['users'] = []
        ch['fn'] = rng.choice(['basic', 'digest', 'check'])
        ch['enc'] = 0 if ch['fn'] == 'digest' else rng.choice([first['enc'] if first['fn'] != 'digest' else 1, 1, 0, 2])
        ch['ukind'] = rng.choice(['dict', 'cdict', 'cfun'])
        checks.append(ch)
    if rng.random() < 0.3:
        rng.shuffle(checks)
    return {'k': 'authseq', 'method': base['method'], 'hdr': base['hdr'], 'checks': checks}


def e2e_table():
    out = []
    users = [['admin', 'pw']]
    for fn in ('basic', 'digest'):
        for hdr in [None, 'Basic ' + b64s('admin:pw'), 'Basic ' + b64s('admin:px'), 'Basic ' + b64s('mallory:None'),
                    'Basic', 'Bearer x', 'Basic !!!!', 'Basic YQ', 'Digest username="a"', 'Digest username',
                    digest_header('admin', 'R', 'pw', 'GET', qop='auth'), digest_header('admin', 'R', 'px', 'GET'),
                    digest_header('mallory', 'R', 'None', 'GET'), digest_header('admin', 'S', 'pw', 'GET'),
                    digest_header('admin', 'R', 'pw', 'GET', drop=('nonce',)),
                    digest_header('admin', 'R', 'pw', 'GET', qop='auth-int')]:
            out.append({'k': 'e2e', 'fn': fn, 'enc': 0 if fn == 'digest' else 1, 'ukind': 'dict', 'users': users,
                        'realm': 'R', 'method': 'GET', 'hdr': hdr, 'tag': 'e2e-table'})
    return out




def fp(ip, agent):
    """who() of the repaired code (fixes/C20_session-fingerprint-separator.patch); used only to forge cookies"""
    return hashlib.sha1(('%s|%s' % (ip, agent or '')).encode('utf-8')).hexdigest()


def fp_concat(ip, agent):
    """the separator-less fingerprint of the unrepaired code"""
    return hashlib.sha1(('%s%s' % (ip, agent or '')).encode('utf-8')).hexdigest()


IPS = ['10.0.0.1', '10.0.0.2', '10.0.0.12', '::1']
AGENTS = ['UA', 'UB', '2UA', None, '']

# how a cookie value is written into the Cookie header (SimpleCookie normalises; K records what it makes of it)
COOKIE_FMT = {
    'plain': lambda v: 'circuits=%s' % v,
    'quoted': lambda v: 'circuits="%s"' % v,
    'octal': lambda v: 'circuits="%s"' % v.replace('/', '\\057'),
    'attrs': lambda v: 'circuits=%s; Path=/; Domain=h.example' % v,
    'version': lambda v: '$Version=1; circuits=%s; $Path=/' % v,
    'other': lambda v: 'other=1; circuits=%s; z=2' % v,
    'dup-last': lambda v: 'circuits=zz; circuits=%s' % v,
    'dup-first': lambda v: 'circuits=%s; circuits=zz' % v,
    'case': lambda v: 'Circuits=%s' % v,
    'spaces': lambda v: ' circuits = %s ;' % v,
    'comma': lambda v: 'circuits=%s,other=2' % v,
    'unterminated': lambda v: 'circuits="%s' % v,
}
FMT_SAME = ['quoted', 'octal', 'attrs', 'version', 'other', 'dup-last', 'spaces']     # SimpleCookie yields v again
FMT_OTHER = ['dup-first', 'case', 'comma', 'unterminated']


def cookie_header(spec, served):
    """Cookie header for a request's cookie spec: None | str (literal value) | {'ref': j | 'v': str, 'fmt': name} |
    {'raw': header}; `served` = the ids served so far in this run"""
    if spec is None:
        return None
    if isinstance(spec, str):
        return 'circuits=%s' % spec
    if 'raw' in spec:
        return spec['raw']
    v = served[spec['ref']] if 'ref' in spec else spec['v']
    return COOKIE_FMT[spec.get('fmt', 'plain')](v)


def gen_sess_case(rng):
    n = rng.randint(2, 6)
    reqs = []
    six = rng.choice([None, None, None, {'t': 'inet6', 'h': '2001:db8::2'}, {'t': 'unix', 'n': ''}])
    for i in range(n):
        ip, agent = rng.choice(IPS[:3]), rng.choice(AGENTS[:4])
        uid = '%08x' % (rng.getrandbits(24) * 256 + i)
        r = rng.random()
        if i == 0 or r < 0.15:
            cookie = None
        elif r < 0.62:
            j = rng.randrange(i)
            cookie = {'ref': j}                        # the id served to request j
            if rng.random() < 0.6:                     # ... presented by the client it was served to
                ip, agent = reqs[j]['ip'], reqs[j]['agent']
            elif rng.random() < 0.3:                   # ... or by a different client with the same ip+agent text
                twins = {('10.0.0.1', '2UA'): ('10.0.0.12', 'UA'), ('10.0.0.12', 'UA'): ('10.0.0.1', '2UA')}
                ip, agent = twins.get((reqs[j]['ip'], reqs[j]['agent']), (ip, agent))
            f = rng.random()
            if f < 0.35:
                cookie['fmt'] = rng.choice(FMT_SAME)
            elif f < 0.45:
                cookie['fmt'] = rng.choice(FMT_OTHER)
        elif r < 0.70:
            cookie = reqs[rng.randrange(i)]['uuid']                                   # id without fingerprint
        elif r < 0.80:
            cookie = reqs[rng.randrange(i)]['uuid'] + '/' + rng.choice([fp, fp_concat])(ip, agent)   # + own fingerprint
        elif r < 0.88:
            cookie = rng.choice(['', '/', 'x', 'x/', '/' + fp(ip, agent), 'a/b/' + fp(ip, agent), fp(ip, agent)])
        else:
            j = rng.randrange(i)
            cookie = {'raw': rng.choice(['circuits', '=x', 'circuits=a b', 'a=1; b=2', 'circuits=""', 'circuits=%s/%s;;' % (
                reqs[j]['uuid'], fp(reqs[j]['ip'], reqs[j]['agent']))])}
        a = rng.random()
        act = ['w', rng.randint(1, 9)] if a < 0.5 else (['x'] if a < 0.6 else ['r'])
        rq = {'cookie': cookie, 'ip': ip, 'agent': agent, 'act': act, 'uuid': uid}
        if six and ip != '10.0.0.12':      # this history's clients connect over IPv6 / a UNIX socket
            rq['peer'] = {'10.0.0.1': {'t': 'inet6', 'h': '2001:db8::1'}, '10.0.0.2': six}[ip]
        reqs.append(rq)
    return {'k': 'sess', 'reqs': reqs}


def sess_table():
    out = []
    u0, u1 = 'a' * 8, 'b' * 8
    first = {'cookie': None, 'ip': '10.0.0.1', 'agent': 'UA', 'act': ['w', 7], 'uuid': u0}
    for ip, agent in itertools.product(['10.0.0.1', '10.0.0.2'], ['UA', 'UB', None]):
        for cookie in [{'ref': 0}, None, u0, u0 + '/' + fp(ip, agent), 'zz/' + fp(ip, agent),
                       u0 + '/' + fp('10.0.0.1', 'UA') + '/' + fp(ip, agent), '']:
            out.append({'k': 'sess', 'reqs': [first, {'cookie': cookie, 'ip': ip, 'agent': agent, 'act': ['r'], 'uuid': u1}]})
    # two different (address, agent) pairs whose concatenation is the same text
    for a, b in [(('10.0.0.1', '2UA'), ('10.0.0.12', 'UA')), (('10.0.0.12', 'UA'), ('10.0.0.1', '2UA')),
                 (('10.0.0.1', ''), ('10.0.0.', '1')), (('::1', 'UA'), ('::', '1UA'))]:
        out.append({'k': 'sess', 'reqs': [
            {'cookie': None, 'ip': a[0], 'agent': a[1], 'act': ['w', 5], 'uuid': u0},
            {'cookie': {'ref': 0}, 'ip': b[0], 'agent': b[1], 'act': ['r'], 'uuid': u1},
            {'cookie': {'ref': 0}, 'ip': a[0], 'agent': a[1], 'act': ['r'], 'uuid': 'c' * 8}]})
    # B presents A's id and is given a replacement; A then presents B's replacement: it must not be A's session
    for a, b in [(('10.0.0.1', 'UA'), ('10.0.0.2', 'UA')), (('10.0.0.1', 'UA'), ('10.0.0.1', 'UB')),
                 (('10.0.0.2', None), ('10.0.0.2', 'UA'))]:
        for act in (['w', 3], ['r']):
            out.append({'k': 'sess', 'reqs': [
                {'cookie': None, 'ip': a[0], 'agent': a[1], 'act': ['w', 7], 'uuid': u0},
                {'cookie': {'ref': 0}, 'ip': b[0], 'agent': b[1], 'act': act, 'uuid': u1},
                {'cookie': {'ref': 1}, 'ip': a[0], 'agent': a[1], 'act': ['r'], 'uuid': 'c' * 8},
                {'cookie': {'ref': 1}, 'ip': b[0], 'agent': b[1], 'act': ['r'], 'uuid': 'd' * 8}]})
    # clients of other socket families: two IPv6 clients, IPv6 vs UNIX, IPv4 vs IPv6 (the id must not travel)
    P6a, P6b = {'t': 'inet6', 'h': '2001:db8::1'}, {'t': 'inet6', 'h': '2001:db8::bad'}
    PU, PU2, P4 = {'t': 'unix', 'n': ''}, {'t': 'unix', 'n': 'ab'}, {'t': 'inet', 'h': '10.0.0.1'}
    for pa, pb in [(P6a, P6b), (P6b, P6a), (P6a, PU), (PU, P6a), (P4, P6a), (P6a, P4), (PU2, P6a), (P6a, P6a), (PU, PU2)]:
        out.append({'k': 'sess', 'reqs': [
            {'cookie': None, 'peer': pa, 'agent': 'UA', 'act': ['w', 5], 'uuid': u0},
            {'cookie': {'ref': 0}, 'peer': pb, 'agent': 'UA', 'act': ['r'], 'uuid': u1},
            {'cookie': {'ref': 0}, 'peer': pa, 'agent': 'UA', 'act': ['r'], 'uuid': 'c' * 8}]})
    # the owner's cookie in every notation
    for fmt in sorted(COOKIE_FMT):
        for ip in ('10.0.0.1', '10.0.0.2'):
            out.append({'k': 'sess', 'reqs': [first, {'cookie': {'ref': 0, 'fmt': fmt}, 'ip': ip, 'agent': 'UA',
                                                      'act': ['r'], 'uuid': u1}]})
    return out


DOMAINS = [['a.example', 'sitea'], ['b.example', 'siteb'], ['b.example:8080', 'secure'], ['c.example', ''], ['', 'anon']]


def vhost_table():
    out = []
    for tg, ip, xfh, host in itertools.product(
            [None, [], ['10.0.0.1'], ['10.0.0.1', '10.0.0.2']], ['10.0.0.1', '10.0.0.2', '10.0.0.3'],
            [None, '', 'b.example', ' B.Example , a.example', 'nowhere.example', ',b.example'],
            ['a.example', 'b.example:8080', None]):
        out.append({'k': 'vhost', 'domains': DOMAINS, 'tg': tg, 'tgtype': 'list', 'ip': ip, 'host': host, 'xfh': xfh,
                    'path': '/x/y'})
    return out


PEERS = [{'t': 'inet', 'h': '10.0.0.1'}, {'t': 'inet6', 'h': '::1'}, {'t': 'inet6', 'h': '2001:db8::2'},
         {'t': 'unix', 'n': ''}, {'t': 'unix', 'n': 'ab'}, {'t': 'unix', 'n': '/run/gw.sock'}, {'t': 'unixb', 'n': ''},
         {'t': 'unixb', 'n': '\x00x'}, {'t': 'unixb', 'n': 'ab'}, {'t': 'raise'}]
GATEWAYS = [None, [], ['10.0.0.1'], ['::1'], [None], ['::1', None], ['None'], ['', 'a'], ['2001:db8::2', '10.0.0.1']]


def vhost_peer_table():
    """peer names of every socket family x gateway configurations (None in the list = the configuration names the
    address-less peer itself) x Host / X-Forwarded-Host naming configured and unknown domains"""
    out = []
    doms = [['a.example', 'sitea'], ['b.example', 'siteb']]
    for peer, tg in itertools.product(PEERS, GATEWAYS):
        for host, xfh in [('a.example', 'b.example'), ('nowhere.example', 'b.example'), ('a.example', 'nowhere.example')]:
            if peer['t'] == 'raise' and (tg or host != 'a.example'):
                continue
            out.append({'k': 'vhost', 'domains': doms, 'tg': tg, 'tgtype': 'list', 'peer': peer, 'host': host,
                        'xfh': xfh, 'path': '/x'})
    return out


def gen_vhost_case(rng):
    hosts = ['a.example', 'b.example', 'b.example:8080', 'c.example', 'nowhere.example', 'A.example', None]
    tg = rng.choice([None, [], ['10.0.0.1'], ['10.0.0.1', '10.0.0.2'], ['10.0.0.12'], ['::1']])
    f = rng.choice(hosts[:6])
    xfh = rng.choice([None, '', f, f.upper(), ' %s ' % f, '%s, %s' % (f, rng.choice(hosts[:5])), '\t%s\u00a0,' % f,
                      ',' + f, ' , ' + f])
    c = {'k': 'vhost', 'domains': rng.sample(DOMAINS, rng.randint(1, len(DOMAINS))), 'tg': tg,
         'tgtype': rng.choice(['list', 'tuple', 'set']), 'ip': rng.choice(IPS), 'host': rng.choice(hosts),
         'xfh': xfh, 'path': rng.choice(['/', '/x', '/x/y/', 'x', '//x//', '/x%20y', '/x/../y', ''])}
    if rng.random() < 0.3:       # any socket family, any gateway list
        del c['ip']
        c['peer'] = rng.choice(PEERS[:9])
        c['tg'] = rng.choice(GATEWAYS)
    return c


# ------------------------------------------------------------------ Coq literals

def cstr(s):
    """Coq term of type list N for a python str: printable-ASCII runs as compact string literals"""
    if not s:
        return '[]%N'
    parts, run = [], ''
    for ch in s:
        if 32 <= ord(ch) <= 126:
            run += ch
            continue
        if run:
            parts.append('s2l "%s"%%string' % run.replace('"', '""'))
            run = ''
        parts.append('[%d]%%N' % ord(ch))
    if run:
        parts.append('s2l "%s"%%string' % run.replace('"', '""'))
    return '(%s)' % ' ++ '.join(parts)


def copt(v, f):
    return 'None' if v is None else '(Some %s)' % f(v)


def cpairs(l):
    return '[%s]' % '; '.join('(%s, %s)' % (cstr(a), cstr(b)) for a, b in l)


class C20(Prop):
    id = 'C20'
    props_file = 'Props/C20.v'
    imports = ['Model.Auth', 'Model.AuthObs', 'Model.Session', 'Model.SessionObs', 'Model.VHost', 'Model.VHostObs']
    quick_n = 350
    thorough_n = 5000
    rule = ('auth: user tables (0-3 users, dict / callable) x realm x method x Authorization values from a grammar of both '
            'schemes (right / wrong / "None" / derived secrets, users absent from the table, dropped / extra / duplicated '
            'digest fields, qop and algorithm variants, bad base64, no colon, bad utf-8, no space, unknown scheme) through '
            'the real tools.basic_auth / digest_auth / check_auth, one check per fresh request and sequences of 2-3 checks with '
            'different (function, realm, users, encrypt) on one and the same request object; sessions: histories of 2-6 requests over the real '
            'Sessions component with replayed, stolen, truncated and forged cookies; vhost: trusted-gateway '
            'configuration x remote address x X-Forwarded-Host x Host.  The three decision tables are enumerated on every '
            'run.  non-trivial = Authorization header present / history presents a cookie / X-Forwarded-Host present')
    trusted_base = ['hand-written models Model/Auth.v, Model/Session.v, Model/VHost.v tied to /repo by this correspondence run',
                    'python oracle in harness/c20.py (own RFC 2617 arithmetic, own lenient header reading, metamorphic '
                    'runs for VirtualHosts)',
                    'library functions as oracles: base64.decodebytes, bytes.decode, md5, sha1, urllib parse_http_list/'
                    'parse_keqv_list, urljoin, uuid4 (tables recorded from the run)']
    assumptions = ['soundness of authentication is relative to md5 (no collision / preimage reasoning)',
                   'uuid4 freshness: the drawn id is not the first component of any key of the store',
                   'str.lower() modelled on ASCII letters; generated scheme / host tokens stay in that range',
                   'exceptions leaving check_auth count as refusal (the request handler fails, no protected result)']

    def __init__(self):
        self._cache = {}
        self.stats = {'auth_tags': {}, 'auth_outcomes': {}, 'kinds': {}, 'cookies': {}, 'authenticated_by_variant': {}, 'peers': {}}

    # ---- cases
    def generate(self, rng, n, tier):
        cases = auth_table() + realm_table() + authseq_table() + e2e_table() + sess_table() + vhost_table() + vhost_peer_table()
        if tier == 'thorough':
            cases += auth_table_big() + sess_table_big()
        for i in range(n):
            r = rng.random()
            if r < 0.05:
                c = gen_auth_case(rng)
                if c['fn'] != 'check' and c['method'] != 'HEAD' and c['ukind'] not in BAD_USERS and e2e_ok_header(c['hdr']):
                    c['k'] = 'e2e'
                cases.append(c)
            elif r < 0.14:
                cases.append(gen_authseq_case(rng))
            elif r < 0.62:
                cases.append(gen_auth_case(rng))
            elif r < 0.80:
                cases.append(gen_sess_case(rng))
            else:
                cases.append(gen_vhost_case(rng))
        return cases

    # ---- implementation drivers
    def impl(self, c):
        k = c['k']
        self.stats['kinds'][k] = self.stats['kinds'].get(k, 0) + 1
        if k == 'auth':
            obs = self.impl_auth(c)
        elif k == 'authseq':
            obs = self.impl_authseq(c)
        elif k == 'e2e':
            with Md5Trace() as tr:
                status, secret, seen = e2e_run(c)
            if seen is not None and seen != c['hdr']:
                raise AssertionError('harness: header %r arrived as %r' % (c['hdr'], seen))
            obs = {'status': status, 'secret': secret, 'md5': sorted(tr.table.items())}
        elif k == 'sess':
            obs = self.impl_sess(c)
        elif k == 'vhost':
            obs = self.impl_vhost(c)
        else:
            raise ValueError(k)
        self._cache[canon(c)] = obs
        return obs

    @staticmethod
    def _one_check(req, res, ch):
        """one tools.* call with the configuration `ch` on the given request/response -> (tag, exception name)"""
        users = make_users(ch['ukind'], ch['users'])
        fn = ch['fn']
        try:
            if fn == 'basic':
                r = tools.basic_auth(req, res, ch['realm'], users, ENC[ch['enc']])
                return (0 if r is None else 1), None
            if fn == 'digest':
                r = tools.digest_auth(req, res, ch['realm'], users)
                return (0 if r is None else 1), None
            r = tools.check_auth(req, res, ch['realm'], users, ENC[ch['enc']])
            return (0 if r else 1), None
        except Exception as e:   # the request handler would fail: no protected result
            return 2, type(e).__name__

    @staticmethod
    def _login(req):
        login = req.login
        return [0] if login is None else [1] if login is False else [2, login] if isinstance(login, str) else [3, repr(login)]

    def impl_auth(self, c):
        req, res = mkreq(method=c['method'], headers=[('Host', 'h.example'), ('Authorization', c['hdr'])])
        with Md5Trace() as tr:
            tag, exc = self._one_check(req, res, c)
        login = self._login(req)
        t = c.get('tag', '')
        self.stats['auth_tags'][t] = self.stats['auth_tags'].get(t, 0) + 1
        self.stats['auth_outcomes'][str(tag)] = self.stats['auth_outcomes'].get(str(tag), 0) + 1
        if tag == 0:
            self._count_variant(c['hdr'], c, c['ukind'])
        return {'tag': tag, 'login': login, 'status': int(res.status), 'exc': exc,
                'challenge': 'WWW-Authenticate' in res.headers, 'md5': sorted(tr.table.items())}

    def _count_variant(self, hdr, ch, ukind):
        v = variant_of(hdr, ch['fn'], ch['enc'])
        d = self.stats['authenticated_by_variant']
        d[v] = d.get(v, 0) + 1
        k = 'users=' + ukind
        d[k] = d.get(k, 0) + 1

    def impl_authseq(self, c):
        """several checks, each with its own (function, realm, users, encrypt), on ONE Request/Response pair
        (an outer gate followed by an inner gate): state kept on the request must not decide a later check"""
        req, res = mkreq(method=c['method'], headers=[('Host', 'h.example'), ('Authorization', c['hdr'])])
        steps = []
        with Md5Trace() as tr:
            for ch in c['checks']:
                tag, exc = self._one_check(req, res, ch)
                steps.append({'tag': tag, 'login': self._login(req), 'exc': exc})
                if tag == 0:
                    self._count_variant(c['hdr'], ch, ch['ukind'])
        t = 'seq:' + ''.join(str(st['tag']) for st in steps)
        self.stats['auth_tags'][t] = self.stats['auth_tags'].get(t, 0) + 1
        return {'steps': steps, 'md5': sorted(tr.table.items())}

    def impl_sess(self, c):
        S = sessions_mod.Sessions()
        cur = {}

        class U:
            @property
            def hex(self):
                return cur['uuid']
        old = sessions_mod.uuid
        sessions_mod.uuid = lambda: U()
        out, sent, seen_l, served, remotes = [], [], [], [], []
        try:
            for r in c['reqs']:
                cur['uuid'] = r['uuid']
                hs = [('Host', 'h.example'), ('User-Agent', r['agent'])]
                raw = cookie_header(r['cookie'], served)
                if raw is not None:
                    hs.append(('Cookie', raw))
                req, res = mkreq(ip=r.get('peer') or r['ip'], headers=hs)
                # what http.cookies.SimpleCookie made of the header: the id this request presents
                seen = req.cookie['circuits'].value if 'circuits' in req.cookie else None
                sent.append(raw)
                seen_l.append(seen)
                remotes.append(rec_ip(req.remote.ip))
                S.request(req, res)
                sid = res.cookie['circuits'].value
                served.append(sid)
                data = dict(req.session)
                if set(data) - {'v'}:
                    raise AssertionError('harness: unexpected session content %r' % data)
                out.append([sid, [] if 'v' not in data else [data['v']]])
                a = r['act']
                if a[0] == 'w':
                    with req.session as d:
                        d['v'] = a[1]
                elif a[0] == 'x':
                    req.session.expire()
        finally:
            sessions_mod.uuid = old
        for x in seen_l:
            t = 'absent' if x is None else 'value'
            self.stats['cookies'][t] = self.stats['cookies'].get(t, 0) + 1
        return {'steps': out, 'sent': sent, 'seen': seen_l, 'remote': remotes}

    def _vrun(self, vh, c, host, xfh, ip=None, rec=None):
        req, res = mkreq(ip=ip or c.get('peer') or c['ip'], path=c['path'],
                         headers=[('Host', host), ('X-Forwarded-Host', xfh)])
        if rec is not None:
            rec['remote'] = rec_ip(req.remote.ip)       # what the real Request made of the peer name
        vh._on_request(None, req, res)
        return req.path

    def impl_vhost(self, c):
        tg = c['tg']
        if tg is not None:
            tg = {'list': list, 'tuple': tuple, 'set': set}[c['tgtype']](tg)
        spec = peer_spec(c.get('peer') or c['ip'])
        t = spec['t']
        self.stats['peers'][t] = self.stats['peers'].get(t, 0) + 1
        # ONE component instance for all requests of the case: a decision must not leak from an earlier request
        vh = VirtualHosts(dict((d, p) for d, p in c['domains']), tg)
        named = [g for g in (c['tg'] or []) if g]
        if named:                # a request from a configured gateway first
            self._vrun(vh, c, c['host'], c['domains'][-1][0] or 'a.example',
                       ip={'t': 'inet6' if ':' in named[0] else 'inet', 'h': named[0]})
        if t == 'raise':         # no Request object comes into being: nothing is routed
            try:
                self._vrun(vh, c, c['host'], c['xfh'])
            except OSError as e:
                return {'rejected': type(e).__name__}
            return {'rejected': None}
        xfh = c['xfh']
        f = None
        if xfh is not None:
            f = xfh.split(',')[0].strip().lower()
        obs = {}
        obs['path'] = self._vrun(vh, c, c['host'], xfh, rec=obs)
        obs['path_no_xfh'] = self._vrun(vh, c, c['host'], None)
        obs['path_host_f'] = self._vrun(vh, c, f, None) if f and re.fullmatch(r'[a-z.]+(:\d+)?', f) else None
        return obs

    # ---- model
    def model_term(self, c):
        key = canon(c)
        if key not in self._cache:
            self.safe_impl_cached(c)
        obs = self._cache.get(key)
        k = c['k']
        if k in ('auth', 'e2e') and c['ukind'] in BAD_USERS:
            return None          # configuration error (ValueError), judged by the oracle only
        if k == 'authseq' and any(ch['ukind'] in BAD_USERS or ch['realm'] is None for ch in c['checks']):
            return None
        if k in ('auth', 'e2e') and c['realm'] is None:
            return None          # realm must be a str (documented); what the code does with None is judged by the oracle
        if k in ('auth', 'e2e'):
            hdr = c['hdr']
            b64t, utf8t, keqvt = self._header_tables(hdr)
            md5t = list(obs.get('md5', [])) if isinstance(obs, dict) else []
            if c['enc'] == 2 and hdr is not None:      # the configured encrypt hashes the presented password
                md5t = md5t + [[p, md5hex(p)] for p in self._basic_passwords(hdr)]
            return '%s [%s] [%s] %s [%s] %d%%nat %d%%nat %s %s %s %s' % (
                'obs_auth' if k == 'auth' else 'obs_served',
                '; '.join(b64t), '; '.join(utf8t), cpairs(md5t), '; '.join(keqvt),
                1 if c['fn'] == 'digest' else 0, c['enc'], copt(hdr, cstr), cstr(c['method']), cstr(c['realm']),
                cpairs(c['users']))
        if k == 'authseq':
            # every check is the model's pure function of its own configuration; tables are shared
            hdr = c['hdr']
            b64t, utf8t, keqvt = self._header_tables(hdr)
            md5t = list(obs.get('md5', [])) if isinstance(obs, dict) else []
            if hdr is not None and any(ch['enc'] == 2 for ch in c['checks']):
                md5t = md5t + [[p, md5hex(p)] for p in self._basic_passwords(hdr)]
            checks = '; '.join('outcome_of tb tu tm tk %d%%nat %d%%nat th tmeth %s %s' % (
                1 if ch['fn'] == 'digest' else 0, ch['enc'], cstr(ch['realm']), cpairs(ch['users'])) for ch in c['checks'])
            return ('(let tb : list (str * option (list N)) := [%s] in let tu : list (str * option (list N)) := [%s] in '
                    'let tm : list (str * str) := %s in let tk : list (str * option params) := [%s] in let th := %s in '
                    'let tmeth := %s in obs_auth_seq [%s])' % (
                        '; '.join(b64t), '; '.join(utf8t), cpairs(md5t), '; '.join(keqvt), copt(hdr, cstr),
                        cstr(c['method']), checks))
        if k == 'sess':
            shat = {}
            rem = obs['remote'] if isinstance(obs, dict) and 'remote' in obs else [
                peer_addr(peer_spec(r.get('peer') or r['ip'])) for r in c['reqs']]
            for r, ip_ in zip(c['reqs'], rem):
                t = '%s|%s' % (ip_, r['agent'] or '')   # f'{None}' = 'None'
                shat[t] = hashlib.sha1(t.encode('utf-8')).hexdigest()
            sent = obs['sent'] if isinstance(obs, dict) and 'sent' in obs else [None] * len(c['reqs'])
            seen = obs['seen'] if isinstance(obs, dict) and 'seen' in obs else [None] * len(c['reqs'])
            ct = {}
            for h_, v_ in zip(sent, seen):         # the cookie parser as an oracle table: raw header -> value
                if h_ is not None:
                    ct[h_] = v_
            h = []
            for r, raw, ip_ in zip(c['reqs'], sent, rem):
                a = r['act']
                act = 'Read' if a[0] == 'r' else 'Expire' if a[0] == 'x' else '(Write %d)' % a[1]
                ck = 'None' if raw is None else '(cookie_tbl ct %s)' % cstr(raw)
                h.append('(mkreq_remote %s %s %s, %s, %s)' % (ck, copt(ip_, cstr), cstr(r['agent'] or ''), act, cstr(r['uuid'])))
            ctl = '[%s]' % '; '.join('(%s, %s)' % (cstr(k_), copt(v_, cstr)) for k_, v_ in sorted(ct.items()))
            return '(let ct : list (str * option str) := %s in obs_session %s [%s])' % (ctl, cpairs(sorted(shat.items())), '; '.join(h))
        if k == 'vhost':
            spec = peer_spec(c.get('peer') or c['ip'])
            if spec['t'] == 'raise':
                return None
            jt = []
            for d, p in c['domains']:
                a, b = '/%s/' % p, c['path'].strip('/')
                jt.append('(%s, %s, %s)' % (cstr(a), cstr(b), cstr(urllib.parse.urljoin(a, b))))
            tg = copt(c['tg'], lambda l: '[%s]' % '; '.join(copt(x, cstr) for x in l))
            remote = obs['remote'] if isinstance(obs, dict) and 'remote' in obs else peer_addr(spec)
            return 'obs_vhost [%s] %s %s %s %s %s %s' % ('; '.join(jt), cpairs(c['domains']), tg, copt(remote, cstr),
                                                        cstr(c['host'] or ''), cstr(c['xfh'] or ''), cstr(c['path']))

    def _header_tables(self, hdr):
        """oracle tables (base64, utf-8, parameter list) for the questions the model can ask about this header"""
        b64t, utf8t, keqvt = [], [], []
        if hdr is not None and ' ' in hdr:
            rest = hdr.split(' ', 1)[1]
            try:
                raw = base64.decodebytes(rest.encode('utf-8'))
            except Exception:
                raw = None
            scheme = hdr.split(' ', 1)[0].lower()
            if scheme == 'basic':
                b64t.append('(%s, %s)' % (cstr(rest), copt(raw, lambda b: nlist(list(b)))))
            if scheme == 'basic' and raw is not None and b':' in raw:
                for part in sorted(set(raw.split(b':', 1))):
                    try:
                        d = part.decode('utf-8')
                    except UnicodeDecodeError:
                        d = None
                    utf8t.append('(%s, %s)' % (nlist(list(part)), copt(d, cstr)))
            try:
                d = urllib.request.parse_keqv_list(urllib.request.parse_http_list(rest))
                kv = list(d.items())
            except Exception:
                kv = None
            if scheme == 'digest':
                keqvt.append('(%s, %s)' % (cstr(rest), copt(kv, cpairs)))
        return b64t, utf8t, keqvt

    def _basic_passwords(self, hdr):
        try:
            raw = base64.decodebytes(hdr.split(' ', 1)[1].encode('utf-8'))
            return [raw.split(b':', 1)[1].decode('utf-8')]
        except Exception:
            return []

    def safe_impl_cached(self, c):
        obs = self.safe_impl(c)
        self._cache.setdefault(canon(c), obs)
        return obs

    def obs_for_model(self, c, obs):
        if isinstance(obs, dict) and '__crash__' in obs:
            return [-999]
        k = c['k']
        if k == 'auth':
            return [obs['tag'], obs['login']]
        if k == 'authseq':
            return [[st['tag'], st['login']] for st in obs['steps']]
        if k == 'e2e':
            return bool(obs['secret'])
        if k == 'sess':
            return obs['steps']
        return obs.get('path')

    # ---- oracle: the property's predicate on the real code's behaviour
    def oracle(self, c, obs):
        if isinstance(obs, dict) and '__crash__' in obs:
            return None       # reported by the framework as a crash
        k = c['k']
        if k == 'auth':
            return self._judge_check(c, c, obs['tag'], obs['login'], obs['status'], obs['challenge'])
        if k == 'authseq':
            # every check is judged on its own: by its own table, realm and encrypt, and the request's header/method
            for i, (ch, st) in enumerate(zip(c['checks'], obs['steps'])):
                one = dict(ch, hdr=c['hdr'], method=c['method'])
                what = self._judge_check(one, ch, st['tag'], st['login'], None, None)
                if what:
                    return 'check %d of %d on the same request (%s, realm %r): %s' % (
                        i + 1, len(c['checks']), ch['fn'], ch['realm'], what)
            return None
        if k == 'e2e':
            ok = any(verifies(c, u) for u, _ in c['users'])
            if obs['secret'] and not ok:
                return ('the protected result was sent (status %d) for an Authorization value that verifies against no '
                        'entry of %r' % (obs['status'], c['users']))
            if obs['secret'] and obs['status'] != 200:
                return 'the protected result was sent with status %d' % obs['status']
            if not obs['secret'] and ok and self._plain(c):
                return 'valid credentials did not obtain the protected result (status %d)' % obs['status']
            if not obs['secret'] and not 400 <= obs['status'] < 600:
                return 'refused request answered with status %d' % obs['status']
            return None
        if k == 'sess':
            served = {}      # sid -> the client (address, user agent) it was served to
            for r, (sid, data), presented in zip(c['reqs'], obs['steps'], obs['seen']):
                me = (peer_addr(peer_spec(r.get('peer') or r['ip'])), r['agent'] or '')   # address None: UNIX-socket peer
                if sid in served:
                    if presented != sid:
                        return 'a request presenting %r was given the existing session id %r' % (presented, sid)
                    if served[sid] != me:
                        return ('session %r (data %r) of client %r returned to a request from client %r'
                                % (sid, data, served[sid], me))
                else:
                    if data:
                        return 'a fresh session id %r came with data %r' % (sid, data)
                    if presented != sid and not sid.startswith(r['uuid'] + '/'):
                        return 'fresh session id %r is not derived from the uuid drawn for this request' % sid
                served.setdefault(sid, me)
            return None
        if k == 'vhost':
            if 'rejected' in obs:
                return None if obs['rejected'] else 'a request whose peer name cannot be read was routed'
            tg = c['tg']
            spec = peer_spec(c.get('peer') or c['ip'])
            addr = peer_addr(spec)            # None: the peer has no address (UNIX socket)
            # "from the configured trusted gateways": no list configured, or the list names this peer's address
            # (None in the list = the configuration explicitly names the address-less peer)
            is_trusted = tg is None or addr in tg
            who_ = '%s peer %r' % (spec['t'], addr if addr is not None else spec.get('n'))
            if not is_trusted:
                if obs['path'] != obs['path_no_xfh']:
                    return ('X-Forwarded-Host %r from untrusted %s (trusted: %r) changed routing: %r instead of %r'
                            % (c['xfh'], who_, tg, obs['path'], obs['path_no_xfh']))
            elif obs['path_host_f'] is not None:
                if obs['path'] != obs['path_host_f']:
                    return ('X-Forwarded-Host %r from trusted gateway %s not honoured: %r instead of %r'
                            % (c['xfh'], who_, obs['path'], obs['path_host_f']))
            elif not (c['xfh'] or '').split(',')[0].strip():
                if obs['path'] != obs['path_no_xfh']:
                    return 'empty X-Forwarded-Host changed routing'
            return None

    def finding_class(self, c, obs, what):
        """C20-peer-address-misread: wrappers.Request takes the address of the peer from `ip, port = getpeername()`,
        so an IPv6 peer (4-tuple) gets remote.ip None and a 2-character UNIX-socket name gets its first character.
        Covered: only consequences of the REAL code seeing two clients as one / a gateway as a stranger because of
        that misreading.  An address-less or misread peer whose X-Forwarded-Host is honoured although the value the
        code saw is NOT in the configured list is outside the class."""
        fid = 'C20-peer-address-misread'
        if not isinstance(obs, dict) or 'remote' not in obs or not what:
            return None
        if c['k'] == 'vhost':
            spec = peer_spec(c.get('peer') or c['ip'])
            rec, addr, tg = obs['remote'], peer_addr(spec), c['tg']
            if rec == addr or tg is None:
                return None
            if 'not honoured' in what and rec not in tg:          # the configured gateway is not recognised
                return fid
            if 'changed routing' in what and rec in tg:           # the misread value happens to be listed
                return fid
            return None
        if c['k'] == 'sess' and 'returned to a request from client' in what:
            served = {}
            for i, (r, (sid, data)) in enumerate(zip(c['reqs'], obs['steps'])):
                addr = peer_addr(peer_spec(r.get('peer') or r['ip']))
                me = (addr, r['agent'] or '')
                if sid in served and served[sid][0] != me:
                    j = served[sid][1]
                    addr_j = peer_addr(peer_spec(c['reqs'][j].get('peer') or c['reqs'][j]['ip']))
                    same_for_code = (obs['remote'][i] == obs['remote'][j]
                                     and (r['agent'] or '') == (c['reqs'][j]['agent'] or ''))
                    misread = obs['remote'][i] != addr or obs['remote'][j] != addr_j
                    return fid if same_for_code and misread else None
                served.setdefault(sid, (me, i))
        return None

    def _judge_check(self, c, ch, tag, login, status, challenge):
        """the property's predicate for ONE check with configuration c (hdr, method, realm, users, fn, enc);
        status/challenge None = not judged (later checks on a shared response)"""
        if c['ukind'] in BAD_USERS:      # `users` is not a table: nothing can verify against it
            if tag == 0:
                return 'authenticated although `users` (%s) is neither a dict nor a callable giving one' % c['ukind']
            return None
        if login[0] == 3:
            return 'request.login is %s' % login[1]
        if tag == 0:
            if login[0] != 2:
                return ('authenticated (protected result served%s) although no credentials verified: '
                        'request.login=%r' % ('' if status is None else ', status %d' % status,
                                              {0: None, 1: False}.get(login[0])))
            if not verifies(c, login[1]):
                return ('authenticated as %r but the Authorization value does not verify against an entry of the '
                        'user table %r for realm %r' % (login[1], c['users'], c['realm']))
            if status is not None and status >= 400:
                return 'authenticated but the response status is %d' % status
        else:
            if status is not None:       # a single check on a fresh request
                if login[0] == 2:
                    return 'refused, but request.login is set to %r' % login[1]
                if tag == 1 and c['fn'] != 'check' and (status != 401 or not challenge):
                    return 'refusal without 401 / challenge (status %d)' % status
            elif tag == 1 and c['hdr'] is not None and login[0] == 2:
                return 'refused, but request.login is %r' % login[1]
            # completeness for plainly valid credentials of the supported combinations
            for u, _ in c['users']:
                if verifies(c, u) and self._plain(c):
                    return 'credentials that verify against the entry of %r were refused' % u
        return None

    def _plain(self, c):
        """credentials in the combinations the code supports: Basic with a working encrypt; Digest with
        algorithm MD5 / MD5-sess(+cnonce), qop absent or auth, no duplicated or reserved fields"""
        hdr = c['hdr']
        if hdr is None or ' ' not in hdr:
            return False
        scheme, rest = hdr.split(' ', 1)
        if scheme.lower() == 'basic':
            if c['fn'] == 'digest' or c['enc'] == 0:
                return False
            return re.fullmatch(r'[A-Za-z0-9+/]*={0,2}', rest) is not None and len(rest) % 4 == 0
        fs = lenient_fields(rest)
        d = dict(fs)
        if len(d) != len(fs) or 'auth_scheme' in d:
            return False
        if not re.fullmatch(r'(\s*[a-z_]+=("[^"\\]*"|[^",\s]+)\s*,)*\s*[a-z_]+=("[^"\\]*"|[^",\s]+)\s*', rest):
            return False
        if ('qop' in d) != ('nc' in d and 'cnonce' in d) or (('nc' in d or 'cnonce' in d) and 'qop' not in d):
            return False
        return d.get('algorithm') in (None, 'MD5', 'MD5-sess') and d.get('qop') in (None, 'auth') \
            and (d.get('algorithm') != 'MD5-sess' or 'cnonce' in d)

    def nontrivial(self, c, obs):
        k = c['k']
        if k in ('auth', 'e2e'):
            return c['hdr'] is not None
        if k == 'authseq':
            return c['hdr'] is not None and len(c['checks']) > 1
        if k == 'sess':
            return any(r['cookie'] is not None for r in c['reqs'])
        return c['xfh'] is not None


if __name__ == '__main__':
    sys.exit(common.main(C20()))
