#!/bin/bash
# validate_seeded.sh <name> [srcdir]: confirm a seeded change (patch.diff + demo.py + meta.json) and run the property's check on it.
# Uses a fresh worktree of /repo HEAD under /tmp, removed afterwards. Result is recorded in seeded/<name>/meta.json.
cd "$(dirname "$0")/.."
name="$1"; src="${2:-/verif/seeded/$name}"; prop="${name%_*}"
wt=/tmp/chk_$name
git -C /repo worktree remove --force $wt 2>/dev/null
git -C /repo worktree add --detach $wt HEAD -q || exit 2
if ! git -C $wt apply "$src/patch.diff"; then echo "$name: patch does not apply to HEAD"; git -C /repo worktree remove --force $wt; exit 3; fi
mkdir -p seeded/$name; [ "$src" != "/verif/seeded/$name" ] && cp "$src/patch.diff" "$src/demo.py" "$src/meta.json" seeded/$name/ 2>/dev/null
demo=seeded/$name/demo.py
# demos usually hard-code their worktree path: point them at ours via PYTHONPATH and a sed'ed copy
sed "s#/tmp/mut_$name#$wt#g" $demo > /tmp/demo_$name.py
( cd $wt && PYTHONPATH=$wt PYTHONHASHSEED=0 PYTHONDONTWRITEBYTECODE=1 timeout 300 /venv/bin/python /tmp/demo_$name.py >/dev/null 2>&1 ); with=$?
sed "s#/tmp/mut_$name#/repo#g" $demo > /tmp/demo_$name.py
( cd /repo && PYTHONPATH=/repo PYTHONHASHSEED=0 PYTHONDONTWRITEBYTECODE=1 timeout 300 /venv/bin/python /tmp/demo_$name.py >/dev/null 2>&1 ); without=$?
rm -f /tmp/demo_$name.py
out=$(VERIF_NO_EVIDENCE=1 VERIF_REPO=$wt ./check $prop 2>&1); rc=$?
viol=$(echo "$out" | grep -m1 '^VIOLATION'); what=$(echo "$out" | grep -m1 'what:\|broken:')
git -C /repo worktree remove --force $wt
/venv/bin/python - "$name" "$with" "$without" "$rc" "$viol" "$what" <<'PY'
import json, sys
name, w, wo, rc, viol, what = sys.argv[1:7]
p = 'seeded/%s/meta.json' % name
m = json.load(open(p))
m['property'] = name.rsplit('_', 1)[0]
res = 'caught' if rc == '1' and viol else ('neutralised (a later fix: commit made this change harmless: its demo passes with the change on HEAD; the check is rightly silent)' if w == '0' else 'MISSED')
m['confirmed_by_integrator'] = {'demo_with_change_rc': int(w), 'demo_without_change_rc': int(wo),
    'check_result': res, 'caught_by': (viol + ' ' + what).strip()[:300],
    'how': 'patch applied to a fresh worktree of /repo HEAD; VERIF_REPO=<wt> ./check %s (quick tier)' % m['property']}
json.dump(m, open(p, 'w'), indent=1)
print('%s: demo with=%s without=%s check=%s %s' % (name, w, wo, res, what[:160]))
PY
